#!/bin/bash
# developer helper: build the harness, show errors only
cd /verif/harness && CARGO_NET_OFFLINE=true CARGO_TARGET_DIR=/verif/target cargo build --release --offline 2>&1 | grep -E '^(error|warning: unused)' -A 10 | head -${1:-60}
