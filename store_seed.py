#!/usr/bin/env python3
"""store_seed.py <wt-key> <name> <prop> <needs> <detected_by> [first_missed]  — copies /tmp/wt-<key>/SEED into seeded/<name>/,
writes meta.json, appends the row to DESIGN §0.5 and removes the scratch worktree."""
import json, os, shutil, sys, subprocess, re
k, name, prop, needs, det = sys.argv[1:6]
missed = sys.argv[6] if len(sys.argv) > 6 else ""
d = f"/verif/seeded/{name}"; os.makedirs(d, exist_ok=True)
src = f"/tmp/wt-{k}/SEED"
shutil.copy(src + "/patch.diff", d + "/patch.diff")
shutil.copy(src + "/seed_demo.rs", d + "/seed_demo.rs")
if os.path.exists(src + "/notes.md"): shutil.copy(src + "/notes.md", d + "/agent_notes.md")
head = subprocess.check_output(["git", "-C", "/repo", "rev-parse", "--short", "HEAD"]).decode().strip()
meta = {"property": prop, "breaks": prop, "needs_to_manifest": needs, "confirmed_on_repo_head": head,
        "what_i_ran": ["./confirm_seed.sh <scratch worktree> patch.diff seed_demo.rs  -> patch applies, builds with and without --features verif, baseline 73/0, demo exits non-zero with the change and 0 without it",
                       f"./seedtest2.sh patch.diff quick {prop}  -> exit 1 with a VIOLATION line; ./check {prop} --tier quick exits 0 on the unchanged tree"],
        "detected_by": det,
        "origin": "independent sub-agent given only the property text, a steer towards a code area different from earlier seeds of that property, and a scratch worktree"}
if missed: meta["first_missed"] = missed
json.dump(meta, open(d + "/meta.json", "w"), indent=1)
p = "/verif/DESIGN.md"; s = open(p).read()
m = re.search(r"\n(\d+) of (\d+) seeds were missed at first", s)
a, b = int(m.group(1)), int(m.group(2))
row = f"| {name} | {needs} | {det} | {'no → ' + missed if missed else 'yes'} |\n"
s = s.replace(m.group(0), f"\n{a + (1 if missed else 0)} of {b + 1} seeds were missed at first", 1)
# rows end just before the "Seeds not kept" paragraph that follows the table
idx = s.index("\n\nSeeds not kept")
s = s[:idx] + "\n" + row.rstrip("\n") + s[idx:]
open(p, "w").write(s)
subprocess.call(["git", "-C", "/repo", "worktree", "remove", "--force", f"/tmp/wt-{k}"])
print("stored", name)
