#!/bin/bash
# seeds_regress_par.sh — like seeds_regress.sh, in four parallel slots (scratch worktrees /tmp/seedrepo4..7); output in /tmp/seedreg-<slot>.log
cd /verif
ls -d seeded/*/ > /tmp/seedlist.txt
split -n l/4 -d /tmp/seedlist.txt /tmp/seedlist.part
for slot in 4 5 6 7; do
  part=/tmp/seedlist.part0$((slot-4))
  ( while read d; do
      name=$(basename "$d")
      if grep -q '"obsolete_since"' "$d/meta.json"; then echo "$name :: obsolete (see meta.json)"; continue; fi
      prop=$(python3 -c "import json;print(json.load(open('$d/meta.json'))['property'])")
      r=$(SEEDSLOT=$slot ./seedtest2.sh "$d/patch.diff" quick "$prop" 2>&1 | tail -1 | cut -c1-160)
      echo "$name :: $r"
    done < $part ) > /tmp/seedreg-$slot.log 2>&1 &
done
wait
cat /tmp/seedreg-4.log /tmp/seedreg-5.log /tmp/seedreg-6.log /tmp/seedreg-7.log > /verif/scratch/seeds_regress.log
