#!/bin/bash
# Runs every stored seed against the quick tier of its property's check (on a scratch copy of /repo).
cd /verif
for d in seeded/*/; do
  name=$(basename "$d")
  if grep -q '"obsolete_since"' "$d/meta.json"; then echo "$name :: obsolete (see meta.json)"; continue; fi
  prop=$(python3 -c "import json;print(json.load(open('$d/meta.json'))['property'])")
  r=$(./seedtest2.sh "$d/patch.diff" quick "$prop" 2>&1 | tail -1)
  echo "$name :: $r"
done
