#!/usr/bin/env python3
"""mkprompts.py <round> — writes /tmp/prompts/<round><letter>.txt from the steers in STEERS[round] (dev helper for the seed loop)."""
import json, sys, re
props = {json.loads(l)['id']: json.loads(l) for l in open('/verif/properties.jsonl')}
tmpl = open('/verif/seed_prompt_template.txt').read()
def mk(key, pid, steer):
    p = props[pid]
    block = f"  Title: {p['title']}\n  Statement: {p['statement']}\n  Quantified over: {p['quantifier']['text']}"
    s = tmpl.replace('@@WT@@', f'wt-{key}').replace('@@PROP@@', block).replace('@@STEER@@', steer)
    open(f'/tmp/prompts/{key}.txt', 'w').write(s)
if __name__ == '__main__':
    rnd = sys.argv[1]
    steers = json.load(open(f'/verif/seed_steers/{rnd}.json'))
    for letter, (pid, steer) in steers.items():
        mk(rnd + letter, pid, steer)
        print(rnd + letter, pid)
