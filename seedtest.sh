#!/bin/bash
# seedtest.sh <patch.diff> <tier> <check-id>...   — apply a seeded change to /repo, run checks, revert.
# Prints one line per check: "<id> exit=<code> <first violation key>"
set -u
PATCH="$1"; TIER="$2"; shift 2
if [ -n "$(git -C /repo status --porcelain)" ]; then echo "/repo not clean"; exit 2; fi
trap 'git -C /repo checkout -- . >/dev/null 2>&1' EXIT
git -C /repo apply "$PATCH" || { echo "patch does not apply"; exit 2; }
for id in "$@"; do
  out=$(cd /verif && VERIF_OUT=/verif/scratch/seedtest ./check_scratch "$id" --tier "$TIER" 2>&1)
  code=$?
  key=$(echo "$out" | grep -m1 'key=' | cut -c1-220)
  echo "$id exit=$code $key"
done
