#!/bin/bash
# run_all.sh <tier> [ids...] — developer helper: run checks into /verif/scratch/<tier> (never touches committed evidence)
TIER="$1"; shift
IDS="${@:-C01 C02 C03 C04 C05 C06 C07 C08 C09 C10 C11 C12 C13 C14 C15 C16 C17 C18 C19 C20}"
cd /verif; ulimit -n 65536 2>/dev/null
export CARGO_NET_OFFLINE=true CARGO_TARGET_DIR=/verif/target VERIF_OUT=/verif/scratch/$TIER
mkdir -p $VERIF_OUT/evidence $VERIF_OUT/replays
cp -f KNOWN_FINDINGS.json $VERIF_OUT/
(cd harness && cargo build --release --offline >/dev/null 2>&1) || { echo build failed; exit 2; }
for id in $IDS; do
  s=$(date +%s)
  out=$(/verif/target/release/vcheck $id --tier $TIER 2>&1); code=$?
  e=$(( $(date +%s) - s ))
  echo "$id exit=$code ${e}s :: $(echo "$out" | grep "^\[$id\]" | cut -c1-200)"
  echo "$out" | grep -E 'key=|MACHINERY' | grep -v KNOWN | cut -c1-300 | head -5
done
