//! SEMI / LX helpers: real-time runtime, loopback sockets.

use std::future::Future;
use std::net::SocketAddr;
use std::time::Duration;

pub fn rt_multi() -> tokio::runtime::Runtime {
    tokio::runtime::Builder::new_multi_thread()
        .worker_threads(8)
        .enable_all()
        .build()
        .expect("runtime")
}

pub fn block_on<T>(f: impl Future<Output = T>) -> T {
    rt_multi().block_on(f)
}

/// A port on `ip` that is currently free (bound and released).
pub fn free_port(ip: &str) -> u16 {
    let l = std::net::TcpListener::bind(format!("{ip}:0")).expect("bind");
    l.local_addr().unwrap().port()
}

pub fn free_udp_port(ip: &str) -> u16 {
    let l = std::net::UdpSocket::bind(format!("{ip}:0")).expect("bind");
    l.local_addr().unwrap().port()
}

pub async fn real_timeout<T>(ms: u64, f: impl Future<Output = T>) -> Option<T> {
    tokio::time::timeout(Duration::from_millis(ms), f).await.ok()
}

pub fn sa(ip: &str, port: u16) -> SocketAddr {
    format!("{ip}:{port}").parse().unwrap()
}

/// A port on 127.0.0.1 that refuses connections and stays reserved while the guard lives
/// (bound but not listening).
pub fn refusing_port(ip: &str) -> (u16, tokio::net::TcpSocket) {
    let sock = if ip.contains(':') { tokio::net::TcpSocket::new_v6().unwrap() } else { tokio::net::TcpSocket::new_v4().unwrap() };
    sock.bind(format!("{}:0", if ip.contains(':') { format!("[{ip}]") } else { ip.to_string() }).parse().unwrap()).expect("bind");
    let port = sock.local_addr().unwrap().port();
    (port, sock)
}
