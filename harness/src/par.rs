//! Tiny parallel-for over an index range with per-worker results.
use std::sync::Arc;
use std::sync::atomic::{AtomicUsize, Ordering};

pub fn par_map<T: Send + 'static, F>(n: usize, workers: usize, f: F) -> Vec<T>
where
    F: Fn(usize) -> T + Send + Sync + 'static,
{
    let f = Arc::new(f);
    let next = Arc::new(AtomicUsize::new(0));
    let mut hs = vec![];
    for _ in 0..workers.max(1) {
        let f = f.clone();
        let next = next.clone();
        hs.push(std::thread::spawn(move || {
            let mut out = vec![];
            loop {
                let i = next.fetch_add(1, Ordering::SeqCst);
                if i >= n {
                    return out;
                }
                out.push((i, f(i)));
            }
        }));
    }
    let mut all: Vec<(usize, T)> = vec![];
    for h in hs {
        all.extend(h.join().expect("worker panicked"));
    }
    all.sort_by_key(|x| x.0);
    all.into_iter().map(|x| x.1).collect()
}
