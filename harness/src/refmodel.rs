//! Reference implementations written from the protocol description
//! (independent of /repo): frame codec on Vec<u8>, the padding acceptor.

#[derive(Clone, Debug, PartialEq, Eq, Hash)]
pub struct RFrame {
    pub cmd: u8,
    pub id: u32,
    pub data: Vec<u8>,
}

pub const WASTE: u8 = 0;
pub const SYN: u8 = 1;
pub const PSH: u8 = 2;
pub const FIN: u8 = 3;
pub const SETTINGS: u8 = 4;
pub const ALERT: u8 = 5;
pub const UPDATE_PADDING: u8 = 6;
pub const SYNACK: u8 = 7;
pub const HEART_REQ: u8 = 8;
pub const HEART_RESP: u8 = 9;
pub const SERVER_SETTINGS: u8 = 10;

pub fn cmd_name(c: u8) -> &'static str {
    match c {
        0 => "WASTE",
        1 => "SYN",
        2 => "PSH",
        3 => "FIN",
        4 => "SETTINGS",
        5 => "ALERT",
        6 => "UPDPAD",
        7 => "SYNACK",
        8 => "HREQ",
        9 => "HRESP",
        10 => "SRVSET",
        _ => "UNKNOWN",
    }
}

impl RFrame {
    pub fn new(cmd: u8, id: u32, data: &[u8]) -> Self {
        RFrame { cmd, id, data: data.to_vec() }
    }
    pub fn encode(&self) -> Vec<u8> {
        assert!(self.data.len() <= 65535);
        let mut v = Vec::with_capacity(7 + self.data.len());
        v.push(self.cmd);
        v.extend_from_slice(&self.id.to_be_bytes());
        v.extend_from_slice(&(self.data.len() as u16).to_be_bytes());
        v.extend_from_slice(&self.data);
        v
    }
    pub fn short(&self) -> String {
        format!("{}({},{})", cmd_name(self.cmd), self.id, self.data.len())
    }
}

pub fn enc(cmd: u8, id: u32, data: &[u8]) -> Vec<u8> {
    RFrame::new(cmd, id, data).encode()
}

/// Parse a byte string into complete frames; returns the frames and the
/// number of trailing bytes that do not form a complete frame.
pub fn parse_all(mut b: &[u8]) -> (Vec<RFrame>, usize) {
    let mut out = vec![];
    loop {
        if b.len() < 7 {
            return (out, b.len());
        }
        let len = u16::from_be_bytes([b[5], b[6]]) as usize;
        if b.len() < 7 + len {
            return (out, b.len());
        }
        out.push(RFrame {
            cmd: b[0],
            id: u32::from_be_bytes([b[1], b[2], b[3], b[4]]),
            data: b[7..7 + len].to_vec(),
        });
        b = &b[7 + len..];
    }
}

pub fn fmt_frames(fr: &[RFrame]) -> String {
    fr.iter().map(|f| f.short()).collect::<Vec<_>>().join(" ")
}

// ---------------------------------------------------------------------------
// Padding scheme reference (written from the AnyTLS protocol text).

#[derive(Clone, Debug, PartialEq, Eq)]
pub enum Entry {
    Check,
    Range(i64, i64),
}

#[derive(Clone, Debug)]
pub struct RScheme {
    pub stop: u32,
    pub lines: std::collections::HashMap<u32, Vec<Entry>>,
}

/// Parse a scheme text the way the protocol describes: `stop=N`, `k=a-b,c,...`.
/// Entries that are not `c` or a pair of positive integers are skipped.
pub fn parse_scheme(text: &str) -> Option<RScheme> {
    let mut stop = None;
    let mut lines = std::collections::HashMap::new();
    for l in text.lines() {
        let Some((k, v)) = l.split_once('=') else { continue };
        let (k, v) = (k.trim(), v.trim());
        if k == "stop" {
            stop = v.parse::<u32>().ok();
            if stop.is_none() {
                return None;
            }
            continue;
        }
        let Ok(idx) = k.parse::<u32>() else { continue };
        if k != idx.to_string() {
            continue;
        }
        let mut es = vec![];
        for part in v.split(',') {
            let part = part.trim();
            if part == "c" {
                es.push(Entry::Check);
            } else if let Some((a, b)) = part.split_once('-') {
                let a = a.trim().parse::<i64>().unwrap_or(0);
                let b = b.trim().parse::<i64>().unwrap_or(0);
                if a > 0 && b > 0 {
                    es.push(Entry::Range(a.min(b), a.max(b)));
                }
            }
        }
        lines.insert(idx, es);
    }
    Some(RScheme { stop: stop?, lines })
}

/// Does the sequence of transport write lengths `writes` for one packet with
/// `payload` bytes of real frames conform to `line`? Nondeterministic in the
/// draw: any size in [lo,hi] is allowed for each range entry.
/// Returns Ok(()) or a description of the first disagreement.
pub fn accept_packet(line: &[Entry], payload: usize, writes: &[usize]) -> Result<(), String> {
    // DFS over draws is unnecessary: each write determines the draw uniquely
    // enough to check membership, except that one write may be explained by
    // several sizes; all explanations lead to the same `rem` except the
    // payload+padding case, which always ends with rem = 0. So a greedy walk
    // with a small set of possible `rem` values suffices.
    let mut rems: Vec<usize> = vec![payload];
    let mut wi = 0usize;
    for e in line {
        match e {
            Entry::Check => {
                // stop if nothing remains
                if rems.iter().all(|r| *r == 0) {
                    if wi != writes.len() {
                        return Err(format!(
                            "write #{} (len {}) after a check mark with no payload left",
                            wi, writes[wi]
                        ));
                    }
                    return Ok(());
                }
                rems.retain(|r| *r != 0);
            }
            Entry::Range(lo, hi) => {
                if wi >= writes.len() {
                    return Err(format!(
                        "scheme entry {}-{} produced no write (writes so far {:?})",
                        lo, hi, &writes[..wi]
                    ));
                }
                let w = writes[wi] as i64;
                let mut next: Vec<usize> = vec![];
                for rem in &rems {
                    let rem = *rem as i64;
                    // all payload: rem > s, w = s
                    if w >= *lo && w <= *hi && rem > w {
                        next.push((rem - w) as usize);
                    }
                    // payload + padding: 0 < rem <= s, s - rem - 7 > 0, w = s
                    if rem > 0 && w >= *lo && w <= *hi && rem <= w && w - rem - 7 > 0 {
                        next.push(0);
                    }
                    // payload only (no room for a padding header): 0 < rem <= s, s-rem-7 <= 0, w = rem
                    if rem > 0 && w == rem {
                        // exists s in [lo,hi] with s >= rem and s - rem - 7 <= 0
                        let s_lo = (*lo).max(rem);
                        let s_hi = (*hi).min(rem + 7);
                        if s_lo <= s_hi {
                            next.push(0);
                        }
                    }
                    // padding only: rem = 0, w = s + 7
                    if rem == 0 && w - 7 >= *lo && w - 7 <= *hi {
                        next.push(0);
                    }
                }
                next.sort_unstable();
                next.dedup();
                if next.is_empty() {
                    return Err(format!(
                        "write #{} of {} bytes is not permitted by entry {}-{} with {:?} payload bytes remaining",
                        wi, w, lo, hi, rems
                    ));
                }
                rems = next;
                wi += 1;
            }
        }
    }
    // after the line: remaining payload goes out in one more write
    let mut ok = false;
    for rem in &rems {
        if *rem == 0 && wi == writes.len() {
            ok = true;
        }
        if *rem > 0 && wi + 1 == writes.len() && writes[wi] == *rem {
            ok = true;
        }
    }
    if ok {
        Ok(())
    } else {
        Err(format!(
            "after the scheme line: remaining payload {:?}, unexplained writes {:?}",
            rems,
            &writes[wi.min(writes.len())..]
        ))
    }
}
