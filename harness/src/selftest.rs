//! Self-test of the explorer on a toy lost-update whose failing schedule is known.

use crate::ctl::{ExploreCfg, Outcome, explore, hpoint, run_exec, scenario};
use std::sync::{Arc, Mutex};

pub fn run() -> i32 {
    let sc = scenario(|| async {
        let c = Arc::new(Mutex::new(0u32));
        let mut hs = vec![];
        for _ in 0..2 {
            let c = c.clone();
            hs.push(tokio::spawn(async move {
                hpoint("t.before_read").await;
                let v = *c.lock().unwrap();
                hpoint("t.between").await;
                *c.lock().unwrap() = v + 1;
            }));
        }
        for h in hs {
            let _ = h.await;
        }
        let mut o = Outcome::default();
        let v = *c.lock().unwrap();
        o.obs = format!("final={v}");
        if v != 2 {
            o.viol("toy:lost-update", format!("final counter {v}, expected 2"));
        }
        o
    });
    let mut ok = true;
    let mut say = |cond: bool, what: &str| {
        println!("{} {}", if cond { "ok  " } else { "FAIL" }, what);
        ok &= cond;
    };
    // bound 0: exactly one execution, no violation, 4 choice sites
    let st0 = explore(&sc, &ExploreCfg::new("toy", 0)).expect("explore b0");
    say(st0.executions == 1 && st0.violations.is_empty(), "bound 0: one execution, counter is 2");
    say(st0.sites_max == 4, "bound 0: four scheduling points visited");
    // bound 1: the lost update is found with exactly one deviation at t.between
    let mut cfg = ExploreCfg::new("toy", 1);
    cfg.max_violations = 100;
    let st1 = explore(&sc, &cfg).expect("explore b1");
    say(st1.executions == 5, &format!("bound 1: 1 + 4 executions (got {})", st1.executions));
    say(!st1.violations.is_empty(), "bound 1: the lost update is found");
    say(st1.violations.iter().all(|v| v.deviations == 1 && v.trace_sites.iter().all(|s| s.starts_with("t.between"))), "bound 1: every failing schedule has one deviation, at t.between");
    say(st1.distinct_obs == 2, "bound 1: two distinct observations (final=2, final=1)");
    // replay determinism
    if let Some(v) = st1.violations.first() {
        let a = run_exec(&sc, &cfg.exec, &v.choices, 0);
        let b = run_exec(&sc, &cfg.exec, &v.choices, 0);
        say(a.trace == b.trace && a.outcome.obs == b.outcome.obs && a.outcome.obs == "final=1", "replaying the failing choice vector twice gives the same trace and final=1");
        // an out-of-range replayed choice is a divergence, not a verdict
        let bad = run_exec(&sc, &cfg.exec, &[7], 0);
        say(bad.diverged.is_some(), "an out-of-range replayed choice is reported as divergence");
    }
    // HashMap iteration order is identical across execution threads
    let order = scenario(|| async {
        let mut m = std::collections::HashMap::new();
        for i in 0..40u32 {
            m.insert(i, i);
        }
        let mut o = Outcome::default();
        o.obs = format!("{:?}", m.keys().collect::<Vec<_>>());
        o
    });
    let a = run_exec(&order, &cfg.exec, &[], 0);
    let b = run_exec(&order, &cfg.exec, &[], 0);
    say(a.outcome.obs == b.outcome.obs, "hash-map iteration order is the same on every execution thread (getrandom interposition)");
    if ok {
        println!("selftest passed");
        0
    } else {
        2
    }
}
