//! LX — loopback driver: the real Server, Client, SOCKS5 and HTTP front-ends
//! over real TLS/TCP on 127.0.0.1, production multi-thread runtime, real time.

use crate::semi::*;
use anytls_rs::client::{Client, SessionPoolConfig, start_http_proxy_server, start_socks5_server};
use anytls_rs::padding::PaddingFactory;
use anytls_rs::server::Server;
use std::net::SocketAddr;
use std::sync::Arc;
use std::sync::atomic::{AtomicUsize, Ordering};
use std::time::Duration;
use tokio::io::{AsyncReadExt, AsyncWriteExt};
use tokio::net::{TcpListener, TcpStream};
use tokio_rustls::rustls::pki_types::ServerName;

pub struct Lx {
    pub server_addr: SocketAddr,
    /// address clients dial: a counting TCP relay in front of the server
    pub front_addr: SocketAddr,
    pub tls_connections: Arc<AtomicUsize>,
    /// additional counting relays on 127.0.0.2.. (same counter): spreading connections over several
    /// loopback addresses keeps long runs clear of ephemeral-port exhaustion (TIME_WAIT)
    pub extra_fronts: Vec<SocketAddr>,
    pub client: Arc<Client>,
    pub socks: Option<SocketAddr>,
    pub http: Option<SocketAddr>,
    tasks: Vec<tokio::task::JoinHandle<()>>,
}

impl Drop for Lx {
    fn drop(&mut self) {
        for t in &self.tasks {
            t.abort();
        }
    }
}

async fn wait_listening(addr: SocketAddr) -> bool {
    for _ in 0..400 {
        if TcpStream::connect(addr).await.is_ok() {
            return true;
        }
        tokio::time::sleep(Duration::from_millis(5)).await;
    }
    false
}

/// Start `f(addr)` (a listener that never reports its bound address) on a free port; retry on clashes.
async fn start_on_free_port<F, Fut>(f: F) -> Option<(SocketAddr, tokio::task::JoinHandle<()>)>
where
    F: Fn(String) -> Fut,
    Fut: std::future::Future<Output = ()> + Send + 'static,
{
    for _ in 0..20 {
        let port = free_port("127.0.0.1");
        let addr: SocketAddr = format!("127.0.0.1:{port}").parse().unwrap();
        let h = tokio::spawn(f(addr.to_string()));
        if wait_listening(addr).await && !h.is_finished() {
            return Some((addr, h));
        }
        h.abort();
    }
    None
}

pub fn pool_cfg(check_s: u64, idle_s: u64, min_idle: usize) -> SessionPoolConfig {
    SessionPoolConfig { check_interval: Duration::from_secs(check_s), idle_timeout: Duration::from_secs(idle_s), min_idle_sessions: min_idle }
}

pub fn make_client(password: &str, server: SocketAddr, padding: Arc<PaddingFactory>, pool: SessionPoolConfig) -> Arc<Client> {
    let cfg = anytls_rs::util::tls::create_client_config().expect("client tls config");
    let connector = Arc::new(tokio_rustls::TlsConnector::from(cfg));
    Arc::new(Client::with_pool_config(password, server.to_string(), ServerName::try_from("localhost").unwrap(), connector, padding, pool))
}

pub async fn start_lx(server_password: &str, client_password: &str, pool: SessionPoolConfig, socks: bool, http: bool) -> Result<Lx, String> {
    let mut tasks = vec![];
    let tls = anytls_rs::util::tls::create_server_config().map_err(|e| format!("server tls config: {e}"))?;
    let acceptor = Arc::new(tokio_rustls::TlsAcceptor::from(tls));
    let server = Arc::new(Server::new(server_password, acceptor, PaddingFactory::default(), None));
    let s2 = server.clone();
    let (server_addr, h) = start_on_free_port(move |a| {
        let s = s2.clone();
        async move {
            let _ = s.listen(&a).await;
        }
    })
    .await
    .ok_or("cannot start server")?;
    tasks.push(h);
    // counting relay in front of the server
    let l = TcpListener::bind("127.0.0.1:0").await.map_err(|e| e.to_string())?;
    let front_addr = l.local_addr().unwrap();
    let count = Arc::new(AtomicUsize::new(0));
    let c2 = count.clone();
    tasks.push(tokio::spawn(async move {
        loop {
            let Ok((mut a, _)) = l.accept().await else { return };
            c2.fetch_add(1, Ordering::SeqCst);
            tokio::spawn(async move {
                let Ok(mut b) = TcpStream::connect(server_addr).await else { return };
                let _ = a.set_nodelay(true);
                let _ = b.set_nodelay(true);
                let _ = tokio::io::copy_bidirectional(&mut a, &mut b).await;
            });
        }
    }));
    let mut extra_fronts = vec![];
    for k in 2..=8u8 {
        let ip = format!("127.0.0.{k}");
        let Ok(l) = TcpListener::bind(format!("{ip}:0")).await else { continue };
        extra_fronts.push(l.local_addr().unwrap());
        let c2 = count.clone();
        tasks.push(tokio::spawn(async move {
            loop {
                let Ok((mut a, _)) = l.accept().await else { return };
                c2.fetch_add(1, Ordering::SeqCst);
                let ip = ip.clone();
                tokio::spawn(async move {
                    // leave from this relay's own address so that the 4-tuples differ per relay
                    let Ok(sock) = tokio::net::TcpSocket::new_v4() else { return };
                    let _ = sock.bind(format!("{ip}:0").parse().unwrap());
                    let Ok(mut b) = sock.connect(server_addr).await else { return };
                    let _ = a.set_nodelay(true);
                    let _ = b.set_nodelay(true);
                    let _ = tokio::io::copy_bidirectional(&mut a, &mut b).await;
                });
            }
        }));
    }
    let client = make_client(client_password, front_addr, PaddingFactory::default(), pool);
    let mut lx = Lx { server_addr, front_addr, tls_connections: count, extra_fronts, client: client.clone(), socks: None, http: None, tasks };
    if socks {
        let c = client.clone();
        let (a, h) = start_on_free_port(move |a| {
            let c = c.clone();
            async move {
                let _ = start_socks5_server(&a, c).await;
            }
        })
        .await
        .ok_or("cannot start socks5 front-end")?;
        lx.socks = Some(a);
        lx.tasks.push(h);
    }
    if http {
        let c = client.clone();
        let (a, h) = start_on_free_port(move |a| {
            let c = c.clone();
            async move {
                let _ = start_http_proxy_server(&a, c).await;
            }
        })
        .await
        .ok_or("cannot start http front-end")?;
        lx.http = Some(a);
        lx.tasks.push(h);
    }
    // the probes used to detect readiness created connections: reset the counter
    tokio::time::sleep(Duration::from_millis(20)).await;
    lx.tls_connections.store(0, Ordering::SeqCst);
    Ok(lx)
}

/// What a target saw on one accepted connection.
#[derive(Clone, Debug, Default)]
pub struct TargetConn {
    pub received: Vec<u8>,
    pub eof: bool,
}

/// A scripted loopback target: accepts connections, records what it receives,
/// optionally sends `greeting`, and behaves per `mode`.
#[derive(Clone, Copy, Debug, PartialEq)]
pub enum TargetMode {
    /// read until EOF, then close
    Sink,
    /// echo everything back until EOF
    Echo,
    /// send greeting then close at once
    SendAndClose,
    /// send greeting, half-close the write side, keep reading
    SendAndHalfClose,
    /// echo, but close the connection after 300 ms without traffic (keeps long LX runs within the
    /// descriptor limit: the server never closes a target connection by itself — open finding C08)
    EchoIdleClose,
    /// a slow consumer: tiny receive buffer, starts reading only after 400 ms, then reads until EOF
    /// (whoever writes to it sees back-pressure and partial writes)
    SlowSink,
    /// nothing at connect; on the first bytes received the greeting goes out in three parts 150 ms apart, then close
    DripReply,
}

pub struct Target {
    pub addr: SocketAddr,
    pub conns: Arc<std::sync::Mutex<Vec<Arc<std::sync::Mutex<TargetConn>>>>>,
    task: tokio::task::JoinHandle<()>,
}

impl Drop for Target {
    fn drop(&mut self) {
        self.task.abort();
    }
}

impl Target {
    pub fn accepted(&self) -> usize {
        self.conns.lock().unwrap().len()
    }
    pub fn conn(&self, i: usize) -> Option<TargetConn> {
        self.conns.lock().unwrap().get(i).map(|c| c.lock().unwrap().clone())
    }
    /// wait until connection i exists and `pred` holds, up to ms
    pub async fn wait(&self, i: usize, ms: u64, pred: impl Fn(&TargetConn) -> bool) -> Option<TargetConn> {
        let t0 = tokio::time::Instant::now();
        loop {
            if let Some(c) = self.conn(i)
                && pred(&c)
            {
                return Some(c);
            }
            if t0.elapsed().as_millis() as u64 > ms {
                return self.conn(i);
            }
            tokio::time::sleep(Duration::from_millis(3)).await;
        }
    }
}

pub async fn start_target(ip: &str, mode: TargetMode, greeting: Vec<u8>) -> Target {
    let bind = if ip.contains(':') { format!("[{ip}]:0") } else { format!("{ip}:0") };
    let l = if mode == TargetMode::SlowSink {
        let sock = if ip.contains(':') { tokio::net::TcpSocket::new_v6() } else { tokio::net::TcpSocket::new_v4() }.expect("socket");
        let _ = sock.set_recv_buffer_size(4096);
        sock.bind(bind.parse().expect("addr")).expect("bind target");
        sock.listen(64).expect("listen")
    } else {
        TcpListener::bind(&bind).await.expect("bind target")
    };
    let addr = l.local_addr().unwrap();
    let conns: Arc<std::sync::Mutex<Vec<Arc<std::sync::Mutex<TargetConn>>>>> = Arc::new(std::sync::Mutex::new(vec![]));
    let c2 = conns.clone();
    let task = tokio::spawn(async move {
        loop {
            let Ok((mut s, _)) = l.accept().await else { return };
            let _ = s.set_nodelay(true);
            let rec = Arc::new(std::sync::Mutex::new(TargetConn::default()));
            c2.lock().unwrap().push(rec.clone());
            let greeting = greeting.clone();
            tokio::spawn(async move {
                if !greeting.is_empty() && mode != TargetMode::DripReply {
                    let _ = s.write_all(&greeting).await;
                }
                match mode {
                    TargetMode::SendAndClose => {
                        let _ = s.shutdown().await;
                        return;
                    }
                    TargetMode::SendAndHalfClose => {
                        let _ = s.shutdown().await;
                    }
                    _ => {}
                }
                if mode == TargetMode::SlowSink {
                    tokio::time::sleep(Duration::from_millis(400)).await;
                }
                let mut buf = vec![0u8; 65536];
                loop {
                    let r = if mode == TargetMode::EchoIdleClose {
                        match tokio::time::timeout(Duration::from_millis(300), s.read(&mut buf)).await {
                            Ok(r) => r,
                            Err(_) => return, // idle: close
                        }
                    } else {
                        s.read(&mut buf).await
                    };
                    match r {
                        Ok(0) => {
                            rec.lock().unwrap().eof = true;
                            return;
                        }
                        Err(_) => return,
                        Ok(n) => {
                            rec.lock().unwrap().received.extend_from_slice(&buf[..n]);
                            if mode == TargetMode::DripReply {
                                let third = greeting.len().div_ceil(3).max(1);
                                for part in greeting.chunks(third) {
                                    if s.write_all(part).await.is_err() {
                                        return;
                                    }
                                    tokio::time::sleep(Duration::from_millis(150)).await;
                                }
                                let _ = s.shutdown().await;
                                return;
                            }
                            if (mode == TargetMode::Echo || mode == TargetMode::EchoIdleClose) && s.write_all(&buf[..n]).await.is_err() {
                                return;
                            }
                        }
                    }
                }
            });
        }
    });
    Target { addr, conns, task }
}

/// A TCP connection whose receive buffer is tiny (the local application is a slow consumer).
pub async fn connect_small_rcvbuf(to: SocketAddr) -> Result<TcpStream, String> {
    let sock = if to.is_ipv6() { tokio::net::TcpSocket::new_v6() } else { tokio::net::TcpSocket::new_v4() }.map_err(|e| e.to_string())?;
    let _ = sock.set_recv_buffer_size(4096);
    sock.connect(to).await.map_err(|e| e.to_string())
}

/// SOCKS5 client side: greeting + CONNECT to `dest`; returns the stream after the success reply.
pub async fn socks5_connect(proxy: SocketAddr, dest: SocketAddr) -> Result<TcpStream, String> {
    let s = TcpStream::connect(proxy).await.map_err(|e| e.to_string())?;
    socks5_connect_on(s, dest).await
}

/// A target that SPEAKS FIRST (sends `banner` the instant it is connected) behind a front-end; the client may also send
/// `early` bytes right behind its request. The front-end's reply must come first and whole, then exactly the banner,
/// then the echo of the early bytes and of a marker. Err((clause, detail)) names what was broken.
pub async fn speaks_first_exchange(front: &str, proxy: SocketAddr, target: SocketAddr, banner: &[u8], early: &[u8]) -> Result<(), (String, String)> {
    let io = |e: std::io::Error| ("io".to_string(), e.to_string());
    let mut s = TcpStream::connect(proxy).await.map_err(io)?;
    let _ = s.set_nodelay(true);
    let rd = |what: &'static str| move |_| ("reply".to_string(), format!("connection ended or stalled while reading {what}"));
    if front == "socks5" {
        s.write_all(&[5, 1, 0]).await.map_err(io)?;
        let mut r = [0u8; 2];
        tokio::time::timeout(Duration::from_secs(5), s.read_exact(&mut r)).await.map_err(rd("the method reply"))?.map_err(io)?;
        if r != [5, 0] {
            return Err(("reply".into(), format!("method reply {:02x?}", r)));
        }
        let mut req = vec![5u8, 1, 0];
        match target {
            SocketAddr::V4(a) => {
                req.push(1);
                req.extend_from_slice(&a.ip().octets());
            }
            SocketAddr::V6(a) => {
                req.push(4);
                req.extend_from_slice(&a.ip().octets());
            }
        }
        req.extend_from_slice(&target.port().to_be_bytes());
        req.extend_from_slice(early);
        s.write_all(&req).await.map_err(io)?;
        let mut h = [0u8; 4];
        tokio::time::timeout(Duration::from_secs(10), s.read_exact(&mut h)).await.map_err(rd("the reply"))?.map_err(io)?;
        if h[0] != 5 || h[1] != 0 || h[2] != 0 || !matches!(h[3], 1 | 3 | 4) {
            return Err(("reply".into(), format!("the first bytes after the request are {:02x?}: not a SOCKS5 success reply (tunnel bytes before or inside the reply?)", h)));
        }
        let alen = match h[3] {
            1 => 4,
            4 => 16,
            _ => {
                let mut l = [0u8; 1];
                tokio::time::timeout(Duration::from_secs(5), s.read_exact(&mut l)).await.map_err(rd("the reply"))?.map_err(io)?;
                l[0] as usize
            }
        };
        let mut rest = vec![0u8; alen + 2];
        tokio::time::timeout(Duration::from_secs(5), s.read_exact(&mut rest)).await.map_err(rd("the reply"))?.map_err(io)?;
    } else {
        let mut req = format!("CONNECT {target} HTTP/1.1\r\nHost: {target}\r\n\r\n").into_bytes();
        req.extend_from_slice(early);
        s.write_all(&req).await.map_err(io)?;
        let mut acc = vec![];
        let mut b = [0u8; 1];
        while !acc.ends_with(b"\r\n\r\n") {
            match tokio::time::timeout(Duration::from_secs(10), s.read(&mut b)).await {
                Ok(Ok(1)) => acc.push(b[0]),
                _ => return Err(("reply".into(), format!("CONNECT reply incomplete: {:?}", String::from_utf8_lossy(&acc)))),
            }
            if acc.len() > 4096 {
                return Err(("reply".into(), "CONNECT reply header longer than 4096 bytes".into()));
            }
        }
        if !acc.starts_with(b"HTTP/1.1 200") || acc.windows(4).any(|w| w == &banner[..banner.len().min(4)] && banner.len() >= 4) {
            return Err(("reply".into(), format!("CONNECT reply {:?} (tunnel bytes inside the reply?)", String::from_utf8_lossy(&acc))));
        }
    }
    // exactly the banner, then the echo of the early bytes, then of a marker
    let mut got = vec![0u8; banner.len()];
    if tokio::time::timeout(Duration::from_secs(10), s.read_exact(&mut got)).await.map(|r| r.is_err()).unwrap_or(true) {
        return Err(("banner".into(), format!("the {}-byte banner the target sent on connect did not arrive completely", banner.len())));
    }
    if got != banner {
        let at = got.iter().zip(banner.iter()).position(|(a, b)| a != b).unwrap_or(0);
        return Err(("banner".into(), format!("the bytes after the reply differ from the target's banner at offset {at} of {}", banner.len())));
    }
    let marker = b"<<marker>>";
    s.write_all(marker).await.map_err(io)?;
    let mut want = early.to_vec();
    want.extend_from_slice(marker);
    let mut echo = vec![0u8; want.len()];
    if tokio::time::timeout(Duration::from_secs(10), s.read_exact(&mut echo)).await.map(|r| r.is_err()).unwrap_or(true) || echo != want {
        return Err(("echo".into(), format!("after the banner the echo of {} early bytes + marker came back as {:?}", early.len(), String::from_utf8_lossy(&echo))));
    }
    Ok(())
}

/// LX pass shared by C16 (SOCKS5) and C17 (HTTP CONNECT): targets that speak first, with and without early client bytes.
pub fn speaks_first_pass(rep: &mut crate::report::Report, prop: &str, front: &'static str, thorough: bool) {
    let rt = crate::semi::rt_multi();
    let r: Result<Vec<(String, Option<(String, String)>)>, String> = rt.block_on(async {
        let lx = start_lx("pw", "pw", crate::lx::pool_cfg(3600, 3600, 1), front == "socks5", front != "socks5").await?;
        let proxy = if front == "socks5" { lx.socks.unwrap() } else { lx.http.unwrap() };
        let mut out = vec![];
        for blen in [1usize, 64, 5000, 70000] {
            let mut banner = b"BNR!".to_vec();
            banner.truncate(blen.min(4));
            while banner.len() < blen {
                banner.push(b'a' + (banner.len() % 23) as u8);
            }
            let t = start_target("127.0.0.1", TargetMode::Echo, banner.clone()).await;
            for early in [0usize, 10] {
                for rep_no in 0..(if thorough { 10 } else { 3 }) {
                    let e: Vec<u8> = (0..early).map(|k| b'0' + (k % 10) as u8).collect();
                    let name = format!("{front}: target sends a {blen}-byte banner on connect, client sends {early} early bytes (run {rep_no})");
                    out.push((name, speaks_first_exchange(front, proxy, t.addr, &banner, &e).await.err()));
                }
            }
        }
        Ok(out)
    });
    match r {
        Err(e) => rep.machinery(format!("LX start failed (speaks-first pass): {e}")),
        Ok(v) => {
            for (name, res) in v {
                rep.case(Some(&name));
                if let Some((clause, detail)) = res {
                    if clause == "io" {
                        rep.machinery(format!("{name}: {detail}"));
                    } else {
                        rep.violation(&format!("{prop}:target-speaks-first:{clause}"), &format!("{name}: {detail}"), serde_json::json!({"engine": "LX", "case": name}));
                    }
                }
            }
        }
    }
}

pub async fn socks5_connect_on(mut s: TcpStream, dest: SocketAddr) -> Result<TcpStream, String> {
    let _ = s.set_nodelay(true);
    s.write_all(&[5, 1, 0]).await.map_err(|e| e.to_string())?;
    let mut r = [0u8; 2];
    s.read_exact(&mut r).await.map_err(|e| format!("method reply: {e}"))?;
    if r != [5, 0] {
        return Err(format!("method reply {:?}", r));
    }
    let mut req = vec![5u8, 1, 0];
    match dest {
        SocketAddr::V4(a) => {
            req.push(1);
            req.extend_from_slice(&a.ip().octets());
        }
        SocketAddr::V6(a) => {
            req.push(4);
            req.extend_from_slice(&a.ip().octets());
        }
    }
    req.extend_from_slice(&dest.port().to_be_bytes());
    s.write_all(&req).await.map_err(|e| e.to_string())?;
    let mut h = [0u8; 4];
    s.read_exact(&mut h).await.map_err(|e| format!("reply: {e}"))?;
    let alen = match h[3] {
        1 => 4,
        4 => 16,
        3 => {
            let mut l = [0u8; 1];
            s.read_exact(&mut l).await.map_err(|e| e.to_string())?;
            l[0] as usize
        }
        _ => return Err(format!("reply atyp {}", h[3])),
    };
    let mut rest = vec![0u8; alen + 2];
    s.read_exact(&mut rest).await.map_err(|e| e.to_string())?;
    if h[1] != 0 {
        return Err(format!("reply code {}", h[1]));
    }
    Ok(s)
}

/// Read until EOF or until nothing arrives for `idle_ms`; returns (bytes, saw_eof).
pub async fn read_all_or_idle(s: &mut (impl AsyncReadExt + Unpin), idle_ms: u64) -> (Vec<u8>, bool) {
    let mut out = vec![];
    let mut buf = vec![0u8; 65536];
    loop {
        match tokio::time::timeout(Duration::from_millis(idle_ms), s.read(&mut buf)).await {
            Err(_) => return (out, false),
            Ok(Ok(0)) | Ok(Err(_)) => return (out, true),
            Ok(Ok(n)) => out.extend_from_slice(&buf[..n]),
        }
    }
}

/// Wait until the peer's receive queue for the connection (ours -> peer) is empty, i.e. the
/// application on the other side has read everything sent so far. Forces TCP fragmentation
/// deterministically: the next write cannot be merged into the same read. IPv4 only.
pub async fn wait_peer_drained(ours: SocketAddr, peer: SocketAddr) {
    fn enc(a: &SocketAddr) -> Option<String> {
        match a {
            SocketAddr::V4(v) => {
                let o = v.ip().octets();
                Some(format!("{:02X}{:02X}{:02X}{:02X}:{:04X}", o[3], o[2], o[1], o[0], v.port()))
            }
            _ => None,
        }
    }
    let (Some(l), Some(r)) = (enc(&peer), enc(&ours)) else {
        tokio::time::sleep(Duration::from_millis(3)).await;
        return;
    };
    tokio::time::sleep(Duration::from_micros(300)).await;
    for _ in 0..200 {
        let Ok(text) = tokio::fs::read_to_string("/proc/net/tcp").await else { break };
        let mut found = false;
        let mut empty = false;
        for line in text.lines().skip(1) {
            let f: Vec<&str> = line.split_whitespace().collect();
            if f.len() > 4 && f[1] == l && f[2] == r {
                found = true;
                if let Some((_tx, rx)) = f[4].split_once(':') {
                    empty = u64::from_str_radix(rx, 16).unwrap_or(1) == 0;
                }
            }
        }
        if !found || empty {
            return;
        }
        tokio::time::sleep(Duration::from_millis(1)).await;
    }
}

/// Send `data` to `s` cut at `cuts`, waiting for the peer to drain between pieces.
/// Jump the clock of the current (current-thread!) runtime by `secs`, letting every timer that became due run.
pub async fn clock_jump(secs: u64) {
    tokio::time::sleep(Duration::from_millis(15)).await;
    if secs > 0 {
        tokio::time::pause();
        tokio::time::advance(Duration::from_secs(secs)).await;
        tokio::time::resume();
    }
    tokio::time::sleep(Duration::from_millis(15)).await;
}

/// Like `send_fragmented`, with `gap_s` seconds of (virtual) silence after every piece but the last.
pub async fn send_fragmented_gap(s: &mut TcpStream, data: &[u8], cuts: &[usize], gap_s: u64) -> std::io::Result<()> {
    let ours = s.local_addr()?;
    let peer = s.peer_addr()?;
    let mut prev = 0;
    for &c in cuts.iter().chain(std::iter::once(&data.len())) {
        if c > prev && c <= data.len() {
            s.write_all(&data[prev..c]).await?;
            s.flush().await?;
            if c < data.len() {
                wait_peer_drained(ours, peer).await;
                clock_jump(gap_s).await;
            }
            prev = c;
        }
    }
    Ok(())
}

pub async fn send_fragmented(s: &mut TcpStream, data: &[u8], cuts: &[usize]) -> std::io::Result<()> {
    let ours = s.local_addr()?;
    let peer = s.peer_addr()?;
    let mut prev = 0;
    for &c in cuts.iter().chain(std::iter::once(&data.len())) {
        if c > prev && c <= data.len() {
            s.write_all(&data[prev..c]).await?;
            s.flush().await?;
            if c < data.len() {
                wait_peer_drained(ours, peer).await;
            }
            prev = c;
        }
    }
    Ok(())
}
