//! Session construction helpers (the trusted mimicry of client.rs / server.rs
//! wiring, see DESIGN §5) and the scripted raw-frame peer.

use crate::refmodel::{RFrame, enc};
use crate::vpipe::{Pipe, PipeCfg, PipeReader, PipeWriter, pipe};
use anytls_rs::padding::PaddingFactory;
use anytls_rs::session::{Session, SessionHeartbeatConfig, Stream};
use anytls_rs::util::StringMap;
use std::sync::Arc;
use std::time::Duration;
use tokio::io::AsyncReadExt;
use tokio::sync::mpsc::UnboundedReceiver;

pub const STOP0: &str = "stop=0";
/// forces splits inside frame headers and padding-only records
pub const TINY: &str =
    "stop=6\n0=5-5\n1=1-1,3-3,c,8-8\n2=7-7\n3=6-6,c,9-9\n4=2-2,2-2,2-2,c,20-20\n5=40-40,c,11-11";
pub const DEFAULT: &str = anytls_rs::padding::DEFAULT_PADDING_SCHEME;
/// every packet line is "7-7,30-30,c,9-9": depending on the payload size a packet takes the
/// split-payload, payload+padding, padding-only and remaining-payload branches of the shaper
pub const BRANCHY: &str = "stop=40\n0=7-7\n1=7-7,30-30,c,9-9\n2=7-7,30-30,c,9-9\n3=7-7,30-30,c,9-9\n4=7-7,30-30,c,9-9\n5=7-7,30-30,c,9-9\n6=7-7,30-30,c,9-9\n7=7-7,30-30,c,9-9\n8=7-7,30-30,c,9-9\n9=7-7,30-30,c,9-9\n10=7-7,30-30,c,9-9\n11=7-7,30-30,c,9-9\n12=7-7,30-30,c,9-9\n13=7-7,30-30,c,9-9\n14=7-7,30-30,c,9-9\n15=7-7,30-30,c,9-9\n16=7-7,30-30,c,9-9";

pub const HORIZON: Duration = Duration::from_secs(3600);

pub fn padding(text: &str) -> Arc<PaddingFactory> {
    Arc::new(PaddingFactory::new(text.as_bytes()).expect("scheme must parse"))
}

/// Await `f` for at most the virtual horizon; None = "blocks forever".
pub async fn within<T>(f: impl std::future::Future<Output = T>) -> Option<T> {
    tokio::time::timeout(HORIZON, f).await.ok()
}

/// What client.rs:create_new_session does after authentication.
pub async fn start_client_session(
    r: PipeReader,
    w: PipeWriter,
    pad: Arc<PaddingFactory>,
    hb: Option<SessionHeartbeatConfig>,
    seq: u64,
) -> anytls_rs::Result<Arc<Session>> {
    let session = Arc::new(Session::new_client(r, w, pad, hb));
    session.set_seq(seq);
    session.clone().start_client().await?;
    Ok(session)
}

pub struct ServerSide {
    pub sess: Arc<Session>,
    pub streams: UnboundedReceiver<Arc<Stream>>,
    pub recv_task: tokio::task::JoinHandle<anytls_rs::Result<()>>,
    pub fwd_task: tokio::task::JoinHandle<anytls_rs::Result<()>>,
}

/// What server.rs:handle_connection does after authentication (the stream
/// handler is left to the caller, who receives accepted streams on `streams`).
pub fn start_server_session(
    r: PipeReader,
    w: PipeWriter,
    pad: Arc<PaddingFactory>,
    settings: Option<StringMap>,
) -> ServerSide {
    let (tx, rx) = tokio::sync::mpsc::unbounded_channel::<Arc<Stream>>();
    let mut session = Session::new_server(r, w, pad);
    session.set_server_settings(settings);
    session.set_stream_callback(tx);
    let session = Arc::new(session);
    let s1 = session.clone();
    let recv_task = tokio::spawn(async move { s1.recv_loop().await });
    let s2 = session.clone();
    let fwd_task = tokio::spawn(async move { s2.process_stream_data().await });
    ServerSide { sess: session, streams: rx, recv_task, fwd_task }
}

/// Scripted peer speaking raw frames to a real session.
pub struct RawPeer {
    /// peer -> session bytes are pushed here
    pub inj: Pipe,
    /// session -> peer pipe (write log lives here)
    pub out: Pipe,
    _w: Option<PipeWriter>,
    r: Option<PipeReader>,
    buf: Vec<u8>,
    pub seen: Vec<RFrame>,
    pub eof: bool,
}

pub struct PeerLink {
    pub sess_r: PipeReader,
    pub sess_w: PipeWriter,
    pub peer: RawPeer,
}

/// Build the two pipes between a session (under test) and a scripted peer.
/// `to_sess` configures the pipe the session reads from, `from_sess` the one it writes to.
pub fn peer_link(to_sess: PipeCfg, from_sess: PipeCfg) -> PeerLink {
    let (pw, sess_r, inj) = pipe(to_sess);
    let (sess_w, pr, out) = pipe(from_sess);
    PeerLink {
        sess_r,
        sess_w,
        peer: RawPeer { inj, out, _w: Some(pw), r: Some(pr), buf: vec![], seen: vec![], eof: false },
    }
}

impl RawPeer {
    pub fn send(&self, cmd: u8, id: u32, data: &[u8]) {
        self.inj.push(&enc(cmd, id, data));
    }
    pub fn send_raw(&self, bytes: &[u8]) {
        self.inj.push(bytes);
    }
    /// Close the peer's sending direction (session reads EOF after queued bytes).
    pub fn close_write(&mut self) {
        self.inj.close_write();
        self._w = None;
    }
    /// The peer vanishes: its reading end is dropped too (session writes fail).
    pub fn vanish(&mut self) {
        self.inj.close_write();
        self._w = None;
        self.r = None;
    }
    /// Next complete frame written by the session; None at EOF / after vanish.
    pub async fn next_frame(&mut self) -> Option<RFrame> {
        loop {
            if self.buf.len() >= 7 {
                let len = u16::from_be_bytes([self.buf[5], self.buf[6]]) as usize;
                if self.buf.len() >= 7 + len {
                    let f = RFrame {
                        cmd: self.buf[0],
                        id: u32::from_be_bytes([self.buf[1], self.buf[2], self.buf[3], self.buf[4]]),
                        data: self.buf[7..7 + len].to_vec(),
                    };
                    self.buf.drain(..7 + len);
                    self.seen.push(f.clone());
                    return Some(f);
                }
            }
            let r = self.r.as_mut()?;
            let mut tmp = [0u8; 16384];
            match r.read(&mut tmp).await {
                Ok(0) | Err(_) => {
                    self.eof = true;
                    return None;
                }
                Ok(n) => self.buf.extend_from_slice(&tmp[..n]),
            }
        }
    }
    /// One read of whatever the session has written so far (at most the pipe's capacity); false at EOF.
    pub async fn read_some(&mut self) -> bool {
        let Some(r) = self.r.as_mut() else { return false };
        let mut tmp = [0u8; 16384];
        match r.read(&mut tmp).await {
            Ok(0) | Err(_) => {
                self.eof = true;
                false
            }
            Ok(n) => {
                self.buf.extend_from_slice(&tmp[..n]);
                true
            }
        }
    }
    /// Read frames until `pred` matches (returns it) or EOF / virtual horizon (None).
    pub async fn wait_for(&mut self, pred: impl Fn(&RFrame) -> bool) -> Option<RFrame> {
        let fut = async {
            loop {
                match self.next_frame().await {
                    None => return None,
                    Some(f) => {
                        if pred(&f) {
                            return Some(f);
                        }
                    }
                }
            }
        };
        tokio::time::timeout(HORIZON, fut).await.ok().flatten()
    }
    /// Keep consuming whatever the session writes, forever (spawned as a sink).
    pub async fn sink(mut self) {
        while self.next_frame().await.is_some() {}
        // keep the write end alive so the session does not see EOF
        std::future::pending::<()>().await;
    }
}

/// settings payload of a v2 client
pub fn client_settings(md5: &str) -> Vec<u8> {
    format!("v=2\nclient=vcheck\npadding-md5={}", md5).into_bytes()
}

/// Position-, stream- and direction-dependent payload byte.
pub fn pat(stream_tag: u8, dir: u8, i: usize) -> u8 {
    let x = (i as u32).wrapping_mul(2654435761).wrapping_add((stream_tag as u32) << 8 | dir as u32);
    ((x >> 13) as u8) ^ stream_tag.wrapping_mul(31) ^ dir.wrapping_mul(7)
}

pub fn pat_vec(stream_tag: u8, dir: u8, from: usize, len: usize) -> Vec<u8> {
    (from..from + len).map(|i| pat(stream_tag, dir, i)).collect()
}

/// A real client session linked to a real server session over two vpipes.
pub struct Pair {
    pub client: Arc<Session>,
    pub server: Arc<Session>,
    pub accepted: UnboundedReceiver<Arc<Stream>>,
    /// client writes / server reads
    pub c2s: Pipe,
    /// server writes / client reads
    pub s2c: Pipe,
}

pub async fn linked_pair(
    c2s: PipeCfg,
    s2c: PipeCfg,
    client_scheme: &str,
    server_scheme: &str,
    hb: Option<SessionHeartbeatConfig>,
) -> anytls_rs::Result<Pair> {
    let (cw, sr, p1) = pipe(c2s);
    let (sw, cr, p2) = pipe(s2c);
    let side = start_server_session(sr, sw, padding(server_scheme), None);
    let client = start_client_session(cr, cw, padding(client_scheme), hb, 0).await?;
    Ok(Pair { client, server: side.sess, accepted: side.streams, c2s: p1, s2c: p2 })
}
