//! In-memory world for the real `Client` (H12 dialer seam): every dial of the client is answered with
//! one end of an in-memory duplex; the other end is served by a scripted TLS server task in the same
//! (deterministic, virtual-time) runtime. The client's real dial / TLS handshake / authentication /
//! session set-up / pool code runs without sockets, so DX can explore its interleavings.

use crate::refmodel::*;
use anytls_rs::client::{Client, SessionPoolConfig};
use anytls_rs::padding::PaddingFactory;
use std::rc::Rc;
use std::sync::{Arc, Mutex, OnceLock};
use std::time::Duration;
use tokio::io::{AsyncReadExt, AsyncWriteExt};
use tokio_rustls::rustls::pki_types::ServerName;

/// What the scripted server saw on one accepted connection, in arrival order.
#[derive(Clone, Debug, Default)]
pub struct ConnLog {
    pub preamble_ok: bool,
    /// padding length declared (and sent) in the authentication preamble
    pub preamble_pad: usize,
    pub frames: Vec<RFrame>,
    pub eof: bool,
}

#[derive(Clone, Copy, Debug, PartialEq)]
pub enum Answer {
    /// SYNACK (success) for the first data frame of every stream
    Ok,
    /// never answer opens
    Mute,
}

/// Requests to this port are answered with a failure verdict (the session itself stays healthy).
pub const REFUSED_PORT: u16 = 9;

pub struct CWorld {
    pub client: Arc<Client>,
    pub conns: Arc<Mutex<Vec<Arc<Mutex<ConnLog>>>>>,
    /// per connection: notify to make the server drop it (the client sees the transport end)
    pub kills: Arc<Mutex<Vec<Arc<tokio::sync::Notify>>>>,
    /// the next n dials are refused (connect error)
    pub refuse_dials: Arc<std::sync::atomic::AtomicUsize>,
    /// the next n dialled connections are dropped by the server before the TLS handshake
    pub drop_before_handshake: Arc<std::sync::atomic::AtomicUsize>,
    old: Option<anytls_rs::verif::Dialer>,
}

fn acceptor() -> tokio_rustls::TlsAcceptor {
    static A: OnceLock<tokio_rustls::TlsAcceptor> = OnceLock::new();
    A.get_or_init(|| tokio_rustls::TlsAcceptor::from(anytls_rs::util::tls::create_server_config().expect("server tls config"))).clone()
}

fn connector() -> Arc<tokio_rustls::TlsConnector> {
    static C: OnceLock<Arc<tokio_rustls::TlsConnector>> = OnceLock::new();
    C.get_or_init(|| Arc::new(tokio_rustls::TlsConnector::from(anytls_rs::util::tls::create_client_config().expect("client tls config")))).clone()
}

impl CWorld {
    /// Must be called on the thread that runs the scenario's (current-thread) runtime, inside it.
    pub fn start(padding: Arc<PaddingFactory>, pool: SessionPoolConfig, answer: Answer) -> CWorld {
        Self::start_pushing(padding, pool, answer, None)
    }

    /// `push`: the server's scheme text; it is pushed (UPDATE_PADDING_SCHEME) to every session whose settings frame
    /// announces another padding-md5, as a real server does.
    pub fn start_pushing(padding: Arc<PaddingFactory>, pool: SessionPoolConfig, answer: Answer, push: Option<String>) -> CWorld {
        let conns: Arc<Mutex<Vec<Arc<Mutex<ConnLog>>>>> = Arc::new(Mutex::new(vec![]));
        let kills: Arc<Mutex<Vec<Arc<tokio::sync::Notify>>>> = Arc::new(Mutex::new(vec![]));
        let c2 = conns.clone();
        let k2 = kills.clone();
        let refuse_dials = Arc::new(std::sync::atomic::AtomicUsize::new(0));
        let drop_before_handshake = Arc::new(std::sync::atomic::AtomicUsize::new(0));
        let (rd, dh) = (refuse_dials.clone(), drop_before_handshake.clone());
        let dialer: anytls_rs::verif::Dialer = Rc::new(move |_addr: &str| {
            use std::sync::atomic::Ordering::SeqCst;
            if rd.load(SeqCst) > 0 {
                rd.fetch_sub(1, SeqCst);
                return Some(Err(std::io::Error::new(std::io::ErrorKind::ConnectionRefused, "connection refused (scripted)")));
            }
            let (a, b) = tokio::io::duplex(1 << 20);
            if dh.load(SeqCst) > 0 {
                dh.fetch_sub(1, SeqCst);
                // accepted and dropped at once: the client's TLS handshake sees the end of the transport
                drop(b);
                let log = Arc::new(Mutex::new(ConnLog { eof: true, ..Default::default() }));
                c2.lock().unwrap().push(log);
                k2.lock().unwrap().push(Arc::new(tokio::sync::Notify::new()));
                return Some(Ok(Box::new(a) as Box<dyn anytls_rs::verif::VerifIo>));
            }
            let log = Arc::new(Mutex::new(ConnLog::default()));
            c2.lock().unwrap().push(log.clone());
            let kill = Arc::new(tokio::sync::Notify::new());
            k2.lock().unwrap().push(kill.clone());
            let push = push.clone();
            tokio::spawn(async move {
                tokio::select! {
                    biased;
                    _ = kill.notified() => {}
                    _ = serve(b, log, answer, push) => {}
                }
            });
            Some(Ok(Box::new(a) as Box<dyn anytls_rs::verif::VerifIo>))
        });
        let old = anytls_rs::verif::install_dialer(Some(dialer));
        let client = Arc::new(Client::with_pool_config("pw", "in-memory:1".to_string(), ServerName::try_from("localhost").unwrap(), connector(), padding, pool));
        CWorld { client, conns, kills, refuse_dials, drop_before_handshake, old }
    }

    /// The server drops connection `i` (abruptly, as seen from the client: end of the transport).
    pub fn kill(&self, i: usize) {
        if let Some(k) = self.kills.lock().unwrap().get(i) {
            k.notify_one();
        }
    }

    pub fn dials(&self) -> usize {
        self.conns.lock().unwrap().len()
    }

    pub fn logs(&self) -> Vec<ConnLog> {
        self.conns.lock().unwrap().iter().map(|c| c.lock().unwrap().clone()).collect()
    }
}

impl Drop for CWorld {
    fn drop(&mut self) {
        anytls_rs::verif::install_dialer(self.old.take());
    }
}

async fn serve(io: tokio::io::DuplexStream, log: Arc<Mutex<ConnLog>>, answer: Answer, push: Option<String>) {
    let Ok(mut s) = acceptor().accept(io).await else { return };
    let mut pre = [0u8; 34];
    if s.read_exact(&mut pre).await.is_err() {
        return;
    }
    let want = anytls_rs::util::hash_password("pw");
    let pad = u16::from_be_bytes([pre[32], pre[33]]) as usize;
    let mut skip = vec![0u8; pad];
    if s.read_exact(&mut skip).await.is_err() {
        return;
    }
    log.lock().unwrap().preamble_ok = pre[..32] == want[..];
    log.lock().unwrap().preamble_pad = pad;
    let mut buf: Vec<u8> = vec![];
    let mut tmp = vec![0u8; 65536];
    let mut answered: Vec<u32> = vec![];
    loop {
        let n = match s.read(&mut tmp).await {
            Ok(0) | Err(_) => {
                log.lock().unwrap().eof = true;
                return;
            }
            Ok(n) => n,
        };
        buf.extend_from_slice(&tmp[..n]);
        let (frames, left) = parse_all(&buf);
        let consumed = buf.len() - left;
        buf.drain(..consumed);
        for f in frames {
            if f.cmd != WASTE {
                log.lock().unwrap().frames.push(f.clone());
            }
            match f.cmd {
                SETTINGS => {
                    if let Some(text) = &push {
                        let announced = String::from_utf8_lossy(&f.data).lines().find_map(|l| l.strip_prefix("padding-md5=").map(|x| x.trim().to_string()));
                        let mine = format!("{:x}", md5::compute(text.as_bytes()));
                        if announced.as_deref() != Some(mine.as_str()) {
                            let _ = s.write_all(&enc(UPDATE_PADDING, 0, text.as_bytes())).await;
                        }
                    }
                    let _ = s.write_all(&enc(SERVER_SETTINGS, 0, b"v=2")).await;
                }
                PSH if !answered.contains(&f.id) => {
                    answered.push(f.id);
                    if answer == Answer::Ok {
                        // destinations with port 9 are "refused by the target": the verdict carries a reason
                        let refused = f.data.len() >= 2 && f.data[f.data.len() - 2..] == REFUSED_PORT.to_be_bytes();
                        let reason: &[u8] = if refused { b"connect to target failed: connection refused" } else { b"" };
                        let _ = s.write_all(&enc(SYNACK, f.id, reason)).await;
                    }
                }
                HEART_REQ => {
                    let _ = s.write_all(&enc(HEART_RESP, f.id, b"")).await;
                }
                _ => {}
            }
            let _ = s.flush().await;
        }
    }
}

pub fn pool(check_ms: u64, idle_ms: u64, min_idle: usize) -> SessionPoolConfig {
    SessionPoolConfig { check_interval: Duration::from_millis(check_ms), idle_timeout: Duration::from_millis(idle_ms), min_idle_sessions: min_idle }
}

pub fn quiet_pool(min_idle: usize) -> SessionPoolConfig {
    SessionPoolConfig { check_interval: Duration::from_secs(36000), idle_timeout: Duration::from_secs(36000), min_idle_sessions: min_idle }
}
