//! In-memory world for the real `Client` (H12 dialer seam): every dial of the client is answered with
//! one end of an in-memory duplex; the other end is served by a scripted TLS server task in the same
//! (deterministic, virtual-time) runtime. The client's real dial / TLS handshake / authentication /
//! session set-up / pool code runs without sockets, so DX can explore its interleavings.

use crate::refmodel::*;
use anytls_rs::client::{Client, SessionPoolConfig};
use anytls_rs::padding::PaddingFactory;
use std::rc::Rc;
use std::sync::{Arc, Mutex, OnceLock};
use std::time::Duration;
use tokio::io::{AsyncReadExt, AsyncWriteExt};
use tokio_rustls::rustls::pki_types::ServerName;

/// What the scripted server saw on one accepted connection, in arrival order.
#[derive(Clone, Debug, Default)]
pub struct ConnLog {
    pub preamble_ok: bool,
    /// padding length declared (and sent) in the authentication preamble
    pub preamble_pad: usize,
    pub frames: Vec<RFrame>,
    pub eof: bool,
}

#[derive(Clone, Copy, Debug, PartialEq)]
pub enum Answer {
    /// SYNACK (success) for the first data frame of every stream
    Ok,
    /// never answer opens
    Mute,
    /// SYNACK, then every later data frame of a stream is sent back on it (an echoing origin)
    Echo,
    /// SYNACK; then the server stops reading for 600 ms (the client's transport congests) and meanwhile, at 100 / 150 /
    /// 200 ms, sends three data frames on the stream; then it reads (and logs) everything
    SlowTalker,
}

/// A dialled in-memory transport whose writes can be made to fail from a given call on (a broken connection).
pub struct FaultIo {
    inner: tokio::io::DuplexStream,
    calls: Arc<std::sync::atomic::AtomicUsize>,
    fail_from: Arc<std::sync::atomic::AtomicUsize>,
}

impl tokio::io::AsyncRead for FaultIo {
    fn poll_read(mut self: std::pin::Pin<&mut Self>, cx: &mut std::task::Context<'_>, buf: &mut tokio::io::ReadBuf<'_>) -> std::task::Poll<std::io::Result<()>> {
        std::pin::Pin::new(&mut self.inner).poll_read(cx, buf)
    }
}

impl tokio::io::AsyncWrite for FaultIo {
    fn poll_write(mut self: std::pin::Pin<&mut Self>, cx: &mut std::task::Context<'_>, buf: &[u8]) -> std::task::Poll<std::io::Result<usize>> {
        use std::sync::atomic::Ordering::SeqCst;
        if self.calls.load(SeqCst) >= self.fail_from.load(SeqCst) {
            return std::task::Poll::Ready(Err(std::io::Error::new(std::io::ErrorKind::BrokenPipe, "broken pipe (scripted)")));
        }
        let r = std::pin::Pin::new(&mut self.inner).poll_write(cx, buf);
        if r.is_ready() {
            self.calls.fetch_add(1, SeqCst);
        }
        r
    }
    fn poll_flush(mut self: std::pin::Pin<&mut Self>, cx: &mut std::task::Context<'_>) -> std::task::Poll<std::io::Result<()>> {
        std::pin::Pin::new(&mut self.inner).poll_flush(cx)
    }
    fn poll_shutdown(mut self: std::pin::Pin<&mut Self>, cx: &mut std::task::Context<'_>) -> std::task::Poll<std::io::Result<()>> {
        std::pin::Pin::new(&mut self.inner).poll_shutdown(cx)
    }
}

/// Requests to this port are answered with a failure verdict (the session itself stays healthy).
pub const REFUSED_PORT: u16 = 9;

pub struct CWorld {
    pub client: Arc<Client>,
    pub conns: Arc<Mutex<Vec<Arc<Mutex<ConnLog>>>>>,
    /// per connection: notify to make the server drop it (the client sees the transport end)
    pub kills: Arc<Mutex<Vec<Arc<tokio::sync::Notify>>>>,
    /// the next n dials are refused (connect error)
    pub refuse_dials: Arc<std::sync::atomic::AtomicUsize>,
    /// the next n dialled connections are dropped by the server before the TLS handshake
    pub drop_before_handshake: Arc<std::sync::atomic::AtomicUsize>,
    /// transport write calls of the client (all connections together) from this index on fail (usize::MAX: never)
    pub fail_writes_from: Arc<std::sync::atomic::AtomicUsize>,
    pub write_calls: Arc<std::sync::atomic::AtomicUsize>,
    /// the server starts its side of a new connection (TLS accept) this many milliseconds after the dial
    pub accept_delay_ms: Arc<std::sync::atomic::AtomicU64>,
    old: Option<anytls_rs::verif::Dialer>,
}

fn acceptor() -> tokio_rustls::TlsAcceptor {
    static A: OnceLock<tokio_rustls::TlsAcceptor> = OnceLock::new();
    A.get_or_init(|| tokio_rustls::TlsAcceptor::from(anytls_rs::util::tls::create_server_config().expect("server tls config"))).clone()
}

fn connector() -> Arc<tokio_rustls::TlsConnector> {
    static C: OnceLock<Arc<tokio_rustls::TlsConnector>> = OnceLock::new();
    C.get_or_init(|| Arc::new(tokio_rustls::TlsConnector::from(anytls_rs::util::tls::create_client_config().expect("client tls config")))).clone()
}

impl CWorld {
    /// Must be called on the thread that runs the scenario's (current-thread) runtime, inside it.
    pub fn start(padding: Arc<PaddingFactory>, pool: SessionPoolConfig, answer: Answer) -> CWorld {
        Self::start_pushing(padding, pool, answer, None)
    }

    /// `push`: the server's scheme text; it is pushed (UPDATE_PADDING_SCHEME) to every session whose settings frame
    /// announces another padding-md5, as a real server does.
    pub fn start_pushing(padding: Arc<PaddingFactory>, pool: SessionPoolConfig, answer: Answer, push: Option<String>) -> CWorld {
        let conns: Arc<Mutex<Vec<Arc<Mutex<ConnLog>>>>> = Arc::new(Mutex::new(vec![]));
        let kills: Arc<Mutex<Vec<Arc<tokio::sync::Notify>>>> = Arc::new(Mutex::new(vec![]));
        let c2 = conns.clone();
        let k2 = kills.clone();
        let refuse_dials = Arc::new(std::sync::atomic::AtomicUsize::new(0));
        let drop_before_handshake = Arc::new(std::sync::atomic::AtomicUsize::new(0));
        let (rd, dh) = (refuse_dials.clone(), drop_before_handshake.clone());
        let fail_writes_from = Arc::new(std::sync::atomic::AtomicUsize::new(usize::MAX));
        let write_calls = Arc::new(std::sync::atomic::AtomicUsize::new(0));
        let (fw, wc) = (fail_writes_from.clone(), write_calls.clone());
        let accept_delay_ms = Arc::new(std::sync::atomic::AtomicU64::new(0));
        let ad = accept_delay_ms.clone();
        let dialer: anytls_rs::verif::Dialer = Rc::new(move |_addr: &str| {
            use std::sync::atomic::Ordering::SeqCst;
            if rd.load(SeqCst) > 0 {
                rd.fetch_sub(1, SeqCst);
                return Some(Err(std::io::Error::new(std::io::ErrorKind::ConnectionRefused, "connection refused (scripted)")));
            }
            let (a, b) = tokio::io::duplex(if answer == Answer::SlowTalker { 16 << 10 } else { 1 << 20 });
            if dh.load(SeqCst) > 0 {
                dh.fetch_sub(1, SeqCst);
                // accepted and dropped 2 ms later: the client's TLS handshake sees the end of the transport
                tokio::spawn(async move {
                    tokio::time::sleep(Duration::from_millis(2)).await;
                    drop(b);
                });
                let log = Arc::new(Mutex::new(ConnLog { eof: true, ..Default::default() }));
                c2.lock().unwrap().push(log);
                k2.lock().unwrap().push(Arc::new(tokio::sync::Notify::new()));
                return Some(Ok(Box::new(a) as Box<dyn anytls_rs::verif::VerifIo>));
            }
            let log = Arc::new(Mutex::new(ConnLog::default()));
            c2.lock().unwrap().push(log.clone());
            let kill = Arc::new(tokio::sync::Notify::new());
            k2.lock().unwrap().push(kill.clone());
            let push = push.clone();
            let delay = ad.load(std::sync::atomic::Ordering::SeqCst);
            tokio::spawn(async move {
                if delay > 0 {
                    tokio::time::sleep(Duration::from_millis(delay)).await;
                }
                tokio::select! {
                    biased;
                    _ = kill.notified() => {}
                    _ = serve(b, log, answer, push) => {}
                }
            });
            Some(Ok(Box::new(FaultIo { inner: a, calls: wc.clone(), fail_from: fw.clone() }) as Box<dyn anytls_rs::verif::VerifIo>))
        });
        let old = anytls_rs::verif::install_dialer(Some(dialer));
        let client = Arc::new(Client::with_pool_config("pw", "in-memory:1".to_string(), ServerName::try_from("localhost").unwrap(), connector(), padding, pool));
        CWorld { client, conns, kills, refuse_dials, drop_before_handshake, fail_writes_from, write_calls, accept_delay_ms, old }
    }

    /// The server drops connection `i` (abruptly, as seen from the client: end of the transport).
    pub fn kill(&self, i: usize) {
        if let Some(k) = self.kills.lock().unwrap().get(i) {
            k.notify_one();
        }
    }

    pub fn dials(&self) -> usize {
        self.conns.lock().unwrap().len()
    }

    pub fn logs(&self) -> Vec<ConnLog> {
        self.conns.lock().unwrap().iter().map(|c| c.lock().unwrap().clone()).collect()
    }
}

impl Drop for CWorld {
    fn drop(&mut self) {
        anytls_rs::verif::install_dialer(self.old.take());
    }
}

async fn serve(io: tokio::io::DuplexStream, log: Arc<Mutex<ConnLog>>, answer: Answer, push: Option<String>) {
    let Ok(mut s) = acceptor().accept(io).await else { return };
    let mut pre = [0u8; 34];
    if s.read_exact(&mut pre).await.is_err() {
        return;
    }
    let want = anytls_rs::util::hash_password("pw");
    let pad = u16::from_be_bytes([pre[32], pre[33]]) as usize;
    let mut skip = vec![0u8; pad];
    if s.read_exact(&mut skip).await.is_err() {
        return;
    }
    log.lock().unwrap().preamble_ok = pre[..32] == want[..];
    log.lock().unwrap().preamble_pad = pad;
    let mut buf: Vec<u8> = vec![];
    let mut tmp = vec![0u8; 65536];
    let mut answered: Vec<u32> = vec![];
    loop {
        let n = match s.read(&mut tmp).await {
            Ok(0) | Err(_) => {
                log.lock().unwrap().eof = true;
                return;
            }
            Ok(n) => n,
        };
        buf.extend_from_slice(&tmp[..n]);
        let (frames, left) = parse_all(&buf);
        let consumed = buf.len() - left;
        buf.drain(..consumed);
        for f in frames {
            if f.cmd != WASTE {
                log.lock().unwrap().frames.push(f.clone());
            }
            match f.cmd {
                SETTINGS => {
                    if let Some(text) = &push {
                        let announced = String::from_utf8_lossy(&f.data).lines().find_map(|l| l.strip_prefix("padding-md5=").map(|x| x.trim().to_string()));
                        let mine = format!("{:x}", md5::compute(text.as_bytes()));
                        if announced.as_deref() != Some(mine.as_str()) {
                            let _ = s.write_all(&enc(UPDATE_PADDING, 0, text.as_bytes())).await;
                        }
                    }
                    let _ = s.write_all(&enc(SERVER_SETTINGS, 0, b"v=2")).await;
                }
                PSH if !answered.contains(&f.id) => {
                    answered.push(f.id);
                    if answer == Answer::SlowTalker {
                        let _ = s.write_all(&enc(SYNACK, f.id, b"")).await;
                        let _ = s.flush().await;
                        for k in 0..3u8 {
                            tokio::time::sleep(Duration::from_millis(if k == 0 { 100 } else { 50 })).await;
                            let _ = s.write_all(&enc(PSH, f.id, &[b'T'; 600])).await;
                            let _ = s.flush().await;
                        }
                        tokio::time::sleep(Duration::from_millis(400)).await;
                    }
                    if answer == Answer::Ok || answer == Answer::Echo {
                        // destinations with port 9 are "refused by the target": the verdict carries a reason
                        let refused = f.data.len() >= 2 && f.data[f.data.len() - 2..] == REFUSED_PORT.to_be_bytes();
                        let reason: &[u8] = if refused { b"connect to target failed: connection refused" } else { b"" };
                        let _ = s.write_all(&enc(SYNACK, f.id, reason)).await;
                    }
                }
                PSH if answer == Answer::Echo => {
                    let _ = s.write_all(&enc(PSH, f.id, &f.data)).await;
                }
                HEART_REQ => {
                    let _ = s.write_all(&enc(HEART_RESP, f.id, b"")).await;
                }
                _ => {}
            }
            let _ = s.flush().await;
        }
    }
}

pub fn pool(check_ms: u64, idle_ms: u64, min_idle: usize) -> SessionPoolConfig {
    SessionPoolConfig { check_interval: Duration::from_millis(check_ms), idle_timeout: Duration::from_millis(idle_ms), min_idle_sessions: min_idle }
}

pub fn quiet_pool(min_idle: usize) -> SessionPoolConfig {
    SessionPoolConfig { check_interval: Duration::from_secs(36000), idle_timeout: Duration::from_secs(36000), min_idle_sessions: min_idle }
}


/// Front-end under upstream FAULTS: the real SOCKS5 / HTTP front-end on a loopback listener, the real Client over the
/// in-memory dialer seam, an echoing scripted origin — and the client's transport broken from write call #k on, for
/// every k (the fault lands in the TLS handshake, the authentication, the first flush, the early bytes, the relay...).
/// Whatever the failure point, the local application receives either a failure answer alone, or a success answer
/// followed ONLY by bytes the origin sent (a prefix of the echo) — never a second answer or an error text inside an
/// established tunnel / behind response bytes.
pub fn front_end_fault_pass(rep: &mut crate::report::Report, prop: &str, front: &'static str, mode: &'static str) {
    use tokio::net::TcpStream;
    let rt = tokio::runtime::Builder::new_current_thread().enable_all().build().unwrap();
    let early: &[u8] = b"EARLY-0123456789-early-bytes";
    let res: Vec<(String, Option<(String, String)>)> = rt.block_on(async {
        let mut out = vec![];
        let mut total_calls = usize::MAX;
        let mut k = 0usize;
        while k <= total_calls.min(60) {
            let fail_from = if k == total_calls.min(60) { usize::MAX } else { k };
            let name = format!("{front} {mode}: client transport broken from write call #{}", if fail_from == usize::MAX { "never (control)".to_string() } else { fail_from.to_string() });
            let w = CWorld::start(crate::sess::padding(crate::sess::STOP0), quiet_pool(1), Answer::Echo);
            w.fail_writes_from.store(fail_from, std::sync::atomic::Ordering::SeqCst);
            let Ok(probe) = std::net::TcpListener::bind("127.0.0.1:0") else { break };
            let addr = probe.local_addr().unwrap();
            drop(probe);
            let c = w.client.clone();
            let server = tokio::spawn(async move {
                if front == "socks5" {
                    let _ = anytls_rs::client::start_socks5_server(&addr.to_string(), c).await;
                } else {
                    let _ = anytls_rs::client::start_http_proxy_server(&addr.to_string(), c).await;
                }
            });
            tokio::time::sleep(Duration::from_millis(20)).await;
            let verdict: Option<(String, String)> = async {
                let Ok(mut s) = TcpStream::connect(addr).await else { return Some(("harness".to_string(), "cannot connect to the front-end".to_string())) };
                let _ = s.set_nodelay(true);
                let mut got: Vec<u8> = vec![];
                let mut tmp = [0u8; 4096];
                if front == "socks5" {
                    let _ = s.write_all(&[5, 1, 0]).await;
                    let mut m = [0u8; 2];
                    if tokio::time::timeout(Duration::from_secs(3), s.read_exact(&mut m)).await.map(|r| r.is_err()).unwrap_or(true) || m != [5, 0] {
                        return Some(("harness".to_string(), format!("method reply {:?}", m)));
                    }
                    let mut req = vec![5u8, 1, 0, 3, 11];
                    req.extend_from_slice(b"example.com");
                    req.extend_from_slice(&80u16.to_be_bytes());
                    req.extend_from_slice(early);
                    let _ = s.write_all(&req).await;
                } else if mode == "CONNECT" {
                    let mut req = b"CONNECT example.com:80 HTTP/1.1\r\nHost: example.com:80\r\n\r\n".to_vec();
                    req.extend_from_slice(early);
                    let _ = s.write_all(&req).await;
                } else {
                    let mut req = b"POST http://example.com/x HTTP/1.1\r\nHost: example.com\r\nContent-Length: 28\r\n\r\n".to_vec();
                    req.extend_from_slice(early);
                    let _ = s.write_all(&req).await;
                }
                // everything the application receives until the connection ends or stays quiet for 600 ms
                loop {
                    match tokio::time::timeout(Duration::from_millis(300), s.read(&mut tmp)).await {
                        Ok(Ok(0)) | Ok(Err(_)) | Err(_) => break,
                        Ok(Ok(n)) => got.extend_from_slice(&tmp[..n]),
                    }
                }
                let text = String::from_utf8_lossy(&got).to_string();
                if front == "socks5" {
                    if got.is_empty() {
                        return None; // closed without a reply: a failure
                    }
                    if got.len() < 10 || got[0] != 5 {
                        return Some(("malformed-reply".to_string(), format!("reply bytes {:02x?}", &got[..got.len().min(16)])));
                    }
                    let rest = &got[10..];
                    if got[1] == 0 {
                        if !early.starts_with(rest) {
                            return Some(("bytes-the-target-never-sent".to_string(), format!("after the success reply the application received {:?}; the target only echoes {:?}", String::from_utf8_lossy(rest), String::from_utf8_lossy(early))));
                        }
                    } else if !rest.is_empty() {
                        return Some(("more-than-one-reply".to_string(), format!("after the failure reply {:02x?} the application received {} more bytes: {:02x?}", &got[..10], rest.len(), &rest[..rest.len().min(16)])));
                    }
                    None
                } else if mode == "CONNECT" {
                    let Some(pos) = text.find("\r\n\r\n") else {
                        return if got.is_empty() { None } else { Some(("malformed-reply".to_string(), format!("{:?}", text))) };
                    };
                    let (head, rest) = (&text[..pos], &got[pos + 4..]);
                    if head.starts_with("HTTP/1.1 200") {
                        if !early.starts_with(rest) {
                            return Some(("bytes-the-origin-never-sent".to_string(), format!("after '200' the application received {:?} inside the tunnel; the origin only echoes {:?}", String::from_utf8_lossy(rest), String::from_utf8_lossy(early))));
                        }
                    } else if String::from_utf8_lossy(rest).contains("HTTP/1.") {
                        return Some(("more-than-one-reply".to_string(), format!("{:?}", text)));
                    }
                    None
                } else {
                    // forwarded request: the origin echoes the forwarded request; an error answer is only possible
                    // before any response byte
                    if text.starts_with("POST ") && (text.contains("HTTP/1.1 5") || text.contains("Bad Gateway")) {
                        return Some(("bytes-the-origin-never-sent".to_string(), format!("an error text follows response bytes: {:?}", crate::report::truncate(&text, 300))));
                    }
                    if text.starts_with("HTTP/1.1 5") && text.contains("POST ") {
                        return Some(("more-than-one-reply".to_string(), format!("response bytes follow an error answer: {:?}", crate::report::truncate(&text, 300))));
                    }
                    None
                }
            }
            .await;
            if fail_from == usize::MAX {
                // the control run tells how many transport write calls a whole exchange takes
                if total_calls == usize::MAX {
                    total_calls = w.write_calls.load(std::sync::atomic::Ordering::SeqCst);
                }
            }
            server.abort();
            w.client.stop_session_pool_cleanup().await;
            drop(w);
            out.push((name, verdict));
            if total_calls == usize::MAX {
                // first iteration is the control run (k = 0 with no fault): restart the sweep
                out.pop();
                let w2 = CWorld::start(crate::sess::padding(crate::sess::STOP0), quiet_pool(1), Answer::Echo);
                drop(w2);
                total_calls = 0;
                // measure with a faultless run
                let w = CWorld::start(crate::sess::padding(crate::sess::STOP0), quiet_pool(1), Answer::Echo);
                let Ok(probe) = std::net::TcpListener::bind("127.0.0.1:0") else { break };
                let addr = probe.local_addr().unwrap();
                drop(probe);
                let c = w.client.clone();
                let server = tokio::spawn(async move {
                    if front == "socks5" {
                        let _ = anytls_rs::client::start_socks5_server(&addr.to_string(), c).await;
                    } else {
                        let _ = anytls_rs::client::start_http_proxy_server(&addr.to_string(), c).await;
                    }
                });
                tokio::time::sleep(Duration::from_millis(20)).await;
                if let Ok(mut s) = TcpStream::connect(addr).await {
                    if front == "socks5" {
                        let _ = s.write_all(&[5, 1, 0]).await;
                        let mut m = [0u8; 2];
                        let _ = tokio::time::timeout(Duration::from_secs(3), s.read_exact(&mut m)).await;
                        let mut req = vec![5u8, 1, 0, 3, 11];
                        req.extend_from_slice(b"example.com");
                        req.extend_from_slice(&80u16.to_be_bytes());
                        req.extend_from_slice(early);
                        let _ = s.write_all(&req).await;
                    } else if mode == "CONNECT" {
                        let mut req = b"CONNECT example.com:80 HTTP/1.1\r\nHost: example.com:80\r\n\r\n".to_vec();
                        req.extend_from_slice(early);
                        let _ = s.write_all(&req).await;
                    } else {
                        let mut req = b"POST http://example.com/x HTTP/1.1\r\nHost: example.com\r\nContent-Length: 28\r\n\r\n".to_vec();
                        req.extend_from_slice(early);
                        let _ = s.write_all(&req).await;
                    }
                    let mut tmp = [0u8; 4096];
                    loop {
                        match tokio::time::timeout(Duration::from_millis(300), s.read(&mut tmp)).await {
                            Ok(Ok(0)) | Ok(Err(_)) | Err(_) => break,
                            Ok(Ok(_)) => {}
                        }
                    }
                }
                total_calls = w.write_calls.load(std::sync::atomic::Ordering::SeqCst) + 2;
                server.abort();
                w.client.stop_session_pool_cleanup().await;
                drop(w);
                k = 0;
                continue;
            }
            k += 1;
        }
        out
    });
    let mut n = 0;
    for (name, v) in res {
        n += 1;
        rep.case(Some(&name));
        if let Some((clause, detail)) = v {
            if clause == "harness" {
                rep.machinery(format!("{name}: {detail}"));
            } else {
                rep.violation(&format!("{prop}:upstream-fault:{clause}"), &format!("{name}: {detail}"), serde_json::json!({"engine": "LX-fault", "case": name}));
            }
        }
    }
    if n < 5 {
        rep.machinery(format!("front-end fault pass ({front} {mode}) ran only {n} cases"));
    }
}


/// A local application that ENDS ABRUPTLY, on the real SOCKS5 / HTTP CONNECT front-end over the in-memory seam: of two
/// applications sharing a session, one RESETS its connection (SO_LINGER 0): the other's tunnel keeps working.
/// (A first version also demanded that 200 000 bytes sent before a full close reach a congested target while the target
/// talks: the front-end's write to the closed application draws a RST, and the kernel then discards what the front-end
/// has not read yet — the unchanged HTTP front-end "lost" 73 024 bytes that way. That loss is TCP's, not the proxy's;
/// the case was removed, see DESIGN 0.4.)
pub fn front_end_app_abort_pass(rep: &mut crate::report::Report, front: &'static str, key_sibling: &str) {
    use tokio::net::TcpStream;
    async fn open(front: &str, addr: std::net::SocketAddr) -> Option<TcpStream> {
        let mut s = TcpStream::connect(addr).await.ok()?;
        let _ = s.set_nodelay(true);
        if front == "socks5" {
            s.write_all(&[5, 1, 0]).await.ok()?;
            let mut m = [0u8; 2];
            tokio::time::timeout(Duration::from_secs(3), s.read_exact(&mut m)).await.ok()?.ok()?;
            let mut req = vec![5u8, 1, 0, 3, 11];
            req.extend_from_slice(b"example.com");
            req.extend_from_slice(&80u16.to_be_bytes());
            s.write_all(&req).await.ok()?;
            let mut r = [0u8; 10];
            tokio::time::timeout(Duration::from_secs(5), s.read_exact(&mut r)).await.ok()?.ok()?;
            if r[1] != 0 {
                return None;
            }
        } else {
            s.write_all(b"CONNECT example.com:80 HTTP/1.1\r\nHost: example.com:80\r\n\r\n").await.ok()?;
            let mut acc = vec![];
            let mut b = [0u8; 1];
            while !acc.ends_with(b"\r\n\r\n") {
                tokio::time::timeout(Duration::from_secs(5), s.read_exact(&mut b)).await.ok()?.ok()?;
                acc.push(b[0]);
            }
            if !acc.starts_with(b"HTTP/1.1 200") {
                return None;
            }
        }
        Some(s)
    }
    let rt = tokio::runtime::Builder::new_current_thread().enable_all().build().unwrap();
    let start = |answer: Answer| {
        let w = CWorld::start(crate::sess::padding(crate::sess::STOP0), quiet_pool(1), answer);
        let probe = std::net::TcpListener::bind("127.0.0.1:0").expect("bind");
        let addr = probe.local_addr().unwrap();
        drop(probe);
        let c = w.client.clone();
        let server = tokio::spawn(async move {
            if front == "socks5" {
                let _ = anytls_rs::client::start_socks5_server(&addr.to_string(), c).await;
            } else {
                let _ = anytls_rs::client::start_http_proxy_server(&addr.to_string(), c).await;
            }
        });
        (w, addr, server)
    };
    let res: Vec<(String, Option<(String, String)>)> = rt.block_on(async {
        let mut out = vec![];
        // (2) one of two applications resets its connection
        {
            let name = format!("{front}: two applications share a session, one resets its connection (SO_LINGER 0)");
            let (w, addr, server) = start(Answer::Echo);
            tokio::time::sleep(Duration::from_millis(20)).await;
            let a = open(front, addr).await;
            let b = open(front, addr).await;
            let v = match (a, b) {
                (Some(mut a), Some(mut b)) => {
                    let _ = b.write_all(b"from-b").await;
                    let mut e = [0u8; 6];
                    let _ = tokio::time::timeout(Duration::from_secs(2), b.read_exact(&mut e)).await;
                    let _ = b.set_linger(Some(Duration::ZERO));
                    drop(b);
                    tokio::time::sleep(Duration::from_millis(150)).await;
                    let _ = a.write_all(b"a-after-b-reset").await;
                    let mut back = [0u8; 15];
                    match tokio::time::timeout(Duration::from_secs(3), a.read_exact(&mut back)).await {
                        Ok(Ok(_)) if &back == b"a-after-b-reset" => None,
                        other => {
                            let what = match other {
                                Err(_) => "nothing came back within 3 s".to_string(),
                                Ok(Err(e)) => format!("read error: {e}"),
                                Ok(Ok(_)) => format!("wrong bytes: {:?}", String::from_utf8_lossy(&back)),
                            };
                            Some((key_sibling.to_string(), format!("after application B reset its connection, application A's tunnel (same client, {} dialled connection(s)) no longer echoes: {what}", w.dials())))
                        }
                    }
                }
                _ => Some(("harness".to_string(), "tunnels could not be opened".to_string())),
            };
            server.abort();
            w.client.stop_session_pool_cleanup().await;
            drop(w);
            out.push((name, v));
        }
        out
    });
    for (name, v) in res {
        rep.case(Some(&name));
        if let Some((k, d)) = v {
            if k == "harness" {
                rep.machinery(format!("{name}: {d}"));
            } else {
                rep.violation(&k, &format!("{name}: {d}"), serde_json::json!({"engine": "LX-abort", "case": name}));
            }
        }
    }
}
