//! Evidence writer, known-findings reader, violation/replay output.

use crate::ctl::{ExploreStats, FoundViolation};
use serde_json::{Value, json};
use std::collections::{BTreeMap, BTreeSet};
use std::time::Instant;

/// set as soon as a VIOLATION line has been printed (see main.rs)
pub static VIOLATION_PRINTED: std::sync::atomic::AtomicBool = std::sync::atomic::AtomicBool::new(false);

pub fn verif_dir() -> String {
    std::env::var("VERIF_OUT").unwrap_or_else(|_| "/verif".to_string())
}

#[derive(Clone, Copy, PartialEq, Eq, Debug)]
pub enum Tier {
    Quick,
    Thorough,
}

impl Tier {
    pub fn name(&self) -> &'static str {
        match self {
            Tier::Quick => "quick",
            Tier::Thorough => "thorough",
        }
    }
    pub fn is_thorough(&self) -> bool {
        *self == Tier::Thorough
    }
}

pub struct Report {
    pub id: String,
    pub tier: Tier,
    pub seed: i64,
    pub level: &'static str,
    start: Instant,
    known_open: BTreeMap<String, String>, // key -> what
    known_hit: BTreeMap<String, (u64, String)>,
    new_violations: Vec<(String, String, String)>, // key, detail, replay path
    new_keys: BTreeSet<String>,
    pub coverage: serde_json::Map<String, Value>,
    pub assumptions: Vec<String>,
    pub samples: Vec<Value>,
    pub evaluations: u64,
    pub nontrivial: BTreeSet<u64>,
    pub dx: ExploreStats,
    pub dx_used: bool,
    pub states: u64,
    pub transitions: u64,
    pub traces_validated: u64,
    pub exhaustive: bool,
    pub caps: Vec<String>,
    pub sections: serde_json::Map<String, Value>,
    pub machinery_errors: Vec<String>,
    pub observations: Vec<String>,
}

fn load_known(id: &str) -> BTreeMap<String, String> {
    let mut m = BTreeMap::new();
    let path = format!("{}/KNOWN_FINDINGS.json", verif_dir());
    let Ok(text) = std::fs::read_to_string(&path) else { return m };
    let v: Value = match serde_json::from_str(&text) {
        Ok(v) => v,
        Err(e) => {
            eprintln!("MACHINERY: cannot parse {}: {}", path, e);
            std::process::exit(2);
        }
    };
    if let Some(arr) = v.get("findings").and_then(|f| f.as_array()) {
        for f in arr {
            if f.get("status").and_then(|s| s.as_str()) == Some("open")
                && f.get("property").and_then(|s| s.as_str()) == Some(id)
                && let Some(k) = f.get("key").and_then(|s| s.as_str())
            {
                m.insert(
                    k.to_string(),
                    f.get("what").and_then(|s| s.as_str()).unwrap_or("").to_string(),
                );
            }
        }
    }
    m
}

fn fnv(s: &str) -> u64 {
    let mut x = 0xcbf2_9ce4_8422_2325u64;
    for b in s.as_bytes() {
        x = (x ^ *b as u64).wrapping_mul(0x0000_0100_0000_01B3);
    }
    x
}

impl Report {
    pub fn new(id: &str, tier: Tier, level: &'static str) -> Self {
        let seed = std::env::var("VERIF_SEED").ok().and_then(|s| s.parse().ok()).unwrap_or(0);
        Report {
            id: id.to_string(),
            tier,
            seed,
            level,
            start: Instant::now(),
            known_open: load_known(id),
            known_hit: BTreeMap::new(),
            new_violations: vec![],
            new_keys: BTreeSet::new(),
            coverage: serde_json::Map::new(),
            assumptions: vec![],
            samples: vec![],
            evaluations: 0,
            nontrivial: BTreeSet::new(),
            dx: ExploreStats::default(),
            dx_used: false,
            states: 0,
            transitions: 0,
            traces_validated: 0,
            exhaustive: true,
            caps: vec![],
            sections: serde_json::Map::new(),
            machinery_errors: vec![],
            observations: vec![],
        }
    }

    pub fn is_known(&self, key: &str) -> bool {
        self.known_open.contains_key(key)
    }

    pub fn known_fn(&self) -> std::sync::Arc<dyn Fn(&str) -> bool + Send + Sync> {
        let keys: BTreeSet<String> = self.known_open.keys().cloned().collect();
        std::sync::Arc::new(move |k| keys.contains(k))
    }

    /// Count one evaluated case; `nontrivial_key` (if any) identifies it among distinct non-trivial cases.
    pub fn case(&mut self, nontrivial_key: Option<&str>) {
        self.evaluations += 1;
        if let Some(k) = nontrivial_key {
            self.nontrivial.insert(fnv(k));
        }
    }

    pub fn sample(&mut self, v: Value) {
        if self.samples.len() < 12 {
            self.samples.push(v);
        }
    }

    pub fn elapsed(&self) -> f64 {
        self.start.elapsed().as_secs_f64()
    }

    /// Report a violation found by a non-DX engine (or forwarded from DX).
    pub fn violation(&mut self, key: &str, detail: &str, replay: Value) {
        if self.known_open.contains_key(key) {
            let e = self.known_hit.entry(key.to_string()).or_insert((0, detail.to_string()));
            e.0 += 1;
            return;
        }
        // at most 3 replay files per key
        let count = self.new_violations.iter().filter(|v| v.0 == key).count();
        self.new_keys.insert(key.to_string());
        if count >= 3 {
            return;
        }
        let body = json!({
            "property": self.id,
            "key": key,
            "detail": detail,
            "replay": replay,
        });
        let text = serde_json::to_string_pretty(&body).unwrap();
        let h = fnv(&text);
        let dir = format!("{}/replays", verif_dir());
        let _ = std::fs::create_dir_all(&dir);
        let path = format!("{}/{}-{:016x}.json", dir, self.id, h);
        if let Err(e) = std::fs::write(&path, &text) {
            eprintln!("MACHINERY: cannot write replay {}: {}", path, e);
        }
        println!("VIOLATION property={} replay={}", self.id, path);
        VIOLATION_PRINTED.store(true, std::sync::atomic::Ordering::SeqCst);
        println!("  key={} :: {}", key, truncate(detail, 600));
        self.new_violations.push((key.to_string(), detail.to_string(), path));
    }

    pub fn dx_violation(&mut self, v: &FoundViolation, params: Value) {
        let replay = json!({
            "engine": "DX",
            "scenario": v.scenario,
            "params": params,
            "choices": v.choices,
            "deviations": v.trace_sites,
            "observation": truncate(&v.obs, 4000),
        });
        self.violation(&v.key, &v.detail, replay);
    }

    /// Merge the stats of one explored scenario; forwards violations.
    pub fn absorb_dx(&mut self, st: &ExploreStats, params: Value) {
        self.dx_used = true;
        self.dx.merge(st);
        for v in &st.violations {
            self.dx_violation(v, params.clone());
        }
        for (k, (n, ex)) in &st.known_hits {
            let e = self.known_hit.entry(k.clone()).or_insert((0, ex.detail.clone()));
            e.0 += n;
        }
        if st.capped {
            self.exhaustive = false;
            self.caps.push(format!("{}", st.cap_reason));
        }
    }

    pub fn machinery(&mut self, msg: impl Into<String>) {
        let m = msg.into();
        eprintln!("MACHINERY: {}", m);
        self.machinery_errors.push(m);
    }

    pub fn observe(&mut self, msg: impl Into<String>) {
        let m = msg.into();
        if self.observations.len() < 40 && !self.observations.contains(&m) {
            self.observations.push(m);
        }
    }

    /// Write the evidence file, print findings, return the exit code.
    pub fn finish(mut self, rule: &str) -> i32 {
        let wall = self.start.elapsed().as_secs_f64();
        let mut cov = std::mem::take(&mut self.coverage);
        let mut evaluations = self.evaluations;
        let mut distinct_nontrivial = self.nontrivial.len() as u64;
        if self.dx_used {
            evaluations += self.dx.executions;
            distinct_nontrivial += self.dx.distinct_nontrivial;
            self.states += self.dx.tree_nodes;
            self.transitions += self.dx.transitions;
            self.traces_validated += self.dx.executions;
            let avg = if self.dx.executions > 0 {
                self.dx.sites_sum as f64 / self.dx.executions as f64
            } else {
                0.0
            };
            cov.insert(
                "dx".into(),
                json!({
                    "scenarios": self.dx.scenarios,
                    "executions": self.dx.executions,
                    "executions_by_deviations": self.dx.by_devs.iter().map(|(k,v)| (k.to_string(), json!(v))).collect::<serde_json::Map<_,_>>(),
                    "choice_sites_per_execution": {"min": self.dx.sites_min, "avg": avg, "max": self.dx.sites_max},
                    "distinct_traces": self.dx.distinct_traces,
                    "distinct_observations": self.dx.distinct_obs,
                    "sites_hit": self.dx.sites_hit.iter().collect::<Vec<_>>(),
                    "sites_deviated": self.dx.sites_deviated.iter().collect::<Vec<_>>(),
                    "determinism_replays": self.dx.det_replays,
                    "divergences": self.dx.divergences,
                    "min_bound_completed_over_scenarios": self.dx.min_bound_completed,
                    "sample_traces": self.dx.sample_traces,
                }),
            );
            for s in self.dx.sample_traces.iter().take(4) {
                if self.samples.len() < 16 {
                    self.samples.push(json!({"dx_trace": s}));
                }
            }
        }
        cov.insert("evaluations".into(), json!(evaluations));
        cov.insert("distinct_nontrivial".into(), json!(distinct_nontrivial));
        cov.insert("rule".into(), json!(rule));
        if self.samples.is_empty() {
            self.samples.push(json!("no sample recorded"));
        }
        cov.insert("samples".into(), json!(self.samples));
        if self.level == "model_checking" {
            cov.insert("states".into(), json!(self.states.max(1)));
            cov.insert("transitions".into(), json!(self.transitions.max(1)));
            cov.insert("traces_validated_against_impl".into(), json!(self.traces_validated));
        }
        cov.insert("exhaustive".into(), json!(self.exhaustive && self.caps.is_empty()));
        if !self.caps.is_empty() {
            cov.insert("caps_hit".into(), json!(self.caps));
        }
        for (k, v) in std::mem::take(&mut self.sections) {
            cov.insert(k, v);
        }
        if !self.observations.is_empty() {
            cov.insert("observations".into(), json!(self.observations));
        }
        let known: Vec<Value> = self
            .known_hit
            .iter()
            .map(|(k, (n, d))| json!({"key": k, "cases": n, "example": truncate(d, 400)}))
            .collect();
        cov.insert("known_findings_reproduced".into(), json!(known));
        let not_reproduced: Vec<&String> =
            self.known_open.keys().filter(|k| !self.known_hit.contains_key(*k)).collect();
        if !not_reproduced.is_empty() {
            cov.insert("known_findings_not_reproduced_in_this_tier".into(), json!(not_reproduced));
        }
        if !self.machinery_errors.is_empty() {
            cov.insert("machinery_errors".into(), json!(self.machinery_errors));
        }
        let ev = json!({
            "property_id": self.id,
            "tier": self.tier.name(),
            "seed": self.seed,
            "level": self.level,
            "coverage": Value::Object(cov),
            "assumptions": self.assumptions,
            "wall_s": wall,
            "violations": self.new_keys.len(),
        });
        let dir = format!("{}/evidence", verif_dir());
        let _ = std::fs::create_dir_all(&dir);
        let path = format!("{}/{}.json", dir, self.id);
        let tmp = format!("{}.tmp", path);
        std::fs::write(&tmp, serde_json::to_string_pretty(&ev).unwrap()).expect("write evidence");
        std::fs::rename(&tmp, &path).expect("rename evidence");

        for (k, (n, d)) in &self.known_hit {
            let what = self.known_open.get(k).cloned().unwrap_or_default();
            println!(
                "KNOWN-FINDING: property={} key={} cases={} :: {} :: e.g. {}",
                self.id,
                k,
                n,
                what,
                truncate(d, 300)
            );
        }
        println!(
            "[{}] tier={} evaluations={} distinct_nontrivial={} new_violation_keys={} known_reproduced={} wall={:.1}s exhaustive={}",
            self.id,
            self.tier.name(),
            evaluations,
            distinct_nontrivial,
            self.new_keys.len(),
            self.known_hit.len(),
            wall,
            self.exhaustive && self.caps.is_empty()
        );
        let disturbed = crate::ctl::DISTURBED.load(std::sync::atomic::Ordering::SeqCst);
        if disturbed > 0 {
            println!("NOTE: {disturbed} execution(s) made no progress within the real-time watchdog at first and completed when the same choice vector was run again (machine disturbance; the repetition's result was used)");
        }
        let stuck = crate::ctl::WEDGED.load(std::sync::atomic::Ordering::SeqCst);
        if stuck > 0 {
            println!("NOTE: {stuck} execution(s) got stuck in real time; after three, no further executions were started (coverage below is partial)");
        }
        // replay mode of the non-DX checks (see main.rs): the whole check was re-run; did the recorded key show up again?
        if let Ok(k) = std::env::var("VCHECK_REPLAY_KEY") {
            let hit = self.new_violations.iter().find(|v| v.0 == k).map(|v| v.1.clone()).or_else(|| self.known_hit.get(&k).map(|e| e.1.clone()));
            return match hit {
                Some(d) => {
                    println!("REPLAY: key {k} reproduced: {}", truncate(&d, 600));
                    1
                }
                None => {
                    println!("REPLAY: key {k} did not reproduce on this tree ({} other new key(s))", self.new_keys.len());
                    0
                }
            };
        }
        // a reported violation stands even if some other part of the run had a machinery problem (each violation was
        // established on its own execution); machinery problems alone are exit 2, never a verdict
        if !self.new_keys.is_empty() {
            return 1;
        }
        if !self.machinery_errors.is_empty() {
            return 2;
        }
        0
    }
}

pub fn truncate(s: &str, n: usize) -> String {
    if s.len() <= n {
        s.to_string()
    } else {
        let mut end = n;
        while !s.is_char_boundary(end) {
            end -= 1;
        }
        format!("{}…[{} more bytes]", &s[..end], s.len() - end)
    }
}
