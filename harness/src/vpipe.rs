//! vpipe — the virtual transport owned by the checker.
//!
//! A unidirectional in-memory byte pipe with a write log, optional finite
//! capacity (back-pressure), optional latency under the virtual clock,
//! scripted faults, and choice sites for short reads / short writes /
//! `Pending`-once on write. Two pipes make a duplex link.

use crate::ctl::choose;
use std::collections::{HashSet, VecDeque};
use std::future::Future;
use std::io;
use std::pin::Pin;
use std::sync::{Arc, Mutex, OnceLock};
use std::task::{Context, Poll, Waker};
use std::time::Duration;
use tokio::io::{AsyncRead, AsyncWrite, ReadBuf};
use tokio::time::Instant;

pub fn intern(s: &str) -> &'static str {
    static SET: OnceLock<Mutex<HashSet<&'static str>>> = OnceLock::new();
    let set = SET.get_or_init(|| Mutex::new(HashSet::new()));
    let mut g = set.lock().unwrap();
    if let Some(x) = g.get(s) {
        return x;
    }
    let l: &'static str = Box::leak(s.to_string().into_boxed_str());
    g.insert(l);
    l
}

#[derive(Clone, Copy, Debug, PartialEq, Eq)]
pub enum ReadFault {
    /// clean EOF: read returns 0
    Eof,
    Reset,
    UnexpectedEof,
}

#[derive(Clone, Copy, Debug, PartialEq, Eq)]
pub enum ShutdownMode {
    Ok,
    Err,
    Never,
}

#[derive(Clone, Debug, PartialEq, Eq)]
pub enum Ev {
    Write { t_ms: u64, data: Vec<u8> },
    WriteErr { t_ms: u64 },
    Flush { t_ms: u64, ok: bool },
    Shutdown { t_ms: u64, ok: bool },
}

#[derive(Clone)]
pub struct PipeCfg {
    pub name: &'static str,
    pub capacity: usize,
    pub read_menu: bool,
    pub write_menu: bool,
    /// flush may need a second poll (returns Pending once, self-waking)
    pub flush_menu: bool,
    pub latency: Duration,
    /// keep payload bytes in the log (off for sweeps with huge payloads)
    pub log_data: bool,
}

impl PipeCfg {
    pub fn new(name: &'static str) -> Self {
        PipeCfg {
            name,
            capacity: usize::MAX,
            read_menu: false,
            write_menu: false,
            flush_menu: false,
            latency: Duration::ZERO,
            log_data: true,
        }
    }
    pub fn menus(mut self, read: bool, write: bool) -> Self {
        self.read_menu = read;
        self.write_menu = write;
        self
    }
    pub fn flush_menu(mut self, on: bool) -> Self {
        self.flush_menu = on;
        self
    }
    pub fn capacity(mut self, c: usize) -> Self {
        self.capacity = c;
        self
    }
    pub fn latency(mut self, d: Duration) -> Self {
        self.latency = d;
        self
    }
}

struct Inner {
    cfg: PipeCfg,
    site_read: &'static str,
    site_write: &'static str,
    site_flush: &'static str,
    q: VecDeque<(Instant, Vec<u8>, usize)>, // (ready_at, bytes, consumed offset)
    q_bytes: usize,
    w_closed: bool,
    r_dropped: bool,
    r_waker: Option<Waker>,
    w_waker: Option<Waker>,
    log: Vec<Ev>,
    written_total: usize,
    read_total: usize,
    write_calls: usize,
    flush_calls: usize,
    read_fault: Option<(usize, ReadFault)>,
    write_fault_call: Option<usize>,
    write_fault_after_bytes: Option<usize>,
    flush_fault_call: Option<usize>,
    /// transient: exactly this write / flush call returns ErrorKind::Interrupted once, nothing is consumed
    write_interrupt_call: Option<usize>,
    /// transient: exactly this write call accepts 0 bytes (Ok(0)) once
    write_zero_call: Option<usize>,
    flush_interrupt_call: Option<usize>,
    shutdown_mode: ShutdownMode,
    shutdown_seen: bool,
    t0: Instant,
    flush_pending_left: usize,
    write_pending_left: usize,
}

impl Inner {
    fn t_ms(&self) -> u64 {
        Instant::now().saturating_duration_since(self.t0).as_millis() as u64
    }
    fn wake_reader(&mut self) {
        if let Some(w) = self.r_waker.take() {
            w.wake();
        }
    }
    fn wake_writer(&mut self) {
        if let Some(w) = self.w_waker.take() {
            w.wake();
        }
    }
}

#[derive(Clone)]
pub struct Pipe(Arc<Mutex<Inner>>);

pub struct PipeReader {
    p: Pipe,
    sleep: Option<Pin<Box<tokio::time::Sleep>>>,
}

pub struct PipeWriter {
    p: Pipe,
}

pub fn pipe(cfg: PipeCfg) -> (PipeWriter, PipeReader, Pipe) {
    let site_read = intern(&format!("{}.read", cfg.name));
    let site_write = intern(&format!("{}.write", cfg.name));
    let site_flush = intern(&format!("{}.flush", cfg.name));
    let p = Pipe(Arc::new(Mutex::new(Inner {
        cfg,
        site_read,
        site_write,
        site_flush,
        q: VecDeque::new(),
        q_bytes: 0,
        w_closed: false,
        r_dropped: false,
        r_waker: None,
        w_waker: None,
        log: Vec::new(),
        written_total: 0,
        read_total: 0,
        write_calls: 0,
        flush_calls: 0,
        read_fault: None,
        write_fault_call: None,
        write_fault_after_bytes: None,
        flush_fault_call: None,
        write_interrupt_call: None,
        write_zero_call: None,
        flush_interrupt_call: None,
        shutdown_mode: ShutdownMode::Ok,
        shutdown_seen: false,
        t0: Instant::now(),
        flush_pending_left: 0,
        write_pending_left: 0,
    })));
    (PipeWriter { p: p.clone() }, PipeReader { p: p.clone(), sleep: None }, p)
}

impl Pipe {
    /// Scripted peer: put bytes straight into the queue (no log entry, no menus).
    pub fn push(&self, data: &[u8]) {
        if data.is_empty() {
            return;
        }
        let mut g = self.0.lock().unwrap();
        let at = Instant::now() + g.cfg.latency;
        g.q.push_back((at, data.to_vec(), 0));
        g.q_bytes += data.len();
        g.written_total += data.len();
        g.wake_reader();
    }
    /// Scripted peer: end of its byte stream (reader sees EOF after queued bytes).
    pub fn close_write(&self) {
        let mut g = self.0.lock().unwrap();
        g.w_closed = true;
        g.wake_reader();
    }
    /// Scripted peer stops existing: reads hit EOF/err, writes fail.
    pub fn drop_reader_side(&self) {
        let mut g = self.0.lock().unwrap();
        g.r_dropped = true;
        g.wake_writer();
    }
    pub fn set_read_fault(&self, after_bytes: usize, f: ReadFault) {
        let mut g = self.0.lock().unwrap();
        g.read_fault = Some((after_bytes, f));
        g.wake_reader();
    }
    /// The n-th (0-based) poll_write call from now on fails with BrokenPipe, and every later one.
    pub fn set_write_fault_call(&self, n: usize) {
        let mut g = self.0.lock().unwrap();
        let base = g.write_calls;
        g.write_fault_call = Some(base + n);
        g.wake_writer();
    }
    /// Writes fail once `n` bytes in total have been accepted.
    pub fn set_write_fault_after_bytes(&self, n: usize) {
        let mut g = self.0.lock().unwrap();
        g.write_fault_after_bytes = Some(n);
        g.wake_writer();
    }
    pub fn set_flush_fault_call(&self, n: usize) {
        let mut g = self.0.lock().unwrap();
        let base = g.flush_calls;
        g.flush_fault_call = Some(base + n);
    }
    /// The n-th write call from now returns ErrorKind::Interrupted once (a legal transient result), consuming nothing.
    pub fn set_write_interrupt_call(&self, n: usize) {
        let mut g = self.0.lock().unwrap();
        let base = g.write_calls;
        g.write_interrupt_call = Some(base + n);
    }
    /// The n-th write call from now accepts 0 bytes once (Ok(0): legal, `write_all` reports WriteZero).
    pub fn set_write_zero_call(&self, n: usize) {
        let mut g = self.0.lock().unwrap();
        let base = g.write_calls;
        g.write_zero_call = Some(base + n);
    }
    /// The n-th flush call from now returns ErrorKind::Interrupted once.
    pub fn set_flush_interrupt_call(&self, n: usize) {
        let mut g = self.0.lock().unwrap();
        let base = g.flush_calls;
        g.flush_interrupt_call = Some(base + n);
    }
    pub fn set_shutdown_mode(&self, m: ShutdownMode) {
        self.0.lock().unwrap().shutdown_mode = m;
    }
    pub fn set_capacity(&self, c: usize) {
        let mut g = self.0.lock().unwrap();
        g.cfg.capacity = c;
        g.wake_writer();
    }
    pub fn log(&self) -> Vec<Ev> {
        self.0.lock().unwrap().log.clone()
    }
    pub fn written(&self) -> Vec<u8> {
        let g = self.0.lock().unwrap();
        let mut v = Vec::with_capacity(g.written_total);
        for e in &g.log {
            if let Ev::Write { data, .. } = e {
                v.extend_from_slice(data);
            }
        }
        v
    }
    /// Lengths of write calls, grouped by flush: each inner vec is one flush-delimited batch.
    pub fn write_batches(&self) -> Vec<Vec<usize>> {
        let g = self.0.lock().unwrap();
        let mut out = vec![];
        let mut cur = vec![];
        for e in &g.log {
            match e {
                Ev::Write { data, .. } => cur.push(data.len()),
                Ev::Flush { .. } => {
                    if !cur.is_empty() {
                        out.push(std::mem::take(&mut cur));
                    }
                }
                _ => {}
            }
        }
        if !cur.is_empty() {
            out.push(cur);
        }
        out
    }
    pub fn written_total(&self) -> usize {
        self.0.lock().unwrap().written_total
    }
    pub fn read_total(&self) -> usize {
        self.0.lock().unwrap().read_total
    }
    pub fn write_calls(&self) -> usize {
        self.0.lock().unwrap().write_calls
    }
    pub fn flush_calls(&self) -> usize {
        self.0.lock().unwrap().flush_calls
    }
    pub fn shutdown_seen(&self) -> bool {
        self.0.lock().unwrap().shutdown_seen
    }
    pub fn queued(&self) -> usize {
        self.0.lock().unwrap().q_bytes
    }
    pub fn is_write_closed(&self) -> bool {
        self.0.lock().unwrap().w_closed
    }
    /// Harness-side non-blocking drain of everything currently queued and ready.
    pub fn drain_now(&self) -> Vec<u8> {
        let mut g = self.0.lock().unwrap();
        let now = Instant::now();
        let mut out = vec![];
        while let Some((at, data, off)) = g.q.front() {
            if *at > now {
                break;
            }
            out.extend_from_slice(&data[*off..]);
            g.q.pop_front();
        }
        g.q_bytes -= out.len();
        g.read_total += out.len();
        if !out.is_empty() {
            g.wake_writer();
        }
        out
    }
}

impl Drop for PipeReader {
    fn drop(&mut self) {
        let mut g = self.p.0.lock().unwrap();
        g.r_dropped = true;
        g.wake_writer();
    }
}

impl Drop for PipeWriter {
    fn drop(&mut self) {
        let mut g = self.p.0.lock().unwrap();
        g.w_closed = true;
        g.wake_reader();
    }
}

impl AsyncRead for PipeReader {
    fn poll_read(
        mut self: Pin<&mut Self>,
        cx: &mut Context<'_>,
        buf: &mut ReadBuf<'_>,
    ) -> Poll<io::Result<()>> {
        let this = &mut *self;
        let mut g = this.p.0.lock().unwrap();
        if buf.remaining() == 0 {
            return Poll::Ready(Ok(()));
        }
        // scripted fault reached?
        let mut limit = usize::MAX;
        if let Some((after, f)) = g.read_fault {
            if g.read_total >= after {
                return match f {
                    ReadFault::Eof => Poll::Ready(Ok(())),
                    ReadFault::Reset => Poll::Ready(Err(io::Error::new(
                        io::ErrorKind::ConnectionReset,
                        "connection reset by peer",
                    ))),
                    ReadFault::UnexpectedEof => Poll::Ready(Err(io::Error::new(
                        io::ErrorKind::UnexpectedEof,
                        "peer closed connection without sending TLS close_notify",
                    ))),
                };
            }
            limit = after - g.read_total;
        }
        let now = Instant::now();
        // ready bytes
        let mut avail = 0usize;
        let mut next_ready: Option<Instant> = None;
        for (at, data, off) in g.q.iter() {
            if *at <= now {
                avail += data.len() - off;
            } else {
                next_ready = Some(*at);
                break;
            }
        }
        if avail == 0 {
            if let Some(at) = next_ready {
                // latency: wait for the front chunk to become readable
                let mut sl = Box::pin(tokio::time::sleep_until(at));
                g.r_waker = Some(cx.waker().clone());
                drop(g);
                if sl.as_mut().poll(cx).is_ready() {
                    cx.waker().wake_by_ref();
                }
                this.sleep = Some(sl);
                return Poll::Pending;
            }
            if g.w_closed {
                return Poll::Ready(Ok(())); // EOF
            }
            g.r_waker = Some(cx.waker().clone());
            return Poll::Pending;
        }
        let max = avail.min(buf.remaining()).min(limit);
        let mut n = max;
        if g.cfg.read_menu && max > 1 {
            // option 0: everything; then 1, 6, 7, 8, max-1 (deduplicated, < max)
            let mut opts: Vec<usize> = vec![max];
            for c in [1usize, 6, 7, 8, max - 1] {
                if c < max && !opts.contains(&c) {
                    opts.push(c);
                }
            }
            let site = g.site_read;
            drop(g);
            let k = choose(site, opts.len());
            n = opts[k];
            g = this.p.0.lock().unwrap();
        }
        let mut left = n;
        while left > 0 {
            let (_, data, off) = g.q.front_mut().unwrap();
            let take = (data.len() - *off).min(left);
            buf.put_slice(&data[*off..*off + take]);
            *off += take;
            left -= take;
            if *off == data.len() {
                g.q.pop_front();
            }
        }
        g.q_bytes -= n;
        g.read_total += n;
        g.wake_writer();
        Poll::Ready(Ok(()))
    }
}

impl AsyncWrite for PipeWriter {
    fn poll_write(
        self: Pin<&mut Self>,
        cx: &mut Context<'_>,
        data: &[u8],
    ) -> Poll<io::Result<usize>> {
        let mut g = self.p.0.lock().unwrap();
        let call = g.write_calls;
        if g.write_interrupt_call == Some(call) && !data.is_empty() {
            g.write_interrupt_call = None;
            g.write_calls += 1;
            let t = g.t_ms();
            g.log.push(Ev::WriteErr { t_ms: t });
            return Poll::Ready(Err(io::Error::new(io::ErrorKind::Interrupted, "interrupted")));
        }
        if g.write_zero_call == Some(call) && !data.is_empty() {
            g.write_zero_call = None;
            g.write_calls += 1;
            let t = g.t_ms();
            g.log.push(Ev::WriteErr { t_ms: t });
            return Poll::Ready(Ok(0));
        }
        let broken = g.w_closed
            || g.r_dropped
            || g.write_fault_call.map(|n| call >= n).unwrap_or(false)
            || g
                .write_fault_after_bytes
                .map(|n| g.written_total >= n)
                .unwrap_or(false);
        if broken {
            g.write_calls += 1;
            let t = g.t_ms();
            g.log.push(Ev::WriteErr { t_ms: t });
            return Poll::Ready(Err(io::Error::new(io::ErrorKind::BrokenPipe, "broken pipe")));
        }
        if data.is_empty() {
            return Poll::Ready(Ok(0));
        }
        let free = g.cfg.capacity.saturating_sub(g.q_bytes);
        if free == 0 {
            g.w_waker = Some(cx.waker().clone());
            return Poll::Pending;
        }
        let mut max = data.len().min(free);
        if let Some(nb) = g.write_fault_after_bytes {
            max = max.min(nb - g.written_total);
        }
        let mut n = max;
        if g.cfg.write_menu {
            // option 0: accept all; 1 byte; max-1; Pending once
            let mut opts: Vec<usize> = vec![max];
            for c in [1usize, max.saturating_sub(1)] {
                if c > 0 && c < max && !opts.contains(&c) {
                    opts.push(c);
                }
            }
            if g.write_pending_left > 0 {
                g.write_pending_left -= 1;
                cx.waker().wake_by_ref();
                return Poll::Pending;
            }
            let site = g.site_write;
            drop(g);
            let long = crate::ctl::long_rounds();
            let k = choose(site, opts.len() + if long > 0 { 2 } else { 1 });
            if k == opts.len() {
                cx.waker().wake_by_ref();
                return Poll::Pending;
            }
            if k == opts.len() + 1 {
                self.p.0.lock().unwrap().write_pending_left = long - 1;
                cx.waker().wake_by_ref();
                return Poll::Pending;
            }
            n = opts[k];
            g = self.p.0.lock().unwrap();
        }
        g.write_calls += 1;
        let t = g.t_ms();
        let logged = if g.cfg.log_data { data[..n].to_vec() } else { vec![0u8; 0] };
        if g.cfg.log_data {
            g.log.push(Ev::Write { t_ms: t, data: logged });
        } else {
            g.log.push(Ev::Write { t_ms: t, data: vec![] });
        }
        let at = Instant::now() + g.cfg.latency;
        g.q.push_back((at, data[..n].to_vec(), 0));
        g.q_bytes += n;
        g.written_total += n;
        g.wake_reader();
        Poll::Ready(Ok(n))
    }

    fn poll_flush(self: Pin<&mut Self>, cx: &mut Context<'_>) -> Poll<io::Result<()>> {
        {
            let mut g = self.p.0.lock().unwrap();
            if g.flush_pending_left > 0 {
                g.flush_pending_left -= 1;
                cx.waker().wake_by_ref();
                return Poll::Pending;
            }
            if g.cfg.flush_menu && !g.r_dropped {
                let site = g.site_flush;
                drop(g);
                let long = crate::ctl::long_rounds();
                match choose(site, if long > 0 { 3 } else { 2 }) {
                    0 => {}
                    1 => {
                        cx.waker().wake_by_ref();
                        return Poll::Pending;
                    }
                    _ => {
                        self.p.0.lock().unwrap().flush_pending_left = long - 1;
                        cx.waker().wake_by_ref();
                        return Poll::Pending;
                    }
                }
            }
        }
        let mut g = self.p.0.lock().unwrap();
        let call = g.flush_calls;
        g.flush_calls += 1;
        let t = g.t_ms();
        if g.flush_interrupt_call == Some(call) {
            g.flush_interrupt_call = None;
            g.log.push(Ev::Flush { t_ms: t, ok: false });
            return Poll::Ready(Err(io::Error::new(io::ErrorKind::Interrupted, "interrupted")));
        }
        let fail = g.flush_fault_call.map(|n| call >= n).unwrap_or(false) || g.r_dropped;
        g.log.push(Ev::Flush { t_ms: t, ok: !fail });
        if fail {
            return Poll::Ready(Err(io::Error::new(io::ErrorKind::BrokenPipe, "flush failed")));
        }
        Poll::Ready(Ok(()))
    }

    fn poll_shutdown(self: Pin<&mut Self>, _cx: &mut Context<'_>) -> Poll<io::Result<()>> {
        let mut g = self.p.0.lock().unwrap();
        let t = g.t_ms();
        g.shutdown_seen = true;
        match g.shutdown_mode {
            ShutdownMode::Never => {
                // never completes and never wakes: close() must time out
                if !matches!(g.log.last(), Some(Ev::Shutdown { ok: false, .. })) {
                    g.log.push(Ev::Shutdown { t_ms: t, ok: false });
                }
                Poll::Pending
            }
            ShutdownMode::Err => {
                g.log.push(Ev::Shutdown { t_ms: t, ok: false });
                g.w_closed = true;
                g.wake_reader();
                Poll::Ready(Err(io::Error::new(io::ErrorKind::NotConnected, "shutdown failed")))
            }
            ShutdownMode::Ok => {
                g.log.push(Ev::Shutdown { t_ms: t, ok: true });
                g.w_closed = true;
                g.wake_reader();
                Poll::Ready(Ok(()))
            }
        }
    }
}

/// A duplex link: a→b and b→a.
pub struct Duplex {
    pub a_w: PipeWriter,
    pub a_r: PipeReader,
    pub b_w: PipeWriter,
    pub b_r: PipeReader,
    /// a writes / b reads
    pub a2b: Pipe,
    /// b writes / a reads
    pub b2a: Pipe,
}

pub fn duplex(a2b: PipeCfg, b2a: PipeCfg) -> Duplex {
    let (a_w, b_r, p1) = pipe(a2b);
    let (b_w, a_r, p2) = pipe(b2a);
    Duplex { a_w, a_r, b_w, b_r, a2b: p1, b2a: p2 }
}
