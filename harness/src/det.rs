//! Owning process-level nondeterminism.
//!
//! std seeds every thread's `HashMap` SipHash keys (and `rand` seeds its
//! thread RNG) through libc's `getrandom`. Defining the symbol in this binary
//! overrides libc's weak one. While the calling thread has its DET flag set,
//! the bytes come from a per-thread splitmix64 stream that starts at the same
//! state on every fresh thread, so every execution (one fresh OS thread each)
//! sees identical hash-map iteration orders and identical RNG draws.
//! Threads without the flag (LX mode: TLS, real sockets) get the real syscall.

use std::cell::Cell;
use std::sync::atomic::{AtomicU64, Ordering};

thread_local! {
    static DET: Cell<bool> = const { Cell::new(false) };
    static STATE: Cell<u64> = const { Cell::new(0x9E37_79B9_7F4A_7C15) };
    pub static PANICS: Cell<u32> = const { Cell::new(0) };
}

pub static TOTAL_PANICS: AtomicU64 = AtomicU64::new(0);

/// Safety: called by libc users with a valid buffer of `len` bytes.
#[unsafe(no_mangle)]
pub unsafe extern "C" fn getrandom(buf: *mut libc::c_void, len: usize, flags: u32) -> isize {
    let det = DET.try_with(|d| d.get()).unwrap_or(false);
    if det {
        let out = unsafe { std::slice::from_raw_parts_mut(buf as *mut u8, len) };
        let mut s = STATE.with(|s| s.get());
        for chunk in out.chunks_mut(8) {
            s = s.wrapping_add(0x9E37_79B9_7F4A_7C15);
            let mut z = s;
            z = (z ^ (z >> 30)).wrapping_mul(0xBF58_476D_1CE4_E5B9);
            z = (z ^ (z >> 27)).wrapping_mul(0x94D0_49BB_1331_11EB);
            z ^= z >> 31;
            let b = z.to_le_bytes();
            chunk.copy_from_slice(&b[..chunk.len()]);
        }
        STATE.with(|st| st.set(s));
        len as isize
    } else {
        unsafe { libc::syscall(libc::SYS_getrandom, buf, len, flags) as isize }
    }
}

pub fn set_deterministic(on: bool) {
    DET.with(|d| d.set(on));
    if on {
        STATE.with(|s| s.set(0x9E37_79B9_7F4A_7C15));
    }
}

/// Process-wide panic hook: counts panics per thread (tokio swallows task
/// panics into JoinHandles) and keeps the message of the last one.
pub fn install_panic_hook(quiet: bool) {
    let default = std::panic::take_hook();
    std::panic::set_hook(Box::new(move |info| {
        TOTAL_PANICS.fetch_add(1, Ordering::SeqCst);
        let _ = PANICS.try_with(|p| p.set(p.get() + 1));
        let msg = format!("{}", info);
        let _ = LAST_PANIC.try_with(|l| *l.borrow_mut() = Some(msg));
        if !quiet {
            default(info);
        }
    }));
}

thread_local! {
    pub static LAST_PANIC: std::cell::RefCell<Option<String>> = const { std::cell::RefCell::new(None) };
}

pub fn take_panics() -> (u32, Option<String>) {
    let n = PANICS.with(|p| p.replace(0));
    let m = LAST_PANIC.with(|l| l.borrow_mut().take());
    (n, m)
}

static SELF_EXE: std::sync::OnceLock<std::path::PathBuf> = std::sync::OnceLock::new();

/// Path of this binary as of process start (children are spawned from it). Resolved once: after a rebuild
/// during a long run /proc/self/exe reads "... (deleted)", while the path still names a valid build.
pub fn self_exe() -> std::path::PathBuf {
    SELF_EXE.get_or_init(|| std::env::current_exe().expect("current_exe")).clone()
}
