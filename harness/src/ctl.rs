//! Choice controller and DX — the deviation-bounded stateless explorer.
//!
//! Every place where the scheduler or the environment could have behaved
//! differently calls `choose(site, n)`; option 0 is the default. One
//! execution = one choice vector. `explore` enumerates every vector with at
//! most B non-zero entries (deviations), depth first, re-executing the real
//! code from scratch for each one on a fresh OS thread with a fresh paused
//! current-thread tokio runtime.

use crate::det;
use std::cell::RefCell;
use std::collections::{BTreeMap, BTreeSet, HashSet};
use std::future::Future;
use std::hash::{Hash, Hasher};
use std::pin::Pin;
use std::rc::Rc;
use std::sync::atomic::{AtomicBool, AtomicU64, Ordering};
use std::sync::{Arc, Condvar, Mutex};
use std::time::{Duration, Instant};

#[derive(Clone, Copy, PartialEq, Eq, Hash, Debug)]
pub struct Choice {
    pub site: &'static str,
    pub n: u16,
    pub chosen: u16,
}

#[derive(Clone, Copy, PartialEq, Eq, Debug)]
pub enum DrawPolicy {
    Real,
    Min,
    Max,
    MinPlus1,
    Mid,
    /// min, max, min, max, ... on successive draws of one execution (a draw taken twice shows)
    Alternate,
}

pub type SiteFilter = Arc<dyn Fn(&str) -> bool + Send + Sync>;

pub struct Ctl {
    prefix: Vec<u16>,
    expect_hash: u64,
    run_hash: u64,
    pub trace: Vec<Choice>,
    pub diverged: Option<String>,
    filter: Option<SiteFilter>,
    pub draw: DrawPolicy,
    visits: u64,
    pub spin: bool,
    pub notes: Vec<String>,
    /// rounds of a "long" pre-emption (0 = only single-round yields are offered)
    pub long_yield: usize,
    forced: std::collections::HashMap<u64, usize>,
    draws: u64,
    /// offer "sleep until everything else has quiesced" (1 ms of virtual time) at sched points
    pub quiesce: bool,
    sleep_pending: std::collections::HashSet<u64>,
}

pub const MAX_VISITS: u64 = 2_000_000;

thread_local! {
    static CTL: RefCell<Option<Ctl>> = const { RefCell::new(None) };
}

fn mix(h: u64, site: &str, n: u16) -> u64 {
    let mut x = h ^ 0xcbf2_9ce4_8422_2325;
    for b in site.as_bytes() {
        x = (x ^ *b as u64).wrapping_mul(0x0000_0100_0000_01B3);
    }
    x = (x ^ n as u64).wrapping_mul(0x0000_0100_0000_01B3);
    x.rotate_left(17)
}

/// The one primitive: pick one of `n` options at `site`.
pub fn choose(site: &'static str, n: usize) -> usize {
    if n <= 1 {
        return 0;
    }
    CTL.with(|c| {
        let mut g = c.borrow_mut();
        let Some(ctl) = g.as_mut() else { return 0 };
        ctl.visits += 1;
        if ctl.visits > MAX_VISITS {
            ctl.spin = true;
            return 0;
        }
        let pos = ctl.trace.len();
        let n16 = n.min(u16::MAX as usize) as u16;
        let mut chosen = 0u16;
        if pos < ctl.prefix.len() {
            chosen = ctl.prefix[pos];
            ctl.run_hash = mix(ctl.run_hash, site, n16);
            if chosen >= n16 {
                if ctl.diverged.is_none() {
                    ctl.diverged = Some(format!(
                        "replayed choice {} out of range at position {} site {} (menu {})",
                        chosen, pos, site, n16
                    ));
                }
                chosen = 0;
            }
            if pos + 1 == ctl.prefix.len()
                && ctl.expect_hash != 0
                && ctl.run_hash != ctl.expect_hash
                && ctl.diverged.is_none()
            {
                ctl.diverged = Some(format!(
                    "replayed prefix reached different sites than recorded (position {}, site {})",
                    pos, site
                ));
            }
        }
        ctl.trace.push(Choice { site, n: n16, chosen });
        chosen as usize
    })
}

/// Is a controller installed (i.e. are we inside an explored execution)?
pub fn active() -> bool {
    CTL.with(|c| c.borrow().is_some())
}

pub fn note(s: String) {
    CTL.with(|c| {
        if let Some(ctl) = c.borrow_mut().as_mut() {
            ctl.notes.push(s);
        }
    });
}

fn task_key() -> u64 {
    match tokio::task::try_id() {
        Some(id) => {
            use std::hash::{Hash, Hasher};
            let mut h = std::collections::hash_map::DefaultHasher::new();
            id.hash(&mut h);
            h.finish() | 1
        }
        None => 0,
    }
}

/// How many rounds a long pending / pre-emption lasts (for transport menus).
pub fn long_rounds() -> usize {
    CTL.with(|c| c.borrow().as_ref().map(|c| c.long_yield).unwrap_or(0))
}

fn sched_choose(name: &'static str) -> bool {
    // a task inside a long pre-emption keeps yielding without a new choice
    let tk = task_key();
    let forced = CTL.with(|c| {
        let mut g = c.borrow_mut();
        if let Some(ctl) = g.as_mut()
            && let Some(left) = ctl.forced.get_mut(&tk)
            && *left > 0
        {
            *left -= 1;
            return true;
        }
        false
    });
    if forced {
        return true;
    }
    let enabled = CTL.with(|c| {
        let g = c.borrow();
        match g.as_ref() {
            None => false,
            Some(ctl) => match &ctl.filter {
                None => true,
                Some(f) => f(name),
            },
        }
    });
    if !enabled {
        return false;
    }
    let long = long_rounds();
    let quiesce = CTL.with(|c| c.borrow().as_ref().map(|c| c.quiesce).unwrap_or(false));
    let n = 2 + (long > 0) as usize + quiesce as usize;
    let k = choose(name, n);
    if k == 0 {
        return false;
    }
    if k == 1 {
        return true;
    }
    if long > 0 && k == 2 {
        CTL.with(|c| {
            if let Some(ctl) = c.borrow_mut().as_mut() {
                ctl.forced.insert(tk, long - 1);
            }
        });
        return true;
    }
    // quiesce: no yield now; the point then sleeps 1 ms of virtual time (see point_sleep)
    CTL.with(|c| {
        if let Some(ctl) = c.borrow_mut().as_mut() {
            ctl.sleep_pending.insert(tk);
        }
    });
    false
}

fn take_sleep() -> Option<Duration> {
    let tk = task_key();
    let hit = CTL.with(|c| c.borrow_mut().as_mut().map(|ctl| ctl.sleep_pending.remove(&tk)).unwrap_or(false));
    if hit { Some(Duration::from_millis(1)) } else { None }
}

struct HookImpl;

impl anytls_rs::verif::Hooks for HookImpl {
    fn point(&self, name: &'static str) -> bool {
        sched_choose(name)
    }
    fn point_sleep(&self, _name: &'static str) -> Option<Duration> {
        take_sleep()
    }
    fn draw(&self, min: i64, max: i64) -> Option<i64> {
        let pol = CTL.with(|c| c.borrow().as_ref().map(|c| c.draw));
        match pol {
            None | Some(DrawPolicy::Real) => None,
            Some(DrawPolicy::Min) => Some(min),
            Some(DrawPolicy::Max) => Some(max),
            Some(DrawPolicy::MinPlus1) => Some((min + 1).min(max)),
            Some(DrawPolicy::Mid) => Some(min + (max - min) / 2),
            Some(DrawPolicy::Alternate) => {
                let n = CTL.with(|c| {
                    let mut g = c.borrow_mut();
                    match g.as_mut() {
                        Some(ctl) => {
                            ctl.draws += 1;
                            ctl.draws
                        }
                        None => 1,
                    }
                });
                Some(if n % 2 == 1 { min } else { max })
            }
        }
    }
}

/// A scheduling point inside harness tasks (same semantics as the hooks in /repo).
pub async fn hpoint(name: &'static str) {
    struct YieldOnce(bool);
    impl Future for YieldOnce {
        type Output = ();
        fn poll(
            mut self: Pin<&mut Self>,
            cx: &mut std::task::Context<'_>,
        ) -> std::task::Poll<()> {
            if self.0 {
                std::task::Poll::Ready(())
            } else {
                self.0 = true;
                cx.waker().wake_by_ref();
                std::task::Poll::Pending
            }
        }
    }
    while sched_choose(name) {
        YieldOnce(false).await;
    }
    if let Some(d) = take_sleep() {
        tokio::time::sleep(d).await;
    }
}

/// Unconditional single yield (task goes to the back of the run queue).
pub async fn yield_once() {
    struct YieldOnce(bool);
    impl Future for YieldOnce {
        type Output = ();
        fn poll(
            mut self: Pin<&mut Self>,
            cx: &mut std::task::Context<'_>,
        ) -> std::task::Poll<()> {
            if self.0 {
                std::task::Poll::Ready(())
            } else {
                self.0 = true;
                cx.waker().wake_by_ref();
                std::task::Poll::Pending
            }
        }
    }
    YieldOnce(false).await
}

/// Let every other runnable task run until the run queue drains (bounded).
pub async fn settle() {
    for _ in 0..64 {
        yield_once().await;
    }
}

// ---------------------------------------------------------------------------

#[derive(Clone, Debug)]
pub struct Viol {
    /// stable class of the violation (clause + call site), used for known findings
    pub key: String,
    pub detail: String,
}

#[derive(Clone, Debug, Default)]
pub struct Outcome {
    /// canonical text of what was observed (wire, results, flags)
    pub obs: String,
    pub violations: Vec<Viol>,
}

impl Outcome {
    pub fn viol(&mut self, key: impl Into<String>, detail: impl Into<String>) {
        self.violations.push(Viol {
            key: key.into(),
            detail: detail.into(),
        });
    }
}

pub type ScenarioFn =
    Arc<dyn Fn() -> Pin<Box<dyn Future<Output = Outcome>>> + Send + Sync + 'static>;

pub fn scenario<F, Fut>(f: F) -> ScenarioFn
where
    F: Fn() -> Fut + Send + Sync + 'static,
    Fut: Future<Output = Outcome> + 'static,
{
    Arc::new(move || Box::pin(f()))
}

pub struct ExecRecord {
    pub trace: Vec<Choice>,
    pub outcome: Outcome,
    pub diverged: Option<String>,
    pub notes: Vec<String>,
}

#[derive(Clone)]
pub struct ExecCfg {
    pub filter: Option<SiteFilter>,
    pub draw: DrawPolicy,
    /// virtual-time limit for the whole scenario
    pub horizon: Duration,
    /// real-time watchdog for one execution
    pub watchdog: Duration,
    /// offer "stay pre-empted / pending for this many rounds" as one deviation (0 = off)
    pub long_yield: usize,
    /// offer "sleep until every other task has gone idle" at sched points as one deviation
    pub quiesce: bool,
    /// build the runtime with the I/O driver (a scenario that binds a real socket; never for explored schedules)
    pub enable_io: bool,
}

impl Default for ExecCfg {
    fn default() -> Self {
        ExecCfg {
            filter: None,
            draw: DrawPolicy::Min,
            horizon: Duration::from_secs(6 * 3600),
            watchdog: Duration::from_secs(60),
            long_yield: 0,
            quiesce: false,
            enable_io: false,
        }
    }
}

/// number of executions that got stuck in real time (busy loop / blocking call inside one poll) in this process
pub static WEDGED: std::sync::atomic::AtomicUsize = std::sync::atomic::AtomicUsize::new(0);

/// executions whose first run made no progress within the watchdog but whose repetition (same choice vector, fresh
/// thread) completed: a disturbance of the machine, not a property of the code — counted, never a verdict
pub static DISTURBED: std::sync::atomic::AtomicUsize = std::sync::atomic::AtomicUsize::new(0);

/// Run one execution (choice vector = `prefix` then defaults) on a fresh thread. "Made no progress in real time" is
/// reported only when the same choice vector does it twice (a busy loop or blocking call is deterministic; a stall of
/// the machine is not).
pub fn run_exec(sc: &ScenarioFn, cfg: &ExecCfg, prefix: &[u16], expect_hash: u64) -> ExecRecord {
    let r = run_exec_once(sc, cfg, prefix, expect_hash, false);
    if !r.outcome.violations.iter().any(|v| v.key == "wedged-real-time") {
        return r;
    }
    let again = run_exec_once(sc, cfg, prefix, expect_hash, true);
    if again.outcome.violations.iter().any(|v| v.key == "wedged-real-time") {
        return again;
    }
    // the repetition completed: take the first stall back
    WEDGED.fetch_sub(1, std::sync::atomic::Ordering::SeqCst);
    DISTURBED.fetch_add(1, std::sync::atomic::Ordering::SeqCst);
    again
}

fn run_exec_once(sc: &ScenarioFn, cfg: &ExecCfg, prefix: &[u16], expect_hash: u64, full_watchdog: bool) -> ExecRecord {
    if WEDGED.load(std::sync::atomic::Ordering::SeqCst) >= 3 {
        // not started: three executions of this process are already stuck for good
        return ExecRecord { trace: prefix.iter().map(|c| Choice { site: "?", n: u16::MAX, chosen: *c }).collect(), outcome: Outcome::default(), diverged: None, notes: vec!["skipped: stuck executions".into()] };
    }
    let sc = sc.clone();
    let cfg2 = cfg.clone();
    let prefix_v = prefix.to_vec();
    let (tx, rx) = std::sync::mpsc::channel();
    let th = std::thread::Builder::new()
        .stack_size(4 << 20)
        .spawn(move || {
            det::set_deterministic(true);
            let _ = det::take_panics();
            CTL.with(|c| {
                *c.borrow_mut() = Some(Ctl {
                    prefix: prefix_v,
                    expect_hash,
                    run_hash: 0,
                    trace: Vec::with_capacity(256),
                    diverged: None,
                    filter: cfg2.filter.clone(),
                    draw: cfg2.draw,
                    visits: 0,
                    spin: false,
                    notes: Vec::new(),
                    long_yield: cfg2.long_yield,
                    forced: std::collections::HashMap::new(),
                    draws: 0,
                    quiesce: cfg2.quiesce,
                    sleep_pending: std::collections::HashSet::new(),
                })
            });
            let old = anytls_rs::verif::install(Some(Rc::new(HookImpl)));
            let horizon = cfg2.horizon;
            let res = std::panic::catch_unwind(std::panic::AssertUnwindSafe(|| {
                let mut b = tokio::runtime::Builder::new_current_thread();
                b.enable_time().start_paused(true);
                if cfg2.enable_io {
                    b.enable_io();
                }
                let rt = b.build().expect("runtime");
                let out = rt.block_on(async move {
                    match tokio::time::timeout(horizon, sc()).await {
                        Ok(o) => o,
                        Err(_) => {
                            let mut o = Outcome::default();
                            o.viol(
                                "harness:scenario-horizon",
                                "scenario did not finish within the global virtual horizon",
                            );
                            o
                        }
                    }
                });
                drop(rt);
                out
            }));
            anytls_rs::verif::install(old);
            let ctl = CTL.with(|c| c.borrow_mut().take()).unwrap();
            let (panics, pmsg) = det::take_panics();
            let mut outcome = match res {
                Ok(o) => o,
                Err(_) => {
                    let mut o = Outcome::default();
                    o.viol(
                        "panic:scenario",
                        format!("scenario panicked: {}", pmsg.clone().unwrap_or_default()),
                    );
                    o
                }
            };
            if panics > 0 && !outcome.violations.iter().any(|v| v.key.starts_with("panic:")) {
                outcome.viol(
                    "panic:task",
                    format!("{} panic(s) in spawned tasks: {}", panics, pmsg.unwrap_or_default()),
                );
            }
            if ctl.spin {
                outcome.viol(
                    "spin",
                    format!("more than {} choice-site visits in one execution", MAX_VISITS),
                );
            }
            let _ = tx.send(ExecRecord {
                trace: ctl.trace,
                outcome,
                diverged: ctl.diverged,
                notes: ctl.notes,
            });
        })
        .expect("spawn execution thread");
    // stuck executions cannot be killed and keep a core busy: after the first one the watchdog is short, after three no
    // further execution is started (the violation is already established; see WEDGED)
    let wedged = WEDGED.load(std::sync::atomic::Ordering::SeqCst);
    let watchdog = if wedged == 0 || full_watchdog { cfg.watchdog } else { cfg.watchdog.min(Duration::from_secs(8)) };
    match rx.recv_timeout(watchdog) {
        Ok(r) => {
            let _ = th.join();
            r
        }
        Err(_) => {
            WEDGED.fetch_add(1, std::sync::atomic::Ordering::SeqCst);
            // The execution thread is stuck without reaching a choice site (a
            // busy loop inside one poll, or a blocking call). It cannot be
            // killed; report and leave it detached.
            let mut o = Outcome::default();
            o.viol(
                "wedged-real-time",
                format!(
                    "execution made no progress for {:?} of real time (busy loop or blocking call inside one poll)",
                    cfg.watchdog
                ),
            );
            ExecRecord {
                trace: prefix
                    .iter()
                    .map(|c| Choice { site: "?", n: u16::MAX, chosen: *c })
                    .collect(),
                outcome: o,
                diverged: None,
                notes: vec![],
            }
        }
    }
}

// ---------------------------------------------------------------------------

#[derive(Clone)]
pub struct ExploreCfg {
    pub name: String,
    pub bound: usize,
    pub max_execs: u64,
    pub time_cap: Duration,
    pub workers: usize,
    pub det_replays: usize,
    pub exec: ExecCfg,
    /// stop exploring this scenario after this many violating executions
    pub max_violations: usize,
    /// violation keys that are listed open findings: counted, never stop or prune the search
    pub known: Arc<dyn Fn(&str) -> bool + Send + Sync>,
}

impl ExploreCfg {
    pub fn new(name: impl Into<String>, bound: usize) -> Self {
        ExploreCfg {
            name: name.into(),
            bound,
            max_execs: u64::MAX,
            time_cap: Duration::from_secs(3600),
            workers: std::thread::available_parallelism().map(|n| n.get()).unwrap_or(8),
            det_replays: 20,
            exec: ExecCfg::default(),
            max_violations: 8,
            known: Arc::new(|_| false),
        }
    }
}

#[derive(Clone, Debug)]
pub struct FoundViolation {
    pub scenario: String,
    pub key: String,
    pub detail: String,
    pub choices: Vec<u16>,
    pub trace_sites: Vec<String>,
    pub obs: String,
    pub deviations: usize,
}

#[derive(Default, Clone, Debug)]
pub struct ExploreStats {
    pub scenarios: u64,
    pub executions: u64,
    pub transitions: u64,
    pub tree_nodes: u64,
    pub by_devs: BTreeMap<usize, u64>,
    pub sites_min: usize,
    pub sites_max: usize,
    pub sites_sum: u64,
    pub distinct_traces: u64,
    pub distinct_obs: u64,
    pub distinct_nontrivial: u64,
    pub sites_hit: BTreeSet<&'static str>,
    pub sites_deviated: BTreeSet<&'static str>,
    pub det_replays: u64,
    pub divergences: u64,
    pub bound_completed: Option<usize>,
    pub capped: bool,
    pub cap_reason: String,
    pub violations: Vec<FoundViolation>,
    /// listed (known) findings reproduced: key -> (executions, first example)
    pub known_hits: BTreeMap<String, (u64, FoundViolation)>,
    pub sample_traces: Vec<String>,
    pub min_bound_completed: Option<usize>,
}

impl ExploreStats {
    pub fn merge(&mut self, o: &ExploreStats) {
        self.scenarios += o.scenarios.max(1);
        self.executions += o.executions;
        self.transitions += o.transitions;
        self.tree_nodes += o.tree_nodes;
        for (k, v) in &o.by_devs {
            *self.by_devs.entry(*k).or_default() += v;
        }
        if self.sites_min == 0 || (o.sites_min != 0 && o.sites_min < self.sites_min) {
            self.sites_min = o.sites_min;
        }
        self.sites_max = self.sites_max.max(o.sites_max);
        self.sites_sum += o.sites_sum;
        self.distinct_traces += o.distinct_traces;
        self.distinct_obs += o.distinct_obs;
        self.distinct_nontrivial += o.distinct_nontrivial;
        self.sites_hit.extend(o.sites_hit.iter());
        self.sites_deviated.extend(o.sites_deviated.iter());
        self.det_replays += o.det_replays;
        self.divergences += o.divergences;
        self.capped |= o.capped;
        if o.capped && self.cap_reason.is_empty() {
            self.cap_reason = o.cap_reason.clone();
        }
        self.violations.extend(o.violations.iter().cloned());
        for (k, (n, ex)) in &o.known_hits {
            let e = self.known_hits.entry(k.clone()).or_insert((0, ex.clone()));
            e.0 += n;
        }
        if self.sample_traces.len() < 6 {
            self.sample_traces.extend(o.sample_traces.iter().take(2).cloned());
        }
        self.min_bound_completed = match (self.min_bound_completed, o.bound_completed) {
            (None, b) => b,
            (a, None) => a.map(|_| 0),
            (Some(a), Some(b)) => Some(a.min(b)),
        };
    }
}

struct Work {
    prefix: Vec<u16>,
    expect_hash: u64,
    devs: usize,
}

struct Shared {
    stack: Mutex<(Vec<Work>, usize)>, // (work, active workers)
    cv: Condvar,
    stop: AtomicBool,
    execs: AtomicU64,
    stats: Mutex<ExploreStats>,
    traces: Mutex<HashSet<u64>>,
    obs: Mutex<HashSet<u64>>,
    nontrivial: Mutex<HashSet<u64>>,
}

fn hash_of<T: Hash>(t: &T) -> u64 {
    let mut h = std::collections::hash_map::DefaultHasher::new();
    t.hash(&mut h);
    h.finish()
}

pub fn fmt_trace(tr: &[Choice]) -> String {
    let mut s = String::new();
    for (i, c) in tr.iter().enumerate() {
        if c.chosen != 0 {
            s.push_str(&format!("@{}:{}={}/{} ", i, c.site, c.chosen, c.n));
        }
    }
    format!("len={} dev=[{}]", tr.len(), s.trim_end())
}

/// Exhaustively explore every execution of `sc` with at most `cfg.bound` deviations.
pub fn explore(sc: &ScenarioFn, cfg: &ExploreCfg) -> Result<ExploreStats, String> {
    let start = Instant::now();
    let shared = Arc::new(Shared {
        stack: Mutex::new((
            vec![Work { prefix: vec![], expect_hash: 0, devs: 0 }],
            0,
        )),
        cv: Condvar::new(),
        stop: AtomicBool::new(false),
        execs: AtomicU64::new(0),
        stats: Mutex::new(ExploreStats::default()),
        traces: Mutex::new(HashSet::new()),
        obs: Mutex::new(HashSet::new()),
        nontrivial: Mutex::new(HashSet::new()),
    });
    let machinery_err: Arc<Mutex<Option<String>>> = Arc::new(Mutex::new(None));
    let mut handles = vec![];
    for _ in 0..cfg.workers.max(1) {
        let shared = shared.clone();
        let sc = sc.clone();
        let cfg = cfg.clone();
        let merr = machinery_err.clone();
        handles.push(std::thread::spawn(move || {
            loop {
                let work = {
                    let mut g = shared.stack.lock().unwrap();
                    loop {
                        if shared.stop.load(Ordering::SeqCst) {
                            return;
                        }
                        if let Some(w) = g.0.pop() {
                            g.1 += 1;
                            break w;
                        }
                        if g.1 == 0 {
                            shared.cv.notify_all();
                            return;
                        }
                        g = shared.cv.wait(g).unwrap();
                    }
                };
                let n_exec = shared.execs.fetch_add(1, Ordering::SeqCst);
                let rec = run_exec(&sc, &cfg.exec, &work.prefix, work.expect_hash);
                let mut local_err = None;
                if let Some(d) = &rec.diverged {
                    local_err = Some(format!(
                        "nondeterminism: {} (scenario {}, prefix {:?})",
                        d, cfg.name, work.prefix
                    ));
                }
                // determinism proof obligation
                let mut replays = 0;
                let is_viol = rec.outcome.violations.iter().any(|v| !(cfg.known)(&v.key));
                if (n_exec as usize) < cfg.det_replays || is_viol {
                    let choices: Vec<u16> = rec.trace.iter().map(|c| c.chosen).collect();
                    let rec2 = run_exec(&sc, &cfg.exec, &choices, 0);
                    replays = 1;
                    if rec2.trace != rec.trace || rec2.outcome.obs != rec.outcome.obs {
                        local_err = Some(format!(
                            "nondeterminism: replay of the same choice vector differs (scenario {}, choices {:?}): traces equal={}, obs equal={}\nfirst:  {}\nsecond: {}",
                            cfg.name,
                            choices,
                            rec2.trace == rec.trace,
                            rec2.outcome.obs == rec.outcome.obs,
                            rec.outcome.obs,
                            rec2.outcome.obs
                        ));
                    }
                }
                // children
                let mut children = vec![];
                if work.devs < cfg.bound && local_err.is_none() {
                    let mut h = 0u64;
                    let base: Vec<u16> = rec.trace.iter().map(|c| c.chosen).collect();
                    for (i, c) in rec.trace.iter().enumerate() {
                        h = mix(h, c.site, c.n);
                        if i < work.prefix.len() {
                            continue;
                        }
                        for alt in 1..c.n {
                            let mut p = base[..i].to_vec();
                            p.push(alt);
                            children.push(Work { prefix: p, expect_hash: h, devs: work.devs + 1 });
                        }
                    }
                    children.reverse();
                }
                // stats
                {
                    let th = hash_of(&rec.trace);
                    let oh = hash_of(&rec.outcome.obs);
                    let new_trace = shared.traces.lock().unwrap().insert(th);
                    let new_obs = shared.obs.lock().unwrap().insert(oh);
                    let mut st = shared.stats.lock().unwrap();
                    st.executions += 1;
                    st.transitions += rec.trace.len() as u64;
                    let shared_len = work.prefix.len().saturating_sub(1);
                    st.tree_nodes += (rec.trace.len().saturating_sub(shared_len)) as u64
                        + if work.prefix.is_empty() { 1 } else { 0 };
                    *st.by_devs.entry(work.devs).or_default() += 1;
                    let l = rec.trace.len();
                    if st.sites_min == 0 || l < st.sites_min {
                        st.sites_min = l;
                    }
                    st.sites_max = st.sites_max.max(l);
                    st.sites_sum += l as u64;
                    if new_trace {
                        st.distinct_traces += 1;
                        if work.devs > 0 && shared.nontrivial.lock().unwrap().insert(th) {
                            st.distinct_nontrivial += 1;
                        }
                    }
                    if new_obs {
                        st.distinct_obs += 1;
                    }
                    for c in &rec.trace {
                        st.sites_hit.insert(c.site);
                        if c.chosen != 0 {
                            st.sites_deviated.insert(c.site);
                        }
                    }
                    st.det_replays += replays;
                    if st.sample_traces.len() < 3 && work.devs == cfg.bound.min(1) {
                        st.sample_traces
                            .push(format!("{} :: {}", cfg.name, fmt_trace(&rec.trace)));
                    }
                    for v in rec.outcome.violations.iter().filter(|v| (cfg.known)(&v.key)) {
                        let fv = FoundViolation {
                            scenario: cfg.name.clone(),
                            key: v.key.clone(),
                            detail: v.detail.clone(),
                            choices: rec.trace.iter().map(|c| c.chosen).collect(),
                            trace_sites: vec![],
                            obs: rec.outcome.obs.clone(),
                            deviations: work.devs,
                        };
                        st.known_hits.entry(v.key.clone()).or_insert((0, fv)).0 += 1;
                    }
                    if is_viol {
                        for v in rec.outcome.violations.iter().filter(|v| !(cfg.known)(&v.key)) {
                            st.violations.push(FoundViolation {
                                scenario: cfg.name.clone(),
                                key: v.key.clone(),
                                detail: v.detail.clone(),
                                choices: rec.trace.iter().map(|c| c.chosen).collect(),
                                trace_sites: rec
                                    .trace
                                    .iter()
                                    .filter(|c| c.chosen != 0)
                                    .map(|c| format!("{}={}/{}", c.site, c.chosen, c.n))
                                    .collect(),
                                obs: rec.outcome.obs.clone(),
                                deviations: work.devs,
                            });
                        }
                        let distinct_keys: HashSet<&str> =
                            st.violations.iter().map(|v| v.key.as_str()).collect();
                        if st.violations.len() >= cfg.max_violations * distinct_keys.len().max(1) {
                            st.capped = true;
                            st.cap_reason = "stopped after enough violating executions".into();
                            shared.stop.store(true, Ordering::SeqCst);
                        }
                    }
                    if local_err.is_some() {
                        st.divergences += 1;
                    }
                    if st.executions >= cfg.max_execs || start.elapsed() > cfg.time_cap {
                        if !st.capped {
                            st.capped = true;
                            st.cap_reason = format!(
                                "cap hit: executions={} elapsed={:?}",
                                st.executions,
                                start.elapsed()
                            );
                        }
                        shared.stop.store(true, Ordering::SeqCst);
                    }
                }
                if let Some(e) = local_err {
                    *merr.lock().unwrap() = Some(e);
                    shared.stop.store(true, Ordering::SeqCst);
                }
                {
                    let mut g = shared.stack.lock().unwrap();
                    // a violating execution's subtree is not expanded further
                    if !is_viol {
                        g.0.extend(children);
                    }
                    g.1 -= 1;
                    shared.cv.notify_all();
                }
            }
        }));
    }
    for h in handles {
        let _ = h.join();
    }
    shared.cv.notify_all();
    if let Some(e) = machinery_err.lock().unwrap().take() {
        return Err(e);
    }
    let mut st = shared.stats.lock().unwrap().clone();
    st.scenarios = 1;
    if !st.capped {
        st.bound_completed = Some(cfg.bound);
    } else {
        // largest bound b such that no work of deviation count <= b was left: unknown
        // under DFS; report conservatively.
        st.bound_completed = None;
    }
    Ok(st)
}

/// Iterative deepening on the deviation bound: 0, 1, .., bound. Returns the
/// stats of the largest completed bound (the smaller ones are subsets).
pub fn explore_iterative(sc: &ScenarioFn, cfg: &ExploreCfg) -> Result<ExploreStats, String> {
    let start = Instant::now();
    let mut best: Option<ExploreStats> = None;
    for b in 0..=cfg.bound {
        let mut c = cfg.clone();
        c.bound = b;
        c.time_cap = cfg.time_cap.saturating_sub(start.elapsed());
        if b < cfg.bound {
            c.det_replays = cfg.det_replays.min(3);
        }
        let st = explore(sc, &c)?;
        let has_viol = !st.violations.is_empty();
        if st.capped && !has_viol {
            // keep the last completed bound, but remember the cap
            if let Some(mut p) = best.take() {
                p.capped = true;
                p.cap_reason = format!("bound {} not completed: {}", b, st.cap_reason);
                return Ok(p);
            }
            return Ok(st);
        }
        best = Some(st);
        if has_viol {
            break;
        }
    }
    Ok(best.unwrap())
}

/// Explore many scenarios, parallel over scenarios (outer) and, when there are
/// few of them, also inside each exploration. Returns per-scenario results in input order.
pub fn explore_many(
    items: Vec<(ScenarioFn, ExploreCfg)>,
    total_workers: usize,
) -> Vec<Result<ExploreStats, String>> {
    explore_many_opt(items, total_workers, true, None)
}

/// `iterative`: deepen 0..=bound per item; otherwise explore exactly at the item's bound.
/// `deadline`: global real-time deadline; an item started after it gets a zero budget (reported as capped).
pub fn explore_many_opt(
    items: Vec<(ScenarioFn, ExploreCfg)>,
    total_workers: usize,
    iterative: bool,
    deadline: Option<Instant>,
) -> Vec<Result<ExploreStats, String>> {
    let n = items.len();
    if n == 0 {
        return vec![];
    }
    let outer = total_workers.min(n).max(1);
    let inner = (total_workers / outer).max(1);
    let items = Arc::new(items);
    let next = Arc::new(AtomicU64::new(0));
    let results: Arc<Mutex<Vec<Option<Result<ExploreStats, String>>>>> =
        Arc::new(Mutex::new((0..n).map(|_| None).collect()));
    let mut hs = vec![];
    for _ in 0..outer {
        let items = items.clone();
        let next = next.clone();
        let results = results.clone();
        hs.push(std::thread::spawn(move || {
            loop {
                let i = next.fetch_add(1, Ordering::SeqCst) as usize;
                if i >= items.len() {
                    return;
                }
                let (sc, cfg) = &items[i];
                let mut cfg = cfg.clone();
                cfg.workers = inner;
                if let Some(d) = deadline {
                    cfg.time_cap = cfg.time_cap.min(d.saturating_duration_since(Instant::now()));
                }
                let r = if iterative { explore_iterative(sc, &cfg) } else { explore(sc, &cfg) };
                results.lock().unwrap()[i] = Some(r);
            }
        }));
    }
    for h in hs {
        let _ = h.join();
    }
    let mut g = results.lock().unwrap();
    g.drain(..).map(|r| r.unwrap_or_else(|| Err("worker died".into()))).collect()
}
