//! Generic driver for lists of DX scenarios, and replay of a recorded violation.

use crate::ctl::{ExecCfg, ExploreCfg, ScenarioFn, fmt_trace, run_exec};
use crate::report::{Report, Tier};
use serde_json::{Value, json};
use std::time::Duration;

pub struct DxItem {
    pub params: Value,
    pub sc: ScenarioFn,
    pub bound: usize,
    pub exec: ExecCfg,
}

impl DxItem {
    pub fn new(params: Value, sc: ScenarioFn, bound: usize) -> Self {
        DxItem { params, sc, bound, exec: ExecCfg::default() }
    }
}

pub struct DxOpts {
    pub time_cap: Duration,
    pub det_replays: usize,
    pub max_violations: usize,
    pub vacuity_check: bool,
}

pub fn run_items(rep: &mut Report, prop: &str, tier: Tier, items: Vec<DxItem>, opts: DxOpts) {
    run_items_workers(rep, prop, tier, items, opts, 16)
}

/// `workers` = 1 for scenarios that touch process-global state of the subject (executions must not overlap).
pub fn run_items_workers(rep: &mut Report, prop: &str, tier: Tier, items: Vec<DxItem>, opts: DxOpts, workers: usize) {
    // Iterative deepening ACROSS items under one global budget (opts.time_cap): pass k explores every
    // item whose bound is >= k at deviation bound exactly k (which includes everything below); the
    // deepest completed pass of each item is what is reported, so a cap costs depth, never breadth.
    let deadline = std::time::Instant::now() + opts.time_cap;
    let maxb = items.iter().map(|i| i.bound).max().unwrap_or(0);
    let mut best: Vec<Option<crate::ctl::ExploreStats>> = (0..items.len()).map(|_| None).collect();
    let mut capped_at: Vec<Option<(usize, String)>> = (0..items.len()).map(|_| None).collect();
    let mut done: Vec<bool> = vec![false; items.len()];
    for k in 0..=maxb {
        // pass k: items not finished yet whose requested bound reaches k; the final pass of an item is k == its bound
        let idxs: Vec<usize> = (0..items.len()).filter(|i| !done[*i] && items[*i].bound >= k).collect();
        let mut work = vec![];
        for &i in &idxs {
            let it = &items[i];
            let mut cfg = ExploreCfg::new(format!("{}#{}#{} {}", prop, tier.name(), i, it.params), k);
            cfg.time_cap = opts.time_cap;
            cfg.known = rep.known_fn();
            cfg.det_replays = if k == it.bound { opts.det_replays } else { 1 };
            cfg.max_violations = opts.max_violations;
            cfg.exec = it.exec.clone();
            work.push((it.sc.clone(), cfg));
        }
        if work.is_empty() {
            continue;
        }
        let results = crate::ctl::explore_many_opt(work, workers, false, Some(deadline));
        for (&i, r) in idxs.iter().zip(results) {
            match r {
                Ok(st) => {
                    let has_viol = !st.violations.is_empty();
                    if st.capped && !has_viol {
                        capped_at[i] = Some((k, st.cap_reason.clone()));
                        done[i] = true;
                        if best[i].is_none() {
                            best[i] = Some(st);
                        }
                    } else {
                        best[i] = Some(st);
                        if has_viol || k == items[i].bound {
                            done[i] = true;
                        }
                    }
                }
                Err(e) => {
                    rep.machinery(e);
                    done[i] = true;
                }
            }
        }
    }
    let mut min_completed: Option<usize> = None;
    for (i, it) in items.iter().enumerate() {
        let Some(mut st) = best[i].take() else { continue };
        if let Some((k, why)) = &capped_at[i] {
            st.capped = true;
            st.cap_reason = format!("{}: bound {} of {} not completed within the global budget ({})", it.params, k, it.bound, why);
            st.bound_completed = if *k == 0 { None } else { Some(k - 1) };
        }
        if it.bound > 0 {
            let c = st.bound_completed.unwrap_or(0);
            min_completed = Some(min_completed.map(|m: usize| m.min(c)).unwrap_or(c));
        }
        if opts.vacuity_check && st.distinct_obs < 2 && st.executions > 100 {
            rep.machinery(format!("vacuous scenario {}: one observation from {} executions", it.params, st.executions));
        }
        if it.bound == 0 {
            // a B=0 item is one enumerated case of its grid: count it as a distinct case
            use std::hash::{Hash, Hasher};
            let mut h = std::collections::hash_map::DefaultHasher::new();
            it.params.to_string().hash(&mut h);
            rep.nontrivial.insert(h.finish());
        }
        if it.bound > 0 {
            rep.sample(json!({"scenario": it.params, "bound_requested": it.bound, "bound_completed": st.bound_completed, "executions": st.executions, "distinct_observations": st.distinct_obs}));
        }
        rep.absorb_dx(&st, it.params.clone());
    }
    rep.sections.insert("dx_scenarios".into(), json!(items.len()));
    rep.sections.insert("dx_min_bound_completed_over_deep_scenarios".into(), json!(min_completed));
}

/// Re-run exactly one recorded execution without the explorer and print what happens.
pub fn replay(file: &str, items_for: impl Fn(Tier) -> Vec<DxItem>) -> i32 {
    let text = match std::fs::read_to_string(file) {
        Ok(t) => t,
        Err(e) => {
            eprintln!("cannot read {file}: {e}");
            return 2;
        }
    };
    let v: Value = serde_json::from_str(&text).expect("replay json");
    let r = &v["replay"];
    let name = r["scenario"].as_str().unwrap_or("");
    let head = name.split(' ').next().unwrap_or("");
    let parts: Vec<&str> = head.split('#').collect();
    if parts.len() != 3 {
        eprintln!("replay file does not name a DX scenario: {name}");
        return 2;
    }
    let tier = if parts[1] == "thorough" { Tier::Thorough } else { Tier::Quick };
    let idx: usize = parts[2].parse().unwrap_or(usize::MAX);
    let items = items_for(tier);
    let Some(it) = items.get(idx) else {
        eprintln!("scenario index {idx} out of range");
        return 2;
    };
    let choices: Vec<u16> = r["choices"]
        .as_array()
        .map(|a| a.iter().map(|x| x.as_u64().unwrap_or(0) as u16).collect())
        .unwrap_or_default();
    println!("replaying {} with {} choices", name, choices.len());
    let rec = run_exec(&it.sc, &it.exec, &choices, 0);
    let rec2 = run_exec(&it.sc, &it.exec, &choices, 0);
    println!("trace: {}", fmt_trace(&rec.trace));
    println!("observation: {}", rec.outcome.obs);
    for n in &rec.notes {
        println!("note: {n}");
    }
    if rec.trace != rec2.trace || rec.outcome.obs != rec2.outcome.obs {
        println!("MACHINERY: two replays of the same choice vector differ");
        return 2;
    }
    if let Some(d) = rec.diverged {
        println!("MACHINERY: replay diverged: {d}");
        return 2;
    }
    if rec.outcome.violations.is_empty() {
        println!("no violation on this tree for the recorded execution");
        return 0;
    }
    for vv in &rec.outcome.violations {
        println!("VIOLATION property={} replay={}", v["property"].as_str().unwrap_or("?"), file);
        println!("  key={} :: {}", vv.key, vv.detail);
    }
    1
}
