#![allow(dead_code)]
//! vcheck — model-checking harness for anytls-rs (see /verif/DESIGN.md).

mod ctl;
mod cworld;
mod det;
mod lx;
mod dxrun;
mod par;
mod props;
mod refmodel;
mod report;
mod selftest;
mod semi;
mod sess;
mod vpipe;

use report::Tier;

fn usage() -> ! {
    eprintln!("usage: vcheck <C01..C20|selftest> [--tier quick|thorough] [--replay <file>]");
    std::process::exit(2);
}

fn main() {
    let args: Vec<String> = std::env::args().collect();
    if args.len() < 2 {
        usage();
    }
    let id = args[1].clone();
    if id == "__c19child" {
        let _ = det::self_exe();
    det::install_panic_hook(true);
        let code = props::c19::child(args.get(2).map(|s| s.as_str()).unwrap_or(""));
        std::process::exit(code);
    }
    if id == "__padchild" {
        det::install_panic_hook(false);
        let code = props::pad::pad_child(&args[2], args[3].parse().unwrap_or(0));
        std::process::exit(code);
    }
    let mut tier = match std::env::var("VERIF_TIER").ok().as_deref() {
        Some("thorough") => Tier::Thorough,
        _ => Tier::Quick,
    };
    let mut replay: Option<String> = None;
    let mut i = 2;
    while i < args.len() {
        match args[i].as_str() {
            "--tier" => {
                i += 1;
                tier = match args.get(i).map(|s| s.as_str()) {
                    Some("quick") => Tier::Quick,
                    Some("thorough") => Tier::Thorough,
                    _ => usage(),
                };
            }
            "--replay" => {
                i += 1;
                replay = args.get(i).cloned();
            }
            _ => usage(),
        }
        i += 1;
    }
    det::install_panic_hook(std::env::var("VCHECK_PANIC_VERBOSE").is_err());
    if let Some(file) = replay.clone() {
        // DX replay files carry a choice vector; every other engine's file names the case: the check is re-run in a scratch
        // output directory (with no finding listed as known) and reports whether the recorded key shows up again
        let text = std::fs::read_to_string(&file).unwrap_or_default();
        let v: serde_json::Value = serde_json::from_str(&text).unwrap_or(serde_json::Value::Null);
        if v["replay"]["choices"].is_null() {
            let Some(key) = v["key"].as_str() else {
                eprintln!("{file}: not a replay file");
                std::process::exit(2);
            };
            let out = format!("{}/scratch/replay-{}", report::verif_dir(), std::process::id());
            let _ = std::fs::create_dir_all(format!("{out}/evidence"));
            let _ = std::fs::create_dir_all(format!("{out}/replays"));
            let _ = std::fs::write(format!("{out}/KNOWN_FINDINGS.json"), "{\"comment\": \"replay\", \"findings\": []}");
            // SAFETY: single-threaded at this point
            unsafe {
                std::env::set_var("VERIF_OUT", &out);
                std::env::set_var("VCHECK_REPLAY_KEY", key);
            }
            println!("REPLAY: re-running {id} ({:?}) for key {key}; recorded detail: {}", tier, v["detail"].as_str().unwrap_or(""));
            replay = None;
        }
    }
    if let Some(file) = replay {
        let code = match id.as_str() {
            "C01" => props::c01::replay(&file),
            "C02" => props::c02::replay(&file),
            "C05" => props::pad::replay_c05(&file),
            "C08" => props::c08::replay(&file),
            "C09" => props::c09::replay(&file),
            "C10" => props::c10::replay(&file),
            "C11" => props::c11::replay(&file),
            "C12" => props::c12::replay(&file),
            "C14" => props::c14::replay(&file),
            _ => {
                eprintln!("replay is not supported for {id}");
                2
            }
        };
        std::process::exit(code);
    }
    // a subject that poisons its own process-global state can take the checker's main thread down with it: whatever
    // was already reported stands (exit 1 if a VIOLATION line was printed, 2 otherwise)
    let id2 = id.clone();
    let code = std::panic::catch_unwind(move || run_check(&id2, tier)).unwrap_or_else(|_| {
        if report::VIOLATION_PRINTED.load(std::sync::atomic::Ordering::SeqCst) {
            eprintln!("MACHINERY: the checker's main thread panicked after reporting a violation; the violation stands");
            1
        } else {
            eprintln!("MACHINERY: the checker's main thread panicked: {}", det::take_panics().1.unwrap_or_default());
            2
        }
    });
    std::process::exit(code);
}

fn run_check(id: &str, tier: Tier) -> i32 {
    match id {
        "selftest" => selftest::run(),
        "C01" => props::c01::run(tier),
        "C02" => props::c02::run(tier),
        "C03" => props::c03::run(tier),
        "C04" => props::pad::run_c04(tier),
        "C05" => props::pad::run_c05(tier),
        "C06" => props::c06::run(tier),
        "C07" => props::c07::run(tier),
        "C08" => props::c08::run(tier),
        "C09" => props::c09::run(tier),
        "C10" => props::c10::run(tier),
        "C11" => props::c11::run(tier),
        "C12" => props::c12::run(tier),
        "C13" => props::c13::run(tier),
        "C14" => props::c14::run(tier),
        "C15" => props::c15::run(tier),
        "C16" => props::c16::run(tier),
        "C17" => props::c17::run(tier),
        "C18" => props::c18::run(tier),
        "C19" => props::c19::run(tier),
        "C20" => props::c20::run(tier),
        _ => {
            eprintln!("unknown check {id}");
            2
        }
    }
}
