//! C15 — UDP datagrams keep their boundaries and contents through the tunnel.
//! IX in SEMI mode: real loopback UDP sockets, lock-step; hand-built streams for
//! the fragmentation sweeps; end to end through create_udp_proxy.

use crate::report::{Report, Tier};
use crate::semi::*;
use crate::sess::*;
use crate::vpipe::PipeCfg;
use anytls_rs::client::verif_udp_proxy_loop;
use anytls_rs::server::{StreamHandler, TcpProxyHandler, handle_udp_over_tcp};
use anytls_rs::session::{Stream, StreamReader};
use bytes::Bytes;
use serde_json::json;
use std::net::SocketAddr;
use std::sync::Arc;
use std::time::Duration;
use tokio::net::UdpSocket;
use tokio::sync::mpsc;

fn dgram(seed: u32, len: usize) -> Vec<u8> {
    (0..len).map(|i| ((i as u32).wrapping_mul(2246822519).wrapping_add(seed.wrapping_mul(97)) >> 9) as u8).collect()
}

async fn recv_one(sock: &UdpSocket, ms: u64) -> Option<(Vec<u8>, SocketAddr)> {
    let mut buf = vec![0u8; 65536];
    match tokio::time::timeout(Duration::from_millis(ms), sock.recv_from(&mut buf)).await {
        Ok(Ok((n, a))) => Some((buf[..n].to_vec(), a)),
        _ => None,
    }
}

fn initial_request(target: SocketAddr) -> Vec<u8> {
    let mut v = vec![1u8];
    match target {
        SocketAddr::V4(a) => {
            v.push(1);
            v.extend_from_slice(&a.ip().octets());
        }
        SocketAddr::V6(a) => {
            v.push(4);
            v.extend_from_slice(&a.ip().octets());
        }
    }
    v.extend_from_slice(&target.port().to_be_bytes());
    v
}

fn framed(d: &[u8]) -> Vec<u8> {
    let mut v = (d.len() as u16).to_be_bytes().to_vec();
    v.extend_from_slice(d);
    v
}

/// A hand-built stream: (stream, feeder of inbound chunks, receiver of outbound chunks)
fn hand_stream(id: u32) -> (Arc<Stream>, mpsc::UnboundedSender<Bytes>, mpsc::UnboundedReceiver<(u32, Bytes)>) {
    let (out_tx, out_rx) = mpsc::unbounded_channel();
    let (in_tx, in_rx) = mpsc::unbounded_channel();
    let (st, _syn) = Stream::new(id, StreamReader::new(id, in_rx), out_tx);
    (Arc::new(st), in_tx, out_rx)
}

/// Collect outbound chunks until `n` complete length-prefixed datagrams have been seen (or timeout).
async fn collect_framed(rx: &mut mpsc::UnboundedReceiver<(u32, Bytes)>, n: usize, ms: u64) -> Vec<Vec<u8>> {
    let mut acc: Vec<u8> = vec![];
    let mut out = vec![];
    let deadline = tokio::time::Instant::now() + Duration::from_millis(ms);
    loop {
        while acc.len() >= 2 {
            let l = u16::from_be_bytes([acc[0], acc[1]]) as usize;
            if acc.len() < 2 + l {
                break;
            }
            out.push(acc[2..2 + l].to_vec());
            acc.drain(..2 + l);
        }
        if out.len() >= n {
            return out;
        }
        match tokio::time::timeout_at(deadline, rx.recv()).await {
            Ok(Some((_, b))) => acc.extend_from_slice(&b),
            _ => return out,
        }
    }
}

// ---------------------------------------------------------------- server side, hand-built stream

async fn server_fragmentation(rep: &mut Report, thorough: bool) {
    let target = UdpSocket::bind("127.0.0.1:0").await.unwrap();
    let taddr = target.local_addr().unwrap();
    // byte streams of 2 and 3 datagrams, every 1-cut and 2-cut split (including cuts inside the initial request)
    let sets: Vec<Vec<Vec<u8>>> = vec![
        vec![dgram(1, 1), dgram(2, 3)],
        vec![dgram(3, 5), dgram(4, 1), dgram(5, 2)],
        vec![dgram(6, 255), dgram(7, 256)],
    ];
    for (si, set) in sets.iter().enumerate() {
        let mut bytes = initial_request(taddr);
        for d in set {
            bytes.extend_from_slice(&framed(d));
        }
        let n = bytes.len();
        let mut cutsets: Vec<Vec<usize>> = vec![vec![]];
        if n <= 48 {
            for a in 1..n {
                cutsets.push(vec![a]);
                for b in a + 1..n {
                    if thorough || (a + b) % 2 == 0 {
                        cutsets.push(vec![a, b]);
                    }
                }
            }
            cutsets.push((1..n).collect());
        } else {
            for a in [1usize, 2, 3, 8, 9, 10, 11, 12, 265, 266, 267, 268, 269, n - 1] {
                if a < n {
                    cutsets.push(vec![a]);
                }
            }
        }
        for cuts in cutsets {
            let name = format!("server set {si} cuts {:?}", if cuts.len() > 6 { &cuts[..6] } else { &cuts[..] });
            rep.case(Some(&name));
            let (st, feed, _out) = hand_stream(9);
            let h = tokio::spawn(handle_udp_over_tcp(st));
            let mut prev = 0;
            for &c in cuts.iter().chain(std::iter::once(&n)) {
                let _ = feed.send(Bytes::copy_from_slice(&bytes[prev..c]));
                prev = c;
            }
            let mut got = vec![];
            for _ in 0..set.len() {
                match recv_one(&target, 1500).await {
                    Some((d, _)) => got.push(d),
                    None => break,
                }
            }
            // nothing extra
            if let Some((d, _)) = recv_one(&target, 20).await {
                got.push(d);
            }
            if got != *set {
                let k = if got.len() < set.len() { "C15:datagram-lost-or-merged" } else if got.len() > set.len() { "C15:datagram-split-or-duplicated" } else { "C15:datagram-altered" };
                rep.violation(k, &format!("{name}: target received datagrams of sizes {:?}, sent {:?}", got.iter().map(|d| d.len()).collect::<Vec<_>>(), set.iter().map(|d| d.len()).collect::<Vec<_>>()), json!({"engine": "SEMI", "side": "server", "cuts": cuts}));
            }
            drop(feed);
            h.abort();
        }
    }
}

/// A send that FAILS for one datagram must not hurt the next ones. The target's port is closed when the first
/// datagram is relayed (loopback answers with ICMP port-unreachable, which a connected UDP socket reports as
/// ECONNREFUSED on a later call); then the target starts listening: every later datagram arrives exactly once, whole.
/// (A datagram longer than UDP allows cannot come from a local application — the relay may end the association on it;
/// that is C20's ground, not C15's.)
async fn server_send_errors(rep: &mut Report) {
    // reserve a port, then close it
    let probe = UdpSocket::bind("127.0.0.1:0").await.unwrap();
    let taddr = probe.local_addr().unwrap();
    drop(probe);
    let (st, feed, _out) = hand_stream(13);
    let h = tokio::spawn(handle_udp_over_tcp(st));
    let _ = feed.send(Bytes::from(initial_request(taddr)));
    rep.case(Some("server side: target port closed for the first datagram"));
    let lost = dgram(3000, 30);
    let _ = feed.send(Bytes::from(framed(&lost)));
    tokio::time::sleep(Duration::from_millis(150)).await;
    let second_lost = dgram(3001, 31);
    let _ = feed.send(Bytes::from(framed(&second_lost)));
    tokio::time::sleep(Duration::from_millis(150)).await;
    let Ok(target) = UdpSocket::bind(taddr).await else {
        rep.observe("could not re-bind the reserved UDP port; send-error case skipped".to_string());
        h.abort();
        return;
    };
    let mut want = vec![];
    for k in 0..4u32 {
        let d = dgram(3100 + k, 40 + k as usize);
        let _ = feed.send(Bytes::from(framed(&d)));
        want.push(d);
        tokio::time::sleep(Duration::from_millis(30)).await;
    }
    let mut got = vec![];
    while let Some((d, _)) = recv_one(&target, 600).await {
        got.push(d);
        if got.len() > 8 {
            break;
        }
    }
    // the datagrams sent while the port was closed are legitimately gone; the first one sent afterwards may be
    // consumed by the pending error report of a connected socket — but not more than that, and nothing is altered
    let tail: Vec<Vec<u8>> = got.iter().filter(|d| want.contains(d)).cloned().collect();
    let strays: Vec<usize> = got.iter().filter(|d| !want.contains(d) && **d != lost && **d != second_lost).map(|d| d.len()).collect();
    if !strays.is_empty() {
        rep.violation("C15:datagram-altered", &format!("server side, after a failed send: the target received datagrams of sizes {:?} that were never sent in that form", strays), json!({"engine": "SEMI", "side": "server", "case": "send-error"}));
    }
    if tail.len() + 1 < want.len() || (tail.len() < want.len() && tail != want[1..].to_vec()) {
        rep.violation("C15:datagrams-lost-after-a-failed-send", &format!("server side: the target's port was closed for the first two datagrams (ICMP port-unreachable), then the target listened and 4 datagrams of sizes {:?} were sent: {:?} arrived", want.iter().map(|d| d.len()).collect::<Vec<_>>(), got.iter().map(|d| d.len()).collect::<Vec<_>>()), json!({"engine": "SEMI", "side": "server", "case": "send-error"}));
    }
    let mut seen = std::collections::HashSet::new();
    if got.iter().any(|d| !seen.insert(d.clone())) {
        rep.violation("C15:datagram-split-or-duplicated", "server side, after a failed send: a datagram arrived twice", json!({"engine": "SEMI", "side": "server", "case": "send-error"}));
    }
    drop(feed);
    h.abort();
}

async fn server_sizes(rep: &mut Report, sizes: &[usize]) {
    let target = UdpSocket::bind("127.0.0.1:0").await.unwrap();
    let taddr = target.local_addr().unwrap();
    let (st, feed, mut out) = hand_stream(3);
    let h = tokio::spawn(handle_udp_over_tcp(st));
    let _ = feed.send(Bytes::from(initial_request(taddr)));
    let mut relay_addr: Option<SocketAddr> = None;
    for (i, &len) in sizes.iter().enumerate() {
        rep.case(if i % 64 == 0 || len > 65000 || len < 4 { Some("size") } else { None });
        rep.nontrivial.insert(0x1500_0000 + len as u64);
        let d = dgram(len as u32, len);
        let _ = feed.send(Bytes::from(framed(&d)));
        match recv_one(&target, 2000).await {
            Some((got, from)) => {
                relay_addr = Some(from);
                if got != d {
                    let k = if got.len() != d.len() { "C15:datagram-truncated-or-merged" } else { "C15:datagram-altered" };
                    rep.violation(k, &format!("server side, size {len}: target received {} bytes", got.len()), json!({"engine": "SEMI", "side": "server", "size": len}));
                }
            }
            None => {
                rep.violation("C15:datagram-lost", &format!("server side, size {len}: nothing arrived at the target"), json!({"engine": "SEMI", "side": "server", "size": len}));
                break;
            }
        }
        // and back: the target answers with a datagram of the same size
        if let Some(ra) = relay_addr {
            let back = dgram(len as u32 ^ 0xffff, len);
            if target.send_to(&back, ra).await.is_ok() {
                let got = collect_framed(&mut out, 1, 2000).await;
                if got.len() != 1 || got[0] != back {
                    rep.violation("C15:return-datagram-not-identical", &format!("server side, size {len}: the tunnel carried {:?} for one returned datagram of {len} bytes", got.iter().map(|d| d.len()).collect::<Vec<_>>()), json!({"engine": "SEMI", "side": "server", "size": len}));
                }
            }
        }
    }
    // bursts in both directions
    if let Some(ra) = relay_addr {
        for burst in [vec![1usize, 2, 3], vec![300, 5, 300, 5], vec![1400, 1400, 1, 1400], vec![9000, 10, 9000], vec![255, 256, 257, 65, 1]] {
            rep.case(Some(&format!("server side, burst {:?}", burst)));
            let ds: Vec<Vec<u8>> = burst.iter().enumerate().map(|(i, l)| dgram(4000 + i as u32 * 7 + *l as u32, *l)).collect();
            let mut all = vec![];
            for d in &ds {
                all.extend_from_slice(&framed(d));
            }
            let _ = feed.send(Bytes::from(all));
            let mut got = vec![];
            for _ in 0..ds.len() {
                match recv_one(&target, 1500).await {
                    Some((d, _)) => got.push(d),
                    None => break,
                }
            }
            if got != ds {
                rep.violation("C15:datagram-lost-or-merged", &format!("server side, {} datagrams of sizes {:?} in one stream chunk: the target received sizes {:?}", ds.len(), burst, got.iter().map(|x| x.len()).collect::<Vec<_>>()), json!({"engine": "SEMI", "side": "server", "burst": burst}));
                break;
            }
            for d in &ds {
                let _ = target.send_to(d, ra).await;
            }
            let back = collect_framed(&mut out, ds.len(), 2000).await;
            if back != ds {
                rep.violation("C15:return-datagrams-merged-or-split", &format!("server side, burst of datagrams of sizes {:?} returned back-to-back by the target: the tunnel carried sizes {:?}", burst, back.iter().map(|x| x.len()).collect::<Vec<_>>()), json!({"engine": "SEMI", "side": "server", "burst": burst}));
                break;
            }
        }
    }
    drop(feed);
    h.abort();
}

// ---------------------------------------------------------------- target address shapes

/// The same loopback target named in every way an initial request can name it (IPv4, IPv4-mapped IPv6, IPv6 loopback,
/// a domain name): datagrams reach it and its replies come back.
async fn server_target_shapes(rep: &mut Report) {
    let t4 = UdpSocket::bind("127.0.0.1:0").await.unwrap();
    let p4 = t4.local_addr().unwrap().port();
    let t6 = UdpSocket::bind("[::1]:0").await.ok();
    let mut shapes: Vec<(String, Vec<u8>, bool)> = vec![];
    shapes.push(("IPv4 127.0.0.1".into(), initial_request(SocketAddr::new("127.0.0.1".parse().unwrap(), p4)), false));
    shapes.push(("IPv4-mapped ::ffff:127.0.0.1".into(), initial_request(SocketAddr::new("::ffff:127.0.0.1".parse().unwrap(), p4)), false));
    {
        let mut v = vec![1u8, 3, 9];
        v.extend_from_slice(b"localhost");
        v.extend_from_slice(&p4.to_be_bytes());
        shapes.push(("domain localhost".into(), v, false));
    }
    if let Some(s6) = &t6 {
        shapes.push(("IPv6 ::1".into(), initial_request(s6.local_addr().unwrap()), true));
    }
    for (si, (name, req, v6)) in shapes.into_iter().enumerate() {
        let sock = if v6 { t6.as_ref().unwrap() } else { &t4 };
        let (st, feed, mut out) = hand_stream(40 + si as u32);
        let h = tokio::spawn(handle_udp_over_tcp(st));
        let _ = feed.send(Bytes::from(req));
        for k in 0..3u32 {
            rep.case(Some(&format!("server side, target named as {name}, datagram {k}")));
            let d = dgram(7000 + si as u32 * 10 + k, 1 + 700 * k as usize);
            let _ = feed.send(Bytes::from(framed(&d)));
            let Some((got, from)) = recv_one(sock, 1500).await else {
                // "localhost" may resolve to ::1 first: then the IPv4 socket legitimately sees nothing
                if name == "domain localhost" {
                    break;
                }
                rep.violation("C15:datagram-lost", &format!("server side, target named as {name}: datagram {k} ({} bytes) never reached the target", d.len()), json!({"engine": "SEMI", "side": "server", "target_shape": name}));
                break;
            };
            if got != d {
                rep.violation("C15:datagram-altered", &format!("server side, target named as {name}: datagram {k} arrived as {} bytes", got.len()), json!({"engine": "SEMI", "side": "server", "target_shape": name}));
                break;
            }
            let back = dgram(7500 + si as u32 * 10 + k, 2 + 300 * k as usize);
            let _ = sock.send_to(&back, from).await;
            let r = collect_framed(&mut out, 1, 1500).await;
            if r.len() != 1 || r[0] != back {
                rep.violation("C15:return-datagram-not-identical", &format!("server side, target named as {name}: the reply to datagram {k} came back as {:?}", r.iter().map(|x| x.len()).collect::<Vec<_>>()), json!({"engine": "SEMI", "side": "server", "target_shape": name}));
                break;
            }
        }
        drop(feed);
        h.abort();
    }
}

// ---------------------------------------------------------------- several associations at once

/// Two (three) concurrent associations on one server, to the same target and to different targets: every reply comes
/// back on the association whose datagram it answers. Associations to one target must use distinct relay sockets
/// (otherwise the target's replies cannot be told apart at all).
async fn concurrent_associations(rep: &mut Report) {
    let t1 = UdpSocket::bind("127.0.0.1:0").await.unwrap();
    let t2 = UdpSocket::bind("127.0.0.1:0").await.unwrap();
    let (a1, a2) = (t1.local_addr().unwrap(), t2.local_addr().unwrap());
    // associations: A -> t1, B -> t1 (same target), C -> t2
    let targets = [a1, a1, a2];
    let mut feeds = vec![];
    let mut outs = vec![];
    let mut tasks = vec![];
    for (i, t) in targets.iter().enumerate() {
        let (st, feed, out) = hand_stream(20 + i as u32);
        tasks.push(tokio::spawn(handle_udp_over_tcp(st)));
        let _ = feed.send(Bytes::from(initial_request(*t)));
        feeds.push(feed);
        outs.push(out);
    }
    let names = ["A", "B", "C"];
    let mut relay: Vec<Option<SocketAddr>> = vec![None; 3];
    for round in 0..4u32 {
        for who in [0usize, 1, 2, 1, 0] {
            rep.case(Some(&format!("concurrent associations, round {round}, datagram from {}", names[who])));
            let d = dgram(5000 + round * 10 + who as u32, 30 + who);
            let _ = feeds[who].send(Bytes::from(framed(&d)));
            let sock = if who == 2 { &t2 } else { &t1 };
            let Some((got, from)) = recv_one(sock, 1500).await else {
                rep.violation("C15:datagram-lost", &format!("concurrent associations: the datagram of association {} did not reach its target", names[who]), json!({"engine": "SEMI", "side": "server", "associations": 3}));
                return;
            };
            if got != d {
                rep.violation("C15:datagram-altered", &format!("concurrent associations: target received {} bytes for a {}-byte datagram of association {}", got.len(), d.len(), names[who]), json!({"engine": "SEMI", "side": "server", "associations": 3}));
                return;
            }
            relay[who] = Some(from);
            if who < 2 && relay[0].is_some() && relay[0] == relay[1] {
                rep.violation("C15:associations-share-a-relay-socket", &format!("associations A and B (both to {a1}) send from the same source address {from}: the target's replies cannot be delivered to the right association"), json!({"engine": "SEMI", "side": "server", "associations": 3}));
                return;
            }
            // the target answers the sender; the answer must come back on that association only
            let back = dgram(6000 + round * 10 + who as u32, 20 + who);
            let _ = sock.send_to(&back, from).await;
            let got = collect_framed(&mut outs[who], 1, 1500).await;
            if got.len() != 1 || got[0] != back {
                let mut elsewhere = vec![];
                for other in 0..3 {
                    if other != who && !collect_framed(&mut outs[other], 1, 30).await.is_empty() {
                        elsewhere.push(names[other]);
                    }
                }
                rep.violation("C15:reply-delivered-on-other-association", &format!("concurrent associations: the reply to {}'s datagram came back as {:?} datagram(s) on {}; other associations that received something: {:?}", names[who], got.iter().map(|x| x.len()).collect::<Vec<_>>(), names[who], elsewhere), json!({"engine": "SEMI", "side": "server", "associations": 3}));
                return;
            }
        }
    }
    // nothing stray anywhere
    for i in 0..3 {
        if !collect_framed(&mut outs[i], 1, 30).await.is_empty() {
            rep.violation("C15:reply-delivered-on-other-association", &format!("association {} received a datagram nobody sent to it", names[i]), json!({"engine": "SEMI", "side": "server", "associations": 3}));
        }
    }
    drop(feeds);
    for t in tasks {
        t.abort();
    }
}

// ---------------------------------------------------------------- long pauses between fragments

/// Jump the clock of this (current-thread) runtime by `secs` and let every timer that became due run.
async fn jump(secs: u64) {
    tokio::time::sleep(Duration::from_millis(15)).await;
    if secs > 0 {
        tokio::time::pause();
        tokio::time::advance(Duration::from_secs(secs)).await;
        tokio::time::resume();
    }
    tokio::time::sleep(Duration::from_millis(15)).await;
}

/// A datagram whose length-prefixed encoding arrives in two pieces with a long silence between them (a slow
/// or bursty link) is still one identical datagram — in both directions. Runs on a current-thread runtime
/// whose clock is jumped between the pieces.
fn fragments_with_gaps(rep: &mut Report, thorough: bool) {
    let rt = tokio::runtime::Builder::new_current_thread().enable_all().build().unwrap();
    let gaps: Vec<u64> = if thorough { vec![0, 1, 29, 31, 61, 125, 301, 3601] } else { vec![0, 31, 61, 301] };
    rt.block_on(async {
        // ---- client side: return stream
        let local = UdpSocket::bind("127.0.0.1:0").await.unwrap();
        let laddr = local.local_addr().unwrap();
        let app = UdpSocket::bind("127.0.0.1:0").await.unwrap();
        let (st, feed, mut out) = hand_stream(7);
        let h = tokio::spawn(verif_udp_proxy_loop(local, st));
        let hello = dgram(900, 12);
        let _ = app.send_to(&hello, laddr).await;
        let _ = collect_framed(&mut out, 1, 2000).await;
        let mut k = 0u32;
        'outer: for &gap in &gaps {
            for cut_at in [1usize, 2, 3, 9] {
                k += 1;
                rep.case(Some(&format!("client return, {gap} s of silence after {cut_at} byte(s)")));
                let back = dgram(1000 + k, 14 + k as usize % 5);
                let fb = framed(&back);
                let _ = feed.send(Bytes::copy_from_slice(&fb[..cut_at]));
                jump(gap).await;
                let _ = feed.send(Bytes::copy_from_slice(&fb[cut_at..]));
                match recv_one(&app, 1500).await {
                    Some((g, _)) if g == back => {}
                    other => {
                        rep.violation("C15:return-datagram-broken-by-pause-between-fragments", &format!("client side: a returned {}-byte datagram arriving as {cut_at} + {} stream bytes with {gap} s of silence between the two pieces reached the application as {:?} bytes", back.len(), fb.len() - cut_at, other.map(|x| x.0.len())), json!({"engine": "SEMI", "side": "client", "gap_s": gap, "cut": cut_at}));
                        break 'outer;
                    }
                }
            }
        }
        drop(feed);
        h.abort();
        // ---- server side: request stream
        let target = UdpSocket::bind("127.0.0.1:0").await.unwrap();
        let taddr = target.local_addr().unwrap();
        let (st, feed, _out) = hand_stream(9);
        let h = tokio::spawn(handle_udp_over_tcp(st));
        let _ = feed.send(Bytes::from(initial_request(taddr)));
        'outer2: for &gap in &gaps {
            for cut_at in [1usize, 2, 3, 9] {
                k += 1;
                rep.case(Some(&format!("server request, {gap} s of silence after {cut_at} byte(s)")));
                let d = dgram(2000 + k, 14 + k as usize % 5);
                let fb = framed(&d);
                let _ = feed.send(Bytes::copy_from_slice(&fb[..cut_at]));
                jump(gap).await;
                let _ = feed.send(Bytes::copy_from_slice(&fb[cut_at..]));
                match recv_one(&target, 1500).await {
                    Some((g, _)) if g == d => {}
                    other => {
                        rep.violation("C15:datagram-broken-by-pause-between-fragments", &format!("server side: a {}-byte datagram arriving as {cut_at} + {} stream bytes with {gap} s of silence between the two pieces reached the target as {:?} bytes", d.len(), fb.len() - cut_at, other.map(|x| x.0.len())), json!({"engine": "SEMI", "side": "server", "gap_s": gap, "cut": cut_at}));
                        break 'outer2;
                    }
                }
            }
        }
        drop(feed);
        h.abort();
    });
}

// ---------------------------------------------------------------- client side, hand-built stream

async fn client_side(rep: &mut Report, sizes: &[usize], thorough: bool) {
    let local = UdpSocket::bind("127.0.0.1:0").await.unwrap();
    let laddr = local.local_addr().unwrap();
    let app = UdpSocket::bind("127.0.0.1:0").await.unwrap();
    let (st, feed, mut out) = hand_stream(5);
    let h = tokio::spawn(verif_udp_proxy_loop(local, st));
    for &len in sizes {
        rep.case(None);
        rep.nontrivial.insert(0x1600_0000 + len as u64);
        let d = dgram(len as u32 + 7, len);
        if app.send_to(&d, laddr).await.is_err() {
            rep.machinery(format!("cannot send {len}-byte datagram on loopback"));
            break;
        }
        let got = collect_framed(&mut out, 1, 2000).await;
        if got.len() != 1 || got[0] != d {
            rep.violation("C15:datagram-not-identical", &format!("client side, size {len}: the tunnel carried {:?} for one datagram of {len} bytes", got.iter().map(|x| x.len()).collect::<Vec<_>>()), json!({"engine": "SEMI", "side": "client", "size": len}));
            if got.is_empty() {
                break;
            }
        }
        // return direction: fragmented delivery of the length-prefixed datagram
        let back = dgram(len as u32 + 9, len);
        let fb = framed(&back);
        let cut = [1usize, 2, 3, fb.len() / 2][len % 4].min(fb.len() - 1).max(1);
        let _ = feed.send(Bytes::copy_from_slice(&fb[..cut]));
        let _ = feed.send(Bytes::copy_from_slice(&fb[cut..]));
        match recv_one(&app, 2000).await {
            Some((g, from)) if g == back && from == laddr => {}
            other => {
                rep.violation("C15:return-datagram-not-identical", &format!("client side, size {len}: application received {:?}", other.map(|(g, f)| (g.len(), f))), json!({"engine": "SEMI", "side": "client", "size": len}));
            }
        }
    }
    // bursts: several datagrams sent back-to-back before the relay has forwarded the first (sizes chosen so that a
    // merged, split or buffer-reusing relay shows)
    for burst in [vec![1usize, 2, 3], vec![300, 5, 300, 5], vec![1400, 1400, 1, 1400], vec![9000, 10, 9000], vec![255, 256, 257, 65, 1]] {
        rep.case(Some(&format!("client side, burst {:?}", burst)));
        let ds: Vec<Vec<u8>> = burst.iter().enumerate().map(|(i, l)| dgram(3000 + i as u32 * 7 + *l as u32, *l)).collect();
        for d in &ds {
            let _ = app.send_to(d, laddr).await;
        }
        let got = collect_framed(&mut out, ds.len(), 2000).await;
        if got != ds {
            rep.violation("C15:datagram-lost-or-merged", &format!("client side, burst of datagrams of sizes {:?} sent back-to-back: the tunnel carried sizes {:?}{}", burst, got.iter().map(|x| x.len()).collect::<Vec<_>>(), if got.len() == ds.len() { " (contents differ)" } else { "" }), json!({"engine": "SEMI", "side": "client", "burst": burst}));
            break;
        }
        // and the same burst coming back in one piece
        let mut all = vec![];
        for d in &ds {
            all.extend_from_slice(&framed(d));
        }
        let _ = feed.send(Bytes::from(all));
        let mut back = vec![];
        for _ in 0..ds.len() {
            match recv_one(&app, 1500).await {
                Some((d, _)) => back.push(d),
                None => break,
            }
        }
        if back != ds {
            rep.violation("C15:return-datagrams-merged-or-split", &format!("client side, {} datagrams of sizes {:?} returned in one stream chunk: the application received sizes {:?}", ds.len(), burst, back.iter().map(|x| x.len()).collect::<Vec<_>>()), json!({"engine": "SEMI", "side": "client", "burst": burst}));
            break;
        }
    }
    // two local applications (different source ports) use the association in turn: every reply goes
    // to the application whose datagram it answers (the last sender), never to the other one
    let app_b_keep = UdpSocket::bind("127.0.0.1:0").await.unwrap();
    {
        let app_b = &app_b_keep;
        let apps = [&app, app_b];
        for (step, who) in [0usize, 1, 0, 1, 1, 0, 0, 1, 0].into_iter().enumerate() {
            rep.case(Some(&format!("two applications, step {step}: {}", if who == 0 { "A" } else { "B" })));
            let d = dgram(700 + step as u32, 40 + step);
            let _ = apps[who].send_to(&d, laddr).await;
            let got = collect_framed(&mut out, 1, 2000).await;
            if got.len() != 1 || got[0] != d {
                rep.violation("C15:datagram-not-identical", &format!("two applications, step {step}: the tunnel carried {:?}", got.iter().map(|x| x.len()).collect::<Vec<_>>()), json!({"engine": "SEMI", "side": "client"}));
                break;
            }
            let back = dgram(800 + step as u32, 33 + step);
            let _ = feed.send(Bytes::from(framed(&back)));
            let right = recv_one(apps[who], 1500).await;
            let wrong = recv_one(apps[1 - who], 30).await;
            if wrong.is_some() || right.as_ref().map(|x| &x.0) != Some(&back) {
                rep.violation(
                    "C15:reply-delivered-to-other-application",
                    &format!("two local applications A, B on one association, step {step}: the reply to {}'s datagram reached {} (the right one got {:?} bytes, the other one {:?} bytes)", if who == 0 { "A" } else { "B" }, if wrong.is_some() { "the OTHER application" } else { "nobody" }, right.map(|x| x.0.len()), wrong.map(|x| x.0.len())),
                    json!({"engine": "SEMI", "side": "client", "step": step}),
                );
                break;
            }
        }
    }
    // a reply arrives in two pieces and, between the pieces, a datagram comes from ANOTHER local source address (an
    // application that uses a fresh socket per request): the reply is still exactly one identical datagram (for the
    // old or the new address — the relay cannot know), the framing of the return stream survives
    {
        let mut k = 0u32;
        'cuts: for cut_at in [1usize, 2, 3, 20] {
            for rounds in 0..2 {
                k += 1;
                rep.case(Some(&format!("source address changes between the two pieces of a reply (cut at {cut_at}, round {rounds})")));
                let fresh = UdpSocket::bind("127.0.0.1:0").await.unwrap();
                let back = dgram(1500 + k, 41 + k as usize);
                let fb = framed(&back);
                let _ = feed.send(Bytes::copy_from_slice(&fb[..cut_at]));
                tokio::time::sleep(Duration::from_millis(20)).await;
                let d = dgram(1600 + k, 17);
                let _ = fresh.send_to(&d, laddr).await;
                let got = collect_framed(&mut out, 1, 2000).await;
                if got.len() != 1 || got[0] != d {
                    rep.violation("C15:datagram-not-identical", &format!("a datagram from a new local source address while a reply was half-received: the tunnel carried {:?}", got.iter().map(|x| x.len()).collect::<Vec<_>>()), json!({"engine": "SEMI", "side": "client"}));
                    break 'cuts;
                }
                let _ = feed.send(Bytes::copy_from_slice(&fb[cut_at..]));
                let a = recv_one(&fresh, 1500).await;
                let b = recv_one(&app, 50).await;
                let b2 = recv_one(&app_b_keep, 50).await;
                let all: Vec<Vec<u8>> = [a, b, b2].into_iter().flatten().map(|x| x.0).collect();
                if all != vec![back.clone()] {
                    rep.violation("C15:return-datagram-lost-when-source-address-changes", &format!("a {}-byte reply arrived as {cut_at} + {} stream bytes and a datagram from a new local source address came in between: the applications received {:?} bytes in total (one identical datagram expected)", back.len(), fb.len() - cut_at, all.iter().map(|x| x.len()).collect::<Vec<_>>()), json!({"engine": "SEMI", "side": "client", "cut": cut_at}));
                    break 'cuts;
                }
                // the framing survived: an unfragmented reply follows
                let next = dgram(1700 + k, 9);
                let _ = feed.send(Bytes::from(framed(&next)));
                let n1 = recv_one(&fresh, 1500).await;
                if n1.as_ref().map(|x| &x.0) != Some(&next) {
                    rep.violation("C15:return-datagram-lost-when-source-address-changes", &format!("after a source-address change in mid-reply the next reply reached the last sender as {:?} bytes ({} expected)", n1.map(|x| x.0.len()), next.len()), json!({"engine": "SEMI", "side": "client", "cut": cut_at}));
                    break 'cuts;
                }
            }
        }
        // the original application speaks again (its address is the remembered one for what follows)
        let d = dgram(1999, 5);
        let _ = app.send_to(&d, laddr).await;
        let _ = collect_framed(&mut out, 1, 2000).await;
    }
    // every 1-cut / 2-cut split of a 3-datagram return stream
    let set = vec![dgram(11, 2), dgram(12, 1), dgram(13, 6)];
    let mut bytes = vec![];
    for d in &set {
        bytes.extend_from_slice(&framed(d));
    }
    let n = bytes.len();
    let mut cutsets: Vec<Vec<usize>> = vec![vec![]];
    for a in 1..n {
        cutsets.push(vec![a]);
        for b in a + 1..n {
            if thorough || (a + b) % 2 == 1 {
                cutsets.push(vec![a, b]);
            }
        }
    }
    cutsets.push((1..n).collect());
    for cuts in cutsets {
        rep.case(Some(&format!("client return cuts {:?}", cuts)));
        let mut prev = 0;
        for &c in cuts.iter().chain(std::iter::once(&n)) {
            let _ = feed.send(Bytes::copy_from_slice(&bytes[prev..c]));
            prev = c;
        }
        let mut got = vec![];
        for _ in 0..set.len() {
            match recv_one(&app, 1500).await {
                Some((d, _)) => got.push(d),
                None => break,
            }
        }
        if let Some((d, _)) = recv_one(&app, 10).await {
            got.push(d);
        }
        if got != set {
            rep.violation("C15:return-datagrams-merged-or-split", &format!("client side, return stream cut at {:?}: application received sizes {:?}, sent {:?}", cuts, got.iter().map(|d| d.len()).collect::<Vec<_>>(), set.iter().map(|d| d.len()).collect::<Vec<_>>()), json!({"engine": "SEMI", "side": "client", "cuts": cuts}));
        }
    }
    drop(feed);
    h.abort();
}

// ---------------------------------------------------------------- end to end through create_udp_proxy

async fn end_to_end(rep: &mut Report, v6: bool) {
    let bind = if v6 { "[::1]:0" } else { "127.0.0.1:0" };
    let Ok(target) = UdpSocket::bind(bind).await else {
        rep.observe(format!("cannot bind UDP {bind}; end-to-end case skipped"));
        return;
    };
    let taddr = target.local_addr().unwrap();
    let Ok(other) = UdpSocket::bind(bind).await else { return };
    let mut pair = match linked_pair(PipeCfg::new("c2s"), PipeCfg::new("s2c"), STOP0, STOP0, None).await {
        Ok(p) => p,
        Err(e) => {
            rep.machinery(format!("pair: {e}"));
            return;
        }
    };
    let server = pair.server.clone();
    tokio::spawn(async move {
        while let Some(st) = pair.accepted.recv().await {
            let s = server.clone();
            tokio::spawn(async move {
                let _ = TcpProxyHandler::new().handle_stream(st, s).await;
            });
        }
    });
    let client = crate::props::c10::make_client(crate::props::c10::Params { beh: vec![], at_ms: vec![], racing: false, server_settings: true, stall_uplink: false, parked_writer: false }).unwrap();
    client.verif_session_pool().add_idle_session(pair.client.clone()).await;
    let name = format!("end to end, target {taddr}");
    rep.case(Some(&name));
    let bound = match real_timeout(5000, client.create_udp_proxy("127.0.0.1:0", taddr)).await {
        Some(Ok(a)) => a,
        other => {
            rep.violation("C15:association-failed", &format!("{name}: {:?}", other.map(|r| r.map_err(|e| e.to_string()))), json!({"engine": "SEMI", "case": name}));
            return;
        }
    };
    let app = UdpSocket::bind("127.0.0.1:0").await.unwrap();
    for (i, len) in [1usize, 300, 1472, 9000, 65507].into_iter().enumerate() {
        let d = dgram(50 + i as u32, len);
        let _ = app.send_to(&d, bound).await;
        match recv_one(&target, 2500).await {
            Some((g, from)) => {
                if g != d {
                    rep.violation("C15:datagram-not-identical", &format!("{name}, size {len}: target received {} bytes", g.len()), json!({"engine": "SEMI", "case": name, "size": len}));
                }
                let back = dgram(90 + i as u32, len);
                let _ = target.send_to(&back, from).await;
                match recv_one(&app, 2500).await {
                    Some((g2, _)) if g2 == back => {}
                    o => rep.violation("C15:return-datagram-not-identical", &format!("{name}, size {len}: application received {:?}", o.map(|x| x.0.len())), json!({"engine": "SEMI", "case": name, "size": len})),
                }
            }
            None => {
                let key = if v6 { "C15:datagram-lost:ipv6-target" } else { "C15:datagram-lost" };
                rep.violation(key, &format!("{name}, size {len}: nothing arrived at the requested target"), json!({"engine": "SEMI", "case": name, "size": len}));
                break;
            }
        }
        if recv_one(&other, 5).await.is_some() {
            rep.violation("C15:datagram-sent-elsewhere", &format!("{name}: a datagram arrived at a socket that is not the target"), json!({"engine": "SEMI", "case": name}));
        }
    }
    let _ = pair.client.close().await;
    let _ = pair.server.close().await;
}

pub fn run(tier: Tier) -> i32 {
    let mut rep = Report::new("C15", tier, "exploration");
    let thorough = tier.is_thorough();
    rep.assumptions = vec![
        "lock-step request/response on loopback, so socket-buffer loss cannot occur".into(),
        "the tunnel's byte stream is fed to hand-built Stream objects in chosen pieces (fragmentation), the relay loops themselves are the real ones (H7 wrapper on the client side)".into(),
    ];
    let sizes: Vec<usize> = if thorough {
        (1..=65507).collect()
    } else {
        let mut v: Vec<usize> = vec![1, 2, 3];
        v.extend(253..=258);
        v.extend(1471..=1473);
        v.extend(8190..=8194);
        v.extend(65505..=65507);
        v.extend((500..65000).step_by(4093));
        v
    };
    let rt = rt_multi();
    rt.block_on(async {
        server_fragmentation(&mut rep, thorough).await;
        server_sizes(&mut rep, &sizes).await;
        server_send_errors(&mut rep).await;
        let csizes: Vec<usize> = if thorough { sizes.iter().copied().filter(|s| s % 3 == 1 || *s < 300 || *s > 65000).collect() } else { sizes.clone() };
        client_side(&mut rep, &csizes, thorough).await;
        concurrent_associations(&mut rep).await;
        server_target_shapes(&mut rep).await;
        end_to_end(&mut rep, false).await;
        end_to_end(&mut rep, true).await;
    });
    drop(rt);
    fragments_with_gaps(&mut rep, thorough);
    rep.sections.insert("sizes".into(), json!({"count": sizes.len(), "min": sizes.first(), "max": sizes.last()}));
    rep.sample(json!({"case": "server side, byte stream [initial request][len=5][..][len=1][.][len=2][..] delivered cut at [9, 14]"}));
    rep.finish("IX/SEMI: datagram sizes (quick: boundary sizes incl. 65505..65507; thorough: every size 1..=65507) in both directions through the real server-side and client-side relay loops over real loopback UDP sockets in lock-step; every 1-cut and 2-cut split (and byte-at-a-time) of 2- and 3-datagram length-prefixed streams incl. cuts inside the initial request; bursts of datagrams back-to-back / in one stream chunk in both directions; one loopback target named as IPv4 / IPv4-mapped IPv6 / IPv6 / domain; three concurrent associations on one server (two to the same target) with replies attributed per association; two-piece deliveries with 0..301 s (thorough ..3601 s) of silence between the pieces (clock of a current-thread runtime jumped); end to end through create_udp_proxy and the real handler for an IPv4 and an IPv6 target; non-trivial = distinct size / cut pattern")
}
