//! C16 — the SOCKS5 front-end follows the protocol for every client byte stream (LX).

use crate::lx::*;
use crate::report::{Report, Tier};
use crate::semi::*;
use serde_json::json;
use std::net::SocketAddr;
use std::sync::Arc;
use std::time::Duration;
use tokio::io::{AsyncReadExt, AsyncWriteExt};
use tokio::net::TcpStream;

#[derive(Clone, Debug)]
struct Case {
    name: String,
    greeting: Vec<u8>,
    /// None: nothing is sent after the greeting
    request: Option<Vec<u8>>,
    cuts: Vec<usize>,
    /// reference verdicts
    expect_method_ok: bool,
    /// the tunnel must be established to this target
    expect_tunnel: Option<SocketAddr>,
    /// the request is incomplete: the front-end legitimately waits for the rest
    truncated: bool,
    /// seconds of silence after every piece but the last (only on the current-thread pass, whose clock is jumped)
    gap_s: u64,
}

fn req(ver: u8, cmd: u8, rsv: u8, atyp: u8, addr: &[u8], port: u16) -> Vec<u8> {
    let mut v = vec![ver, cmd, rsv, atyp];
    v.extend_from_slice(addr);
    v.extend_from_slice(&port.to_be_bytes());
    v
}

struct World {
    socks: SocketAddr,
    t4: Target,
    t4b: Target,
    t6: Option<Target>,
    closed_port: u16,
    _guard: tokio::net::TcpSocket,
}

async fn read_n(s: &mut TcpStream, n: usize, ms: u64) -> (Vec<u8>, bool) {
    let mut out = vec![];
    let mut buf = [0u8; 64];
    while out.len() < n {
        let want = (n - out.len()).min(64);
        match tokio::time::timeout(Duration::from_millis(ms), s.read(&mut buf[..want])).await {
            Err(_) => return (out, false),
            Ok(Ok(0)) | Ok(Err(_)) => return (out, true),
            Ok(Ok(k)) => out.extend_from_slice(&buf[..k]),
        }
    }
    (out, false)
}

fn c_name(n: &str) -> &str {
    n
}

async fn run_case(w: &World, c: &Case, idx: usize) -> Vec<(String, String)> {
    let mut v = vec![];
    let Ok(mut s) = TcpStream::connect(w.socks).await else { return vec![("harness:connect".into(), c.name.clone())] };
    let _ = s.set_nodelay(true);
    let before: Vec<usize> = [Some(&w.t4), Some(&w.t4b), w.t6.as_ref()].iter().map(|t| t.map(|t| t.accepted()).unwrap_or(0)).collect();
    let mut all = c.greeting.clone();
    let glen = all.len();
    if let Some(r) = &c.request {
        all.extend_from_slice(r);
    }
    // the request may only follow the method reply in lock-step unless the case tests pipelining/cuts
    let lockstep = c.cuts.is_empty();
    let marker = format!("m{idx}:").into_bytes();
    if lockstep {
        if s.write_all(&c.greeting).await.is_err() {
            return v;
        }
    } else if (if c.gap_s > 0 { crate::lx::send_fragmented_gap(&mut s, &all, &c.cuts, c.gap_s).await } else { send_fragmented(&mut s, &all, &c.cuts).await }).is_err() {
        // the front-end may close early on malformed input; fine
    }
    // ---- method reply
    let (mrep, closed) = read_n(&mut s, 2, 3000).await;
    if c.expect_method_ok {
        if mrep != [5, 0] {
            v.push(("C16:no-auth-offered-but-not-selected".into(), format!("{}: method reply {:02x?} (closed={closed})", c.name, mrep)));
            return v;
        }
    } else {
        if mrep == [5, 0] {
            v.push(("C16:no-auth-selected-although-not-offered".into(), format!("{}: method reply 05 00", c.name)));
            return v;
        }
        if !(mrep.is_empty() || mrep == [5, 0xff]) {
            v.push(("C16:bad-method-reply".into(), format!("{}: method reply {:02x?}", c.name, mrep)));
        }
        // the connection must end (we may still send a request: it must not produce a tunnel)
        if lockstep && let Some(r) = &c.request {
            let _ = s.write_all(r).await;
        }
        let (rest, closed2) = read_all_or_idle(&mut s, 3000).await;
        if !(closed || closed2) {
            v.push(("C16:connection-kept-after-refusal".into(), format!("{}: still open 3 s after the refusal", c.name)));
        }
        if rest.len() >= 2 && rest[1] == 0 && rest[0] == 5 {
            v.push(("C16:tunnel-without-negotiation".into(), format!("{}: success reply after a refused negotiation", c.name)));
        }
        return v;
    }
    let Some(r) = &c.request else { return v };
    if lockstep && s.write_all(r).await.is_err() {
        return v;
    }
    let _ = glen;
    if c.truncated {
        // an incomplete request: no reply is due; nothing may be dialled, and closing ends it
        let (early, _) = read_n(&mut s, 10, 300).await;
        if early.len() >= 2 && early[1] == 0 {
            v.push(("C16:success-reply-for-invalid-request".into(), format!("{}: reply 'succeeded' for an incomplete request", c.name)));
        }
        return v;
    }
    // ---- request reply: exactly one, its length given by its address type
    let (mut rep, mut rclosed) = read_n(&mut s, 5, 35_000).await; // longer than every documented timeout (30 s SYNACK, 15 s connect, 10 s DNS)
    if rep.len() == 5 {
        let rest = match rep[3] {
            1 => 4 + 2 - 1,
            4 => 16 + 2 - 1,
            3 => rep[4] as usize + 2,
            _ => 5,
        };
        let (more, ended) = read_n(&mut s, rest, 3000).await;
        rep.extend_from_slice(&more);
        rclosed = ended;
        if more.len() < rest || !matches!(rep[3], 1 | 3 | 4) || rep[0] != 5 {
            v.push(("C16:malformed-reply".into(), format!("{}: the reply {:02x?} is not a complete SOCKS5 reply for its address type (version {}, ATYP {}: {} more bytes were due, {} came{})", c_name(&c.name), rep, rep[0], rep[3], rest, more.len(), if ended { ", then the connection ended" } else { "" })));
            return v;
        }
    }
    let success = rep.len() >= 2 && rep[0] == 5 && rep[1] == 0;
    match c.expect_tunnel {
        Some(target) => {
            if !success {
                v.push(("C16:valid-connect-refused".into(), format!("{}: reply {:02x?} (closed={rclosed}) for a CONNECT to an accepting target {target}", c.name, rep)));
                return v;
            }
            // 'succeeded' only once the tunnel exists: bytes flow both ways through the right target
            let early: Vec<u8> = r.iter().skip(10).copied().filter(|_| c.name.starts_with("CONNECT followed at once")).collect();
            let _ = s.write_all(&marker).await;
            let mut expect_echo = early.clone();
            expect_echo.extend_from_slice(&marker);
            let (echo, _) = read_n(&mut s, expect_echo.len(), 3000).await;
            if !early.is_empty() && echo != expect_echo {
                v.push(("C16:early-data-not-delivered-exactly-once".into(), format!("{}: the echo through the tunnel returned {} bytes ({:?}…), expected the {} early bytes followed by the marker", c.name, echo.len(), String::from_utf8_lossy(&echo[..echo.len().min(12)]), early.len())));
                return v;
            }
            let echo = echo[early.len().min(echo.len())..].to_vec();
            if echo != marker {
                v.push(("C16:success-reply-without-tunnel".into(), format!("{}: 'succeeded' was sent but the echo through the tunnel returned {:?}", c.name, String::from_utf8_lossy(&echo))));
            }
            let ts: Vec<&Target> = [Some(&w.t4), Some(&w.t4b), w.t6.as_ref()].into_iter().flatten().collect();
            let hit: Vec<SocketAddr> = ts.iter().filter(|t| t.conns.lock().unwrap().iter().any(|k| k.lock().unwrap().received.ends_with(&marker))).map(|t| t.addr).collect();
            if hit != vec![target] {
                v.push(("C16:wrong-destination".into(), format!("{}: requested {target}, data arrived at {:?}", c.name, hit)));
            }
        }
        None => {
            if success {
                // which clause?
                let cmd = r.get(1).copied().unwrap_or(0);
                let key = if r.first() == Some(&5) && cmd != 1 && matches!(r.get(3), Some(1) | Some(3) | Some(4)) { "C16:tunnel-for-non-connect-command" } else { "C16:success-reply-for-invalid-request" };
                v.push((key.into(), format!("{}: reply 'succeeded' ({:02x?})", c.name, rep)));
            }
            // nothing may have been dialled on the accepting targets for this connection
            let _ = s.write_all(&marker).await;
            tokio::time::sleep(Duration::from_millis(50)).await;
            let after: Vec<usize> = [Some(&w.t4), Some(&w.t4b), w.t6.as_ref()].iter().map(|t| t.map(|t| t.accepted()).unwrap_or(0)).collect();
            let ts: Vec<&Target> = [Some(&w.t4), Some(&w.t4b), w.t6.as_ref()].into_iter().flatten().collect();
            if ts.iter().any(|t| t.conns.lock().unwrap().iter().any(|k| k.lock().unwrap().received.starts_with(&marker))) {
                v.push(("C16:data-delivered-without-valid-connect".into(), format!("{}: bytes sent after the request reached a target", c.name)));
            }
            let _ = (before, after);
            if !success {
                // failure: a non-zero reply code or a closed connection — and nothing after that one reply
                let (extra, c2) = read_all_or_idle(&mut s, 3000).await;
                if !extra.is_empty() && !rep.is_empty() {
                    v.push(("C16:more-than-one-reply".into(), format!("{}: after the failure reply {:02x?} the front-end sent {} more bytes: {:02x?}", c.name, rep, extra.len(), &extra[..extra.len().min(24)])));
                }
                if rep.is_empty() && !(rclosed || c2) {
                    v.push(("C16:no-reply-and-not-closed".into(), format!("{}: neither a failure reply nor a close within 3 s", c.name)));
                }
            }
        }
    }
    v
}

pub fn run(tier: Tier) -> i32 {
    let mut rep = Report::new("C16", tier, "exploration");
    let thorough = tier.is_thorough();
    rep.assumptions = vec![
        "real SOCKS5 front-end, Client, TLS, Server and handler on loopback; targets are harness echo listeners on 127.0.0.1, 127.0.0.2 and ::1, plus a reserved refusing port".into(),
        "TCP fragmentation is forced by waiting for the front-end's receive queue to drain between pieces (/proc/net/tcp)".into(),
        "a refusal is a 05 FF method reply or just the end of the connection; a failed request is a non-zero reply code or a close".into(),
    ];
    let rt = rt_multi();
    let res: Result<(Vec<Case>, Vec<Vec<(String, String)>>), String> = rt.block_on(async {
        let lx = start_lx("pw", "pw", pool_cfg(3600, 3600, 1), true, false).await?;
        let t4 = start_target("127.0.0.1", TargetMode::Echo, vec![]).await;
        let t4b = start_target("127.0.0.2", TargetMode::Echo, vec![]).await;
        let t6 = if tokio::net::TcpListener::bind("[::1]:0").await.is_ok() { Some(start_target("::1", TargetMode::Echo, vec![]).await) } else { None };
        let (closed_port, guard) = refusing_port("127.0.0.1");
        let w = Arc::new(World { socks: lx.socks.unwrap(), t4, t4b, t6, closed_port, _guard: guard });
        let a4 = w.t4.addr;
        let a4b = w.t4b.addr;
        let ip4 = |a: SocketAddr| -> Vec<u8> { match a { SocketAddr::V4(v) => v.ip().octets().to_vec(), _ => vec![] } };
        let good_req = req(5, 1, 0, 1, &ip4(a4), a4.port());
        let mut cases: Vec<Case> = vec![];
        // ---- greetings
        let ms = [0x00u8, 0x01, 0x02, 0x80, 0xff];
        let mut lists: Vec<Vec<u8>> = vec![vec![]];
        for a in ms {
            lists.push(vec![a]);
            for b in ms {
                lists.push(vec![a, b]);
                for c in ms {
                    if thorough || (a as usize + b as usize + c as usize) % 3 != 1 {
                        lists.push(vec![a, b, c]);
                    }
                }
            }
        }
        let mut l255a = vec![1u8; 255];
        l255a[0] = 0;
        let mut l255b = vec![1u8; 255];
        l255b[254] = 0;
        lists.push(l255a);
        lists.push(l255b);
        lists.push(vec![1u8; 255]);
        for ver in [5u8, 0, 4, 6, 255] {
            for l in &lists {
                if ver != 5 && l.len() > 2 && !thorough {
                    continue;
                }
                let mut g = vec![ver, l.len() as u8];
                g.extend_from_slice(l);
                let ok = ver == 5 && l.contains(&0);
                cases.push(Case { name: format!("greeting ver={ver} methods={:02x?}", if l.len() > 6 { &l[..6] } else { &l[..] }), greeting: g, request: Some(good_req.clone()), cuts: vec![], expect_method_ok: ok, expect_tunnel: if ok { Some(a4) } else { None }, truncated: false, gap_s: 0 });
            }
        }
        // ---- requests
        let g = vec![5u8, 1, 0];
        for cmd in 0..=255u8 {
            cases.push(Case { name: format!("cmd={cmd:#04x} atyp=1"), greeting: g.clone(), request: Some(req(5, cmd, 0, 1, &ip4(a4), a4.port())), cuts: vec![], expect_method_ok: true, expect_tunnel: if cmd == 1 { Some(a4) } else { None }, truncated: false, gap_s: 0 });
        }
        for cmd in [2u8, 3, 0, 0x81] {
            cases.push(Case { name: format!("cmd={cmd:#04x} atyp=3 localhost"), greeting: g.clone(), request: Some(req(5, cmd, 0, 3, &[9, b'l', b'o', b'c', b'a', b'l', b'h', b'o', b's', b't'], a4.port())), cuts: vec![], expect_method_ok: true, expect_tunnel: None, truncated: false, gap_s: 0 });
        }
        for rsv in [0u8, 1, 0xff] {
            cases.push(Case { name: format!("rsv={rsv}"), greeting: g.clone(), request: Some(req(5, 1, rsv, 1, &ip4(a4b), a4b.port())), cuts: vec![], expect_method_ok: true, expect_tunnel: Some(a4b), truncated: false, gap_s: 0 });
        }
        for ver in [4u8, 0, 6] {
            cases.push(Case { name: format!("request version {ver}"), greeting: g.clone(), request: Some(req(ver, 1, 0, 1, &ip4(a4), a4.port())), cuts: vec![], expect_method_ok: true, expect_tunnel: None, truncated: false, gap_s: 0 });
        }
        for atyp in [0u8, 2, 5, 255] {
            cases.push(Case { name: format!("atyp={atyp}"), greeting: g.clone(), request: Some(req(5, 1, 0, atyp, &ip4(a4), a4.port())), cuts: vec![], expect_method_ok: true, expect_tunnel: None, truncated: false, gap_s: 0 });
        }
        // every port byte pattern on the second target address (distinct listener) + refusing port
        cases.push(Case { name: "ipv4 refusing port".into(), greeting: g.clone(), request: Some(req(5, 1, 0, 1, &[127, 0, 0, 1], w.closed_port)), cuts: vec![], expect_method_ok: true, expect_tunnel: None, truncated: false, gap_s: 0 });
        cases.push(Case { name: "domain localhost".into(), greeting: g.clone(), request: Some(req(5, 1, 0, 3, &[9, b'l', b'o', b'c', b'a', b'l', b'h', b'o', b's', b't'], a4.port())), cuts: vec![], expect_method_ok: true, expect_tunnel: Some(a4), truncated: false, gap_s: 0 });
        cases.push(Case { name: "domain unresolvable".into(), greeting: g.clone(), request: Some(req(5, 1, 0, 3, &[b"\x13nonexistent.invalid"[0], b'n', b'o', b'n', b'e', b'x', b'i', b's', b't', b'e', b'n', b't', b'.', b'i', b'n', b'v', b'a', b'l', b'i', b'd'], 80)), cuts: vec![], expect_method_ok: true, expect_tunnel: None, truncated: false, gap_s: 0 });
        cases.push(Case { name: "domain length 0".into(), greeting: g.clone(), request: Some(req(5, 1, 0, 3, &[0], 80)), cuts: vec![], expect_method_ok: true, expect_tunnel: None, truncated: false, gap_s: 0 });
        {
            let mut d = vec![255u8];
            d.extend(std::iter::repeat(b'a').take(255));
            cases.push(Case { name: "domain length 255 (unresolvable)".into(), greeting: g.clone(), request: Some(req(5, 1, 0, 3, &d, 80)), cuts: vec![], expect_method_ok: true, expect_tunnel: None, truncated: false, gap_s: 0 });
            cases.push(Case { name: "domain length 1 (unresolvable)".into(), greeting: g.clone(), request: Some(req(5, 1, 0, 3, &[1, b'z'], 80)), cuts: vec![], expect_method_ok: true, expect_tunnel: None, truncated: false, gap_s: 0 });
            cases.push(Case { name: "domain invalid utf-8".into(), greeting: g.clone(), request: Some(req(5, 1, 0, 3, &[2, 0xff, 0xfe], 80)), cuts: vec![], expect_method_ok: true, expect_tunnel: None, truncated: false, gap_s: 0 });
        }
        // DOMAINNAME requests whose name is not an ordinary host name (colons, brackets, zone ids, address-like names)
        for name in ["::1%1", "[::1]", "host:25", "fe80::1%lo", "a.b:c", "::1", "1.2.3.4.5", "127.0.0.1", "a", "-", "xn--nxasmq6b.invalid", "name with space", "tab\tname"] {
            let mut d = vec![name.len() as u8];
            d.extend_from_slice(name.as_bytes());
            // to the refusing port: whatever the name resolves to (or not), no tunnel; exactly one well-formed reply
            let expect = if name == "127.0.0.1" { None } else { None };
            cases.push(Case { name: format!("domain {:?} to a refusing port", name), greeting: g.clone(), request: Some(req(5, 1, 0, 3, &d, w.closed_port)), cuts: vec![], expect_method_ok: true, expect_tunnel: expect, truncated: false, gap_s: 0 });
        }
        {
            // an IPv4 literal sent as a DOMAINNAME to the accepting target: a tunnel to exactly that target
            let name = "127.0.0.1";
            let mut d = vec![name.len() as u8];
            d.extend_from_slice(name.as_bytes());
            cases.push(Case { name: "domain \"127.0.0.1\" to the accepting target".into(), greeting: g.clone(), request: Some(req(5, 1, 0, 3, &d, a4.port())), cuts: vec![], expect_method_ok: true, expect_tunnel: Some(a4), truncated: false, gap_s: 0 });
        }
        if let Some(t6) = &w.t6 {
            let a6 = t6.addr;
            if let SocketAddr::V6(v6) = a6 {
                cases.push(Case { name: "ipv6 ::1".into(), greeting: g.clone(), request: Some(req(5, 1, 0, 4, &v6.ip().octets(), a6.port())), cuts: vec![], expect_method_ok: true, expect_tunnel: Some(a6), truncated: false, gap_s: 0 });
            }
        }
        // truncated requests (connection closed by the client mid-request is not observable; send and wait)
        for cut in 1..good_req.len() {
            cases.push(Case { name: format!("request truncated to {cut} bytes"), greeting: g.clone(), request: Some(good_req[..cut].to_vec()), cuts: vec![], expect_method_ok: true, expect_tunnel: None, truncated: true, gap_s: 0 });
        }
        // ---- data sent right behind the request (before the reply): it belongs to the tunnel and must arrive exactly once
        for early in [1usize, 700] {
            let mut r = good_req.clone();
            r.extend(std::iter::repeat(b'E').take(early));
            cases.push(Case { name: format!("CONNECT followed at once by {early} data bytes"), greeting: g.clone(), request: Some(r), cuts: vec![], expect_method_ok: true, expect_tunnel: Some(a4), truncated: false, gap_s: 0 });
        }
        // early data with a forced TCP cut around the hand-over from the request parser to the relay
        for early in [3usize, 700] {
            let mut r = good_req.clone();
            r.extend((0..early).map(|i| b'a' + (i % 23) as u8));
            let end = g.len() + good_req.len();
            for cut in [end - 1, end, end + 1, end + early / 2, end + early - 1] {
                if cut >= g.len() + r.len() || cut == 0 {
                    continue;
                }
                cases.push(Case { name: format!("CONNECT followed at once by {early} data bytes, cut at {cut} (request ends at {end})"), greeting: g.clone(), request: Some(r.clone()), cuts: vec![cut], expect_method_ok: true, expect_tunnel: Some(a4), truncated: false, gap_s: 0 });
            }
        }
        // the same behind a request that cannot succeed (refusing port, unresolvable name): failure reply only
        for early in [1usize, 700] {
            let mut r = req(5, 1, 0, 1, &[127, 0, 0, 1], w.closed_port);
            r.extend(std::iter::repeat(b'E').take(early));
            cases.push(Case { name: format!("CONNECT to a refusing port followed at once by {early} data bytes"), greeting: g.clone(), request: Some(r), cuts: vec![], expect_method_ok: true, expect_tunnel: None, truncated: false, gap_s: 0 });
            let mut r = req(5, 1, 0, 3, &[b"\x13nonexistent.invalid"[0], b'n', b'o', b'n', b'e', b'x', b'i', b's', b't', b'e', b'n', b't', b'.', b'i', b'n', b'v', b'a', b'l', b'i', b'd'], 80);
            r.extend(std::iter::repeat(b'E').take(early));
            cases.push(Case { name: format!("CONNECT to an unresolvable name followed at once by {early} data bytes"), greeting: g.clone(), request: Some(r), cuts: vec![], expect_method_ok: true, expect_tunnel: None, truncated: false, gap_s: 0 });
        }
        // ---- fragmentation of the canonical exchange (greeting and request pipelined): every single cut, byte at a time
        let total = g.len() + good_req.len();
        for cut in 1..total {
            cases.push(Case { name: format!("canonical exchange cut at {cut}"), greeting: g.clone(), request: Some(good_req.clone()), cuts: vec![cut], expect_method_ok: true, expect_tunnel: Some(a4), truncated: false, gap_s: 0 });
        }
        cases.push(Case { name: "canonical exchange byte at a time".into(), greeting: g.clone(), request: Some(good_req.clone()), cuts: (1..total).collect(), expect_method_ok: true, expect_tunnel: Some(a4), truncated: false, gap_s: 0 });
        // greetings with several methods under every single cut (the request follows pipelined)
        for l in [vec![2u8, 1], vec![1, 0], vec![0, 1], vec![2, 1, 0x80], vec![1, 2, 0], vec![0x80, 0xff, 1], vec![0, 0, 0], vec![0xff, 0]] {
            let mut gg = vec![5u8, l.len() as u8];
            gg.extend_from_slice(&l);
            let ok = l.contains(&0);
            let tot = gg.len() + good_req.len();
            for cut in 1..tot {
                if cut > gg.len() + 1 && !thorough {
                    continue;
                }
                cases.push(Case { name: format!("greeting methods={:02x?} + request, cut at {cut}", l), greeting: gg.clone(), request: Some(good_req.clone()), cuts: vec![cut], expect_method_ok: ok, expect_tunnel: if ok { Some(a4) } else { None }, truncated: false, gap_s: 0 });
            }
            cases.push(Case { name: format!("greeting methods={:02x?} + request, byte at a time", l), greeting: gg.clone(), request: Some(good_req.clone()), cuts: (1..tot).collect(), expect_method_ok: ok, expect_tunnel: if ok { Some(a4) } else { None }, truncated: false, gap_s: 0 });
        }
        if let Some(t6) = &w.t6
            && let SocketAddr::V6(v6) = t6.addr
        {
            // IPv6 request fragmented
            let r6 = req(5, 1, 0, 4, &v6.ip().octets(), t6.addr.port());
            let tot = g.len() + r6.len();
            for cut in 1..tot {
                cases.push(Case { name: format!("ipv6 exchange cut at {cut}"), greeting: g.clone(), request: Some(r6.clone()), cuts: vec![cut], expect_method_ok: true, expect_tunnel: Some(t6.addr), truncated: false, gap_s: 0 });
            }
            cases.push(Case { name: "ipv6 exchange byte at a time".into(), greeting: g.clone(), request: Some(r6.clone()), cuts: (1..tot).collect(), expect_method_ok: true, expect_tunnel: Some(t6.addr), truncated: false, gap_s: 0 });
        }
        // every port byte pattern that could be mangled: boundary ports on the second IPv4 target are not bindable at will,
        // so requests to refusing ports with telling byte patterns must fail (never reach a listener)
        for port in [0u16, 1, 255, 256, 0x0100, 0xff00, 0x00ff, 65535] {
            if port == a4.port() || port == a4b.port() {
                continue;
            }
            cases.push(Case { name: format!("CONNECT to 127.0.0.3:{port} (nothing listens)"), greeting: g.clone(), request: Some(req(5, 1, 0, 1, &[127, 0, 0, 3], port)), cuts: vec![], expect_method_ok: true, expect_tunnel: None, truncated: false, gap_s: 0 });
        }
        {
            // domain request fragmented
            let dr = req(5, 1, 0, 3, &[9, b'l', b'o', b'c', b'a', b'l', b'h', b'o', b's', b't'], a4.port());
            let tot = g.len() + dr.len();
            for cut in 1..tot {
                cases.push(Case { name: format!("domain exchange cut at {cut}"), greeting: g.clone(), request: Some(dr.clone()), cuts: vec![cut], expect_method_ok: true, expect_tunnel: Some(a4), truncated: false, gap_s: 0 });
            }
        }
        let cases: Vec<Case> = cases;
        // run: truncated-request cases wait for timeouts, so run everything in concurrent batches
        let mut out = vec![];
        let cases_arc = Arc::new(cases.clone());
        for (bi, batch) in cases.chunks(24).enumerate() {
            let mut hs = vec![];
            for (i, _) in batch.iter().enumerate() {
                let w = w.clone();
                let ca = cases_arc.clone();
                let idx = bi * 24 + i;
                hs.push(tokio::spawn(async move { run_case(&w, &ca[idx], idx).await }));
            }
            for h in hs {
                out.push(h.await.unwrap_or_else(|e| vec![("panic:task".into(), e.to_string())]));
            }
        }
        // after all the malformed input a canonical request still succeeds
        let fin = Case { name: "canonical request after all malformed cases".into(), greeting: g.clone(), request: Some(good_req.clone()), cuts: vec![], expect_method_ok: true, expect_tunnel: Some(a4), truncated: false, gap_s: 0 };
        let r = run_case(&w, &fin, 999_999).await;
        let mut cases = cases;
        cases.push(fin);
        out.push(r.into_iter().map(|(_, d)| ("C16:front-end-broken-by-earlier-input".to_string(), d)).collect());
        Ok((cases, out))
    });
    drop(rt);
    // ---- second pass: the same exchanges with long silences between the pieces (a slow or bursty client). The whole
    // world runs on a current-thread runtime whose clock is jumped during the silence.
    let res2: Result<(Vec<Case>, Vec<Vec<(String, String)>>), String> = tokio::runtime::Builder::new_current_thread().enable_all().build().unwrap().block_on(async {
        let lx = start_lx("pw", "pw", pool_cfg(3600, 3600, 1), true, false).await?;
        let t4 = start_target("127.0.0.1", TargetMode::Echo, vec![]).await;
        let t4b = start_target("127.0.0.2", TargetMode::Echo, vec![]).await;
        let t6 = if tokio::net::TcpListener::bind("[::1]:0").await.is_ok() { Some(start_target("::1", TargetMode::Echo, vec![]).await) } else { None };
        let (closed_port, guard) = refusing_port("127.0.0.1");
        let w = World { socks: lx.socks.unwrap(), t4, t4b, t6, closed_port, _guard: guard };
        let a4 = w.t4.addr;
        let ip4 = |a: SocketAddr| -> Vec<u8> { match a { SocketAddr::V4(v) => v.ip().octets().to_vec(), _ => vec![] } };
        let g = vec![5u8, 1, 0];
        let mut exchanges: Vec<(&str, Vec<u8>, SocketAddr)> = vec![("ipv4", req(5, 1, 0, 1, &ip4(a4), a4.port()), a4), ("domain", req(5, 1, 0, 3, &[9, b'l', b'o', b'c', b'a', b'l', b'h', b'o', b's', b't'], a4.port()), a4)];
        if let Some(t6) = &w.t6
            && let SocketAddr::V6(v6) = t6.addr
        {
            exchanges.push(("ipv6", req(5, 1, 0, 4, &v6.ip().octets(), t6.addr.port()), t6.addr));
        }
        let mut cases = vec![];
        for (what, r, target) in &exchanges {
            let tot = g.len() + r.len();
            for gap in if thorough { vec![31u64, 61, 301] } else { vec![31u64, 301] } {
                for cut in 1..tot {
                    if !thorough && gap == 301 && cut % 3 != 1 {
                        continue;
                    }
                    cases.push(Case { name: format!("{what} exchange cut at {cut} with {gap} s of silence"), greeting: g.clone(), request: Some(r.clone()), cuts: vec![cut], expect_method_ok: true, expect_tunnel: Some(*target), truncated: false, gap_s: gap });
                }
            }
        }
        let mut out = vec![];
        for (i, c) in cases.iter().enumerate() {
            out.push(run_case(&w, c, 500_000 + i).await);
        }
        Ok((cases, out))
    });
    let res = match (res, res2) {
        (Ok((mut c, mut o)), Ok((c2, o2))) => {
            c.extend(c2);
            o.extend(o2);
            Ok((c, o))
        }
        (Err(e), _) | (_, Err(e)) => Err(e),
    };
    match res {
        Err(e) => rep.machinery(format!("LX start failed: {e}")),
        Ok((cases, all)) => {
            for (i, v) in all.iter().enumerate() {
                rep.case(Some(&cases[i].name));
                if i % 131 == 7 {
                    rep.sample(json!({"case": cases[i].name, "greeting": cases[i].greeting, "request": cases[i].request, "cuts": cases[i].cuts}));
                }
                for (k, d) in v {
                    rep.violation(k, d, json!({"engine": "LX", "case": cases[i].name, "greeting": cases[i].greeting, "request": cases[i].request, "cuts": cases[i].cuts}));
                }
            }
            rep.sections.insert("cases".into(), json!(cases.len()));
        }
    }
    crate::lx::speaks_first_pass(&mut rep, "C16", "socks5", thorough);
    crate::cworld::front_end_fault_pass(&mut rep, "C16", "socks5", "CONNECT");
    rep.finish("LX through the real SOCKS5 front-end: versions {0,4,5,6,255} x every method list of length <= 3 over {00,01,02,80,ff} (+ 255-long lists); every command byte 0..=255; rsv, request version, address types {0,1,2,3,4,5,255}, domain lengths {0,1,255}, unresolvable / invalid names, names with colons / brackets / zone ids / address-like names, ::1, refusing port; every truncation of the request; the canonical exchange under every single forced TCP cut and byte-at-a-time, and under every single cut with 31 / 301 s of silence between the pieces; each case checked against a reference SOCKS5 model (method selection, tunnel only for CONNECT, 'succeeded' only with a working tunnel to the requested target, failures end only their connection); non-trivial = distinct case")
}
