//! C09 — a dying session releases everyone waiting on it, promptly.
//! DX with fault enumeration under virtual time.

use crate::ctl::{Outcome, ScenarioFn, scenario};
use crate::dxrun::{DxItem, DxOpts, run_items};
use crate::refmodel::*;
use crate::report::{Report, Tier};
use crate::sess::*;
use crate::vpipe::{PipeCfg, ReadFault, ShutdownMode};
use anytls_rs::session::{Session, SessionHeartbeatConfig};
use bytes::Bytes;
use serde_json::json;
use std::sync::{Arc, Mutex};
use std::time::Duration;

#[derive(Clone, Debug, PartialEq)]
pub enum Cause {
    None,
    /// transport read fails / ends after `offset` bytes of the peer's stream
    Read { offset: usize, kind: ReadFault },
    /// n-th poll_write of the session fails (and all later ones)
    Write { call: usize },
    /// n-th poll_flush fails
    Flush { call: usize },
    /// peer sends an Alert frame after its j-th frame
    Alert { after_frame: usize },
    /// liveness monitor: peer never answers keep-alive requests
    HeartbeatSilence,
    /// owner calls close() at virtual time t (ms); `twice`: a second concurrent close()
    OwnerClose { at_ms: u64, twice: bool, shutdown: ShutdownMode },
    /// owner close() racing a clean EOF at the same instant
    CloseRaceEof { at_ms: u64 },
    /// peer stops reading (finite pipe), then the owner closes at t
    StalledPeer { close_at_ms: u64 },
    /// owner close() at the instant an inbound frame (cmd, id) arrives
    CloseRaceFrame { at_ms: u64, cmd: u8, id: u32 },
}

#[derive(Clone, Debug)]
pub struct Params {
    pub client_role: bool,
    pub cause: Cause,
    pub scheme: &'static str,
    pub second_opener: bool,
}

#[derive(Default, Debug, Clone)]
struct Log {
    lines: Vec<String>,
    viols: Vec<(String, String)>,
}

fn lg(log: &Arc<Mutex<Log>>, s: String) {
    log.lock().unwrap().lines.push(s);
}
fn vl(log: &Arc<Mutex<Log>>, k: &str, d: String) {
    log.lock().unwrap().viols.push((k.to_string(), d));
}

fn now_ms(t0: tokio::time::Instant) -> u64 {
    tokio::time::Instant::now().duration_since(t0).as_millis() as u64
}

/// The frames the scripted server sends in reaction to the client (also used
/// to compute the peer byte stream length for the offset sweep).
pub fn server_script() -> Vec<Vec<u8>> {
    vec![
        enc(SERVER_SETTINGS, 0, b"v=2"),
        enc(SYNACK, 1, b""),
        enc(PSH, 1, &pat_vec(1, 1, 0, 3)),
        enc(PSH, 1, &pat_vec(1, 1, 3, 40)),
        enc(HEART_REQ, 0, b""),
        enc(PSH, 1, &pat_vec(1, 1, 43, 2)),
    ]
}

pub fn client_script() -> Vec<Vec<u8>> {
    vec![
        enc(SETTINGS, 0, b"v=2\nclient=x\npadding-md5=0"),
        enc(SYN, 1, b""),
        enc(PSH, 1, &[1, 127, 0, 0, 1, 0, 80]),
        enc(PSH, 1, &pat_vec(1, 0, 0, 30)),
        enc(HEART_REQ, 0, b""),
        enc(SYN, 2, b""),
        enc(PSH, 2, &pat_vec(2, 0, 0, 5)),
    ]
}

pub fn make(p: Params) -> ScenarioFn {
    scenario(move || {
        let p = p.clone();
        async move {
            if p.client_role {
                run_client(p).await
            } else {
                run_server(p).await
            }
        }
    })
}

async fn post_checks(
    out: &mut Outcome,
    log: &Arc<Mutex<Log>>,
    sess: &Arc<Session>,
    wire: &crate::vpipe::Pipe,
    expect_closed: bool,
    any_stream: Option<Arc<anytls_rs::session::Stream>>,
    baseline_refs: usize,
    client_role: bool,
) {
    let closed = sess.is_closed();
    lg(log, format!("final is_closed={closed} shutdown_seen={}", wire.shutdown_seen()));
    if expect_closed {
        if !closed {
            out.viol("C09:not-visibly-closed", "session is not closed after the terminating event");
        }
        if !wire.shutdown_seen() {
            out.viol(
                "C09:transport-not-shut-down",
                "no shutdown was issued on the session's transport after the session ended",
            );
        }
        // later attempts must fail
        match within(sess.write_data_frame(1, Bytes::from_static(b"late"))).await {
            None => out.viol("C09:later-write-blocks", "write_data_frame after the end blocks forever"),
            Some(Ok(())) => out.viol("C09:later-write-ok", "write_data_frame after the session ended returned Ok"),
            Some(Err(_)) => {}
        }
        if client_role {
            match within(sess.open_stream()).await {
                None => out.viol("C09:later-open-blocks", "open_stream after the end blocks forever"),
                Some(Ok(_)) => out.viol("C09:later-open-ok", "open_stream after the session ended returned Ok"),
                Some(Err(_)) => {}
            }
        }
        if let Some(st) = any_stream {
            if st.send_data(Bytes::from_static(b"late")).is_ok() {
                out.viol(
                    "C09:later-send-data-ok",
                    "Stream::send_data after the session ended was accepted (Ok) — the chunk is silently dropped",
                );
            }
        }
        // background tasks gone? (each holds an Arc<Session>)
        tokio::time::sleep(Duration::from_secs(120)).await;
        let refs = Arc::strong_count(sess);
        lg(log, format!("session refs after quiescence: {refs} (baseline {baseline_refs})"));
        // If the transport's shutdown never completed, the peer was never told and
        // keeps its side open: the receive loop legitimately stays in its read.
        let peer_was_told = wire.is_write_closed();
        if refs > baseline_refs && peer_was_told {
            out.viol(
                "C09:tasks-linger",
                format!(
                    "{} background task(s) of the session still alive 120 s after it ended",
                    refs - baseline_refs
                ),
            );
        }
    } else if closed {
        out.viol("C09:closed-without-cause", "session closed although nothing terminated it");
    }
}

async fn run_client(p: Params) -> Outcome {
    let mut out = Outcome::default();
    let log: Arc<Mutex<Log>> = Arc::new(Mutex::new(Log::default()));
    let t0 = tokio::time::Instant::now();
    let stalled = matches!(p.cause, Cause::StalledPeer { .. });
    let from_cfg = if stalled {
        PipeCfg::new("c2s").capacity(48)
    } else {
        PipeCfg::new("c2s")
    };
    let mut link = peer_link(PipeCfg::new("s2c"), from_cfg);
    let wire = link.peer.out.clone();
    let inj = link.peer.inj.clone();
    match &p.cause {
        Cause::Read { offset, kind } => inj.set_read_fault(*offset, *kind),
        Cause::Write { call } => wire.set_write_fault_call(*call),
        Cause::Flush { call } => wire.set_flush_fault_call(*call),
        Cause::OwnerClose { shutdown, .. } => wire.set_shutdown_mode(*shutdown),
        _ => {}
    }
    let hb = if p.cause == Cause::HeartbeatSilence {
        Some(SessionHeartbeatConfig {
            interval: Duration::from_secs(2),
            timeout: Duration::from_secs(5),
        })
    } else {
        None
    };
    let sess = match start_client_session(link.sess_r, link.sess_w, padding(p.scheme), hb, 0).await
    {
        Ok(s) => s,
        Err(e) => {
            out.viol("C09:start-failed", format!("{e}"));
            return out;
        }
    };

    // ---- scripted server
    let cause = p.cause.clone();
    let peer_log = log.clone();
    let peer_task = tokio::spawn(async move {
        let script = server_script();
        let mut sent = 0usize;
        let alert_after = match cause {
            Cause::Alert { after_frame } => Some(after_frame),
            _ => None,
        };
        let mut alerted = false;
        let send_next = |peer: &RawPeer, sent: &mut usize, upto: usize, alerted: &mut bool| {
            while *sent < upto {
                if alert_after == Some(*sent) && !*alerted {
                    peer.send(ALERT, 0, b"boom");
                    *alerted = true;
                }
                peer.send_raw(&script[*sent]);
                *sent += 1;
            }
            if alert_after == Some(*sent) && !*alerted {
                peer.send(ALERT, 0, b"boom");
                *alerted = true;
            }
        };
        if stalled {
            // peer never reads
            std::future::pending::<()>().await;
        }
        loop {
            match link.peer.next_frame().await {
                None => {
                    lg(&peer_log, "peer: session closed its side; peer closes too".into());
                    link.peer.close_write();
                    break;
                }
                Some(f) => match f.cmd {
                    SETTINGS => send_next(&link.peer, &mut sent, 1, &mut alerted),
                    PSH if f.id == 1 && sent < 2 => {
                        send_next(&link.peer, &mut sent, 6, &mut alerted)
                    }
                    _ => {}
                },
            }
        }
        // keep the peer object alive (its reader end) until the scenario ends
        std::future::pending::<()>().await;
    });

    // ---- waiters
    let mut handles = vec![];
    let first_stream: Arc<Mutex<Option<Arc<anytls_rs::session::Stream>>>> =
        Arc::new(Mutex::new(None));
    let n_openers = if p.second_opener { 2 } else { 1 };
    for t in 0..n_openers {
        let sess = sess.clone();
        let log = log.clone();
        let first_stream = first_stream.clone();
        let cause_for_opener = p.cause.clone();
        handles.push(("opener", tokio::spawn(async move {
            if t == 1 {
                tokio::time::sleep(Duration::from_millis(500)).await;
            }
            let (st, rx) = match within(sess.open_stream()).await {
                None => {
                    vl(&log, "C09:open-blocks", format!("open_stream (task {t}) blocks forever"));
                    return;
                }
                Some(Err(e)) => {
                    lg(&log, format!("opener{t}: open_stream Err({e})"));
                    return;
                }
                Some(Ok(x)) => x,
            };
            let id = st.id();
            first_stream.lock().unwrap().get_or_insert(st.clone());
            sess.disable_buffering();
            let dest = vec![1u8, 127, 0, 0, 1, 0, 80];
            match within(sess.write_data_frame(id, Bytes::from(dest))).await {
                None => {
                    vl(&log, "C09:inflight-write-blocks", format!("write of destination (stream {id}) blocks forever"));
                }
                Some(r) => lg(&log, format!("opener{t}: dest write ok={}", r.is_ok())),
            }
            // pending open: must resolve
            // the scripted server only ever answers stream 1 (or the id of an injected SYNACK)
            let answered = id == 1 || matches!(cause_for_opener, Cause::CloseRaceFrame { cmd: SYNACK, id: i, .. } if i == id);
            match within(rx).await {
                None => {
                    vl(
                        &log,
                        "C09:pending-open-never-resolved",
                        format!("open of stream {id} never resolved after the session ended"),
                    );
                    return;
                }
                Some(Ok(Ok(()))) => {
                    lg(&log, format!("opener{t}: open ok"));
                    if !answered {
                        vl(&log, "C09:pending-open-resolved-ok", format!("open of stream {id} reported success although the server never answered it"));
                    }
                }
                Some(Ok(Err(e))) => {
                    lg(&log, format!("opener{t}: open Err({})", e.to_string().chars().take(40).collect::<String>()));
                    return;
                }
                Some(Err(_)) => {
                    lg(&log, format!("opener{t}: open channel closed"));
                    return;
                }
            }
            // reader: blocked in read until released
            let reader = st.reader().clone();
            let mut total = 0usize;
            loop {
                let mut buf = [0u8; 16];
                let r = {
                    let mut g = reader.lock().await;
                    within(g.read(&mut buf)).await
                };
                match r {
                    None => {
                        vl(
                            &log,
                            "C09:reader-never-released",
                            format!("reader of stream {id} still blocked 1 h after the session ended (had read {total} bytes)"),
                        );
                        return;
                    }
                    Some(Ok(0)) => {
                        lg(&log, format!("opener{t}: reader EOF after {total}"));
                        return;
                    }
                    Some(Ok(n)) => total += n,
                    Some(Err(e)) => {
                        lg(&log, format!("opener{t}: reader Err({e}) after {total}"));
                        return;
                    }
                }
            }
        })));
    }
    // periodic writer on stream 1
    {
        let sess = sess.clone();
        let log = log.clone();
        handles.push(("writer", tokio::spawn(async move {
            for k in 0..4u64 {
                tokio::time::sleep(Duration::from_millis(if k == 0 { 100 } else { 1000 })).await;
                let closed_before = sess.is_closed();
                let r = within(sess.write_data_frame(1, Bytes::from(pat_vec(1, 0, (k * 5) as usize, 5)))).await;
                match r {
                    None => {
                        let closed_now = sess.is_closed();
                        vl(
                            &log,
                            if stalled { "C09:stalled-peer:inflight-write-never-cancelled" } else { "C09:inflight-write-blocks" },
                            format!("write_data_frame #{k} blocks forever (session closed now: {closed_now})"),
                        );
                        return;
                    }
                    Some(Ok(())) => {
                        if closed_before {
                            vl(&log, "C09:write-after-close-ok", format!("write #{k} started after is_closed()==true and returned Ok"));
                        }
                    }
                    Some(Err(_)) => {
                        lg(&log, format!("writer: write #{k} Err"));
                        return;
                    }
                }
            }
            lg(&log, "writer: all writes ok".into());
        })));
    }
    // owner actions
    let mut expect_closed = !matches!(p.cause, Cause::None);
    match p.cause.clone() {
        Cause::OwnerClose { at_ms, twice, .. } => {
            let n = if twice { 2 } else { 1 };
            for i in 0..n {
                let sess = sess.clone();
                let log = log.clone();
                handles.push(("closer", tokio::spawn(async move {
                    tokio::time::sleep(Duration::from_millis(at_ms)).await;
                    match within(sess.close()).await {
                        None => vl(&log, "C09:close-blocks", format!("close() #{i} blocks forever")),
                        Some(_) => lg(&log, format!("close #{i} returned at {}ms", now_ms(t0))),
                    }
                })));
            }
        }
        Cause::CloseRaceEof { at_ms } => {
            let sess2 = sess.clone();
            let log2 = log.clone();
            let inj2 = inj.clone();
            handles.push(("closer", tokio::spawn(async move {
                tokio::time::sleep(Duration::from_millis(at_ms)).await;
                inj2.close_write();
                match within(sess2.close()).await {
                    None => vl(&log2, "C09:close-blocks", "close() racing EOF blocks forever".into()),
                    Some(_) => {}
                }
            })));
        }
        Cause::CloseRaceFrame { at_ms, cmd, id } => {
            let sess2 = sess.clone();
            let log2 = log.clone();
            let inj2 = inj.clone();
            handles.push(("closer", tokio::spawn(async move {
                tokio::time::sleep(Duration::from_millis(at_ms)).await;
                inj2.push(&enc(cmd, id, if cmd == PSH { b"zz" } else { b"" }));
                // by default the receive loop gets to start on the frame before close() runs,
                // so that a single deviation inside its handler already overlaps the two
                crate::ctl::yield_once().await;
                crate::ctl::hpoint("h.c09.before_close").await;
                if within(sess2.close()).await.is_none() {
                    vl(&log2, "C09:close-blocks", format!("close() racing an inbound {} frame blocks forever", cmd_name(cmd)));
                }
            })));
        }
        Cause::StalledPeer { close_at_ms } => {
            let sess2 = sess.clone();
            let log2 = log.clone();
            handles.push(("closer", tokio::spawn(async move {
                tokio::time::sleep(Duration::from_millis(close_at_ms)).await;
                match within(sess2.close()).await {
                    None => vl(&log2, "C09:stalled-peer:close-blocks", "close() blocks forever while a writer is blocked by back-pressure towards a stalled peer".into()),
                    Some(_) => {}
                }
            })));
        }
        _ => {}
    }
    // Read faults beyond what the peer ever sends never trigger
    if let Cause::Read { offset, .. } = &p.cause {
        let total: usize = server_script().iter().map(|f| f.len()).sum();
        if *offset > total {
            expect_closed = false;
        }
    }
    // Janitor: at t = 300 s record whether the cause closed the session; if it
    // did not (cause never triggered, or a violation that is reported below),
    // close it so that the harness's own waiters end. A close() on an already
    // closed session is a no-op, so this cannot mask a missing release.
    let closed_by_cause = Arc::new(Mutex::new(None::<bool>));
    let janitor = {
        let sess = sess.clone();
        let cbc = closed_by_cause.clone();
        tokio::spawn(async move {
            tokio::time::sleep(Duration::from_secs(300)).await;
            let c = sess.is_closed();
            *cbc.lock().unwrap() = Some(c);
            if !c {
                let _ = within(sess.close()).await;
            }
        })
    };
    for (kind, h) in handles {
        match tokio::time::timeout(Duration::from_secs(3 * 3600), h).await {
            Ok(Ok(())) => {}
            Ok(Err(e)) => vl(&log, "panic:task", format!("{kind} task panicked: {e}")),
            Err(_) => vl(&log, "C09:waiter-never-finished", format!("{kind} task did not finish")),
        }
    }
    if p.cause == Cause::None {
        // nothing ended the session: the openers would wait forever by design; not reached (handles block)
    }
    let _ = janitor.await;
    let fs = first_stream.lock().unwrap().clone();
    let baseline = 1 + 0; // the harness's own Arc
    let triggered = fault_triggered(&p.cause, &wire);
    if !triggered {
        expect_closed = false;
    }
    let cbc = closed_by_cause.lock().unwrap().unwrap_or(sess.is_closed());
    if expect_closed && !cbc {
        out.viol("C09:not-visibly-closed", "session still open 300 s after the terminating event");
    } else if !expect_closed && cbc {
        out.viol("C09:closed-without-cause", "session closed although nothing terminated it");
    }
    if expect_closed && cbc {
        post_checks(&mut out, &log, &sess, &wire, true, fs, baseline, true).await;
    }
    peer_task.abort();
    let l = log.lock().unwrap();
    for (k, d) in &l.viols {
        out.viol(k.clone(), d.clone());
    }
    if stalled {
        // everything observed with a stalled peer is reported in its own class
        for v in out.violations.iter_mut() {
            if !v.key.starts_with("C09:stalled-peer:") {
                v.key = v.key.replacen("C09:", "C09:stalled-peer:", 1);
            }
        }
    }
    out.obs = format!("{:?} || {}", l.lines, fmt_frames(&parse_all(&wire.written()).0.into_iter().filter(|f| f.cmd != WASTE).collect::<Vec<_>>()));
    out
}

async fn run_server(p: Params) -> Outcome {
    let mut out = Outcome::default();
    let log: Arc<Mutex<Log>> = Arc::new(Mutex::new(Log::default()));
    let stalled = matches!(p.cause, Cause::StalledPeer { .. });
    let from_cfg = if stalled { PipeCfg::new("s2c").capacity(48) } else { PipeCfg::new("s2c") };
    let mut link = peer_link(PipeCfg::new("c2s"), from_cfg);
    let wire = link.peer.out.clone();
    let inj = link.peer.inj.clone();
    match &p.cause {
        Cause::Read { offset, kind } => inj.set_read_fault(*offset, *kind),
        Cause::Write { call } => wire.set_write_fault_call(*call),
        Cause::Flush { call } => wire.set_flush_fault_call(*call),
        Cause::OwnerClose { shutdown, .. } => wire.set_shutdown_mode(*shutdown),
        _ => {}
    }
    let ServerSide { sess, mut streams, .. } =
        start_server_session(link.sess_r, link.sess_w, padding(p.scheme), None);
    // scripted client: sends its whole script up front (a client does not wait)
    let script = client_script();
    for (i, f) in script.iter().enumerate() {
        if p.cause == (Cause::Alert { after_frame: i }) {
            link.peer.send(ALERT, 0, b"boom");
        }
        link.peer.send_raw(f);
    }
    if p.cause == (Cause::Alert { after_frame: script.len() }) {
        link.peer.send(ALERT, 0, b"boom");
    }
    let peer_log = log.clone();
    let peer_task = tokio::spawn(async move {
        if stalled {
            std::future::pending::<()>().await;
        }
        while link.peer.next_frame().await.is_some() {}
        lg(&peer_log, "peer: session closed its side; peer closes too".into());
        link.peer.close_write();
        std::future::pending::<()>().await;
    });
    // handler tasks: one per accepted stream: read until EOF, echo through send_data
    let first_stream: Arc<Mutex<Option<Arc<anytls_rs::session::Stream>>>> = Arc::new(Mutex::new(None));
    let fs2 = first_stream.clone();
    let log2 = log.clone();
    let sess2 = sess.clone();
    let handler_tasks: Arc<Mutex<Vec<tokio::task::JoinHandle<()>>>> = Arc::new(Mutex::new(vec![]));
    let ht2 = handler_tasks.clone();
    let acceptor = tokio::spawn(async move {
        while let Some(st) = streams.recv().await {
            fs2.lock().unwrap().get_or_insert(st.clone());
            let log = log2.clone();
            let sess = sess2.clone();
            let h = tokio::spawn(async move {
                let id = st.id();
                let reader = st.reader().clone();
                let mut total = 0usize;
                let mut k = 0u32;
                loop {
                    let mut buf = [0u8; 16];
                    let r = {
                        let mut g = reader.lock().await;
                        within(g.read(&mut buf)).await
                    };
                    match r {
                        None => {
                            vl(&log, "C09:reader-never-released", format!("server-side reader of stream {id} still blocked 1 h after the session ended (had read {total} bytes)"));
                            return;
                        }
                        Some(Ok(0)) => {
                            lg(&log, format!("handler{id}: EOF after {total}"));
                            return;
                        }
                        Some(Err(e)) => {
                            lg(&log, format!("handler{id}: Err({e}) after {total}"));
                            return;
                        }
                        Some(Ok(n)) => {
                            total += n;
                            k += 1;
                            // answer: alternately through the forwarding task and directly
                            if k % 2 == 0 {
                                let _ = st.send_data(Bytes::copy_from_slice(&buf[..n]));
                            } else {
                                match within(sess.write_data_frame(id, Bytes::copy_from_slice(&buf[..n]))).await {
                                    None => {
                                        vl(&log, if stalled {"C09:stalled-peer:inflight-write-never-cancelled"} else {"C09:inflight-write-blocks"}, format!("server write on stream {id} blocks forever"));
                                        return;
                                    }
                                    Some(_) => {}
                                }
                            }
                        }
                    }
                }
            });
            ht2.lock().unwrap().push(h);
        }
    });
    let mut handles: Vec<(&'static str, tokio::task::JoinHandle<()>)> = vec![];
    let mut expect_closed = !matches!(p.cause, Cause::None);
    match p.cause.clone() {
        Cause::OwnerClose { at_ms, twice, .. } => {
            for i in 0..if twice { 2 } else { 1 } {
                let sess = sess.clone();
                let log = log.clone();
                handles.push(("closer", tokio::spawn(async move {
                    tokio::time::sleep(Duration::from_millis(at_ms)).await;
                    if within(sess.close()).await.is_none() {
                        vl(&log, "C09:close-blocks", format!("close() #{i} blocks forever"));
                    }
                })));
            }
        }
        Cause::CloseRaceEof { at_ms } => {
            let sess2 = sess.clone();
            let log2 = log.clone();
            let inj2 = inj.clone();
            handles.push(("closer", tokio::spawn(async move {
                tokio::time::sleep(Duration::from_millis(at_ms)).await;
                inj2.close_write();
                if within(sess2.close()).await.is_none() {
                    vl(&log2, "C09:close-blocks", "close() racing EOF blocks forever".into());
                }
            })));
        }
        Cause::CloseRaceFrame { at_ms, cmd, id } => {
            let sess2 = sess.clone();
            let log2 = log.clone();
            let inj2 = inj.clone();
            handles.push(("closer", tokio::spawn(async move {
                tokio::time::sleep(Duration::from_millis(at_ms)).await;
                inj2.push(&enc(cmd, id, if cmd == PSH { b"zz" } else { b"" }));
                // by default the receive loop gets to start on the frame before close() runs,
                // so that a single deviation inside its handler already overlaps the two
                crate::ctl::yield_once().await;
                crate::ctl::hpoint("h.c09.before_close").await;
                if within(sess2.close()).await.is_none() {
                    vl(&log2, "C09:close-blocks", format!("close() racing an inbound {} frame blocks forever", cmd_name(cmd)));
                }
            })));
        }
        Cause::StalledPeer { close_at_ms } => {
            let sess2 = sess.clone();
            let log2 = log.clone();
            handles.push(("closer", tokio::spawn(async move {
                tokio::time::sleep(Duration::from_millis(close_at_ms)).await;
                if within(sess2.close()).await.is_none() {
                    vl(&log2, "C09:stalled-peer:close-blocks", "close() blocks forever while a writer is blocked by back-pressure towards a stalled peer".into());
                }
            })));
        }
        Cause::HeartbeatSilence => {
            expect_closed = false; // servers have no liveness monitor
        }
        _ => {}
    }
    if let Cause::Read { offset, .. } = &p.cause {
        let total: usize = client_script().iter().map(|f| f.len()).sum();
        if *offset > total {
            expect_closed = false;
        }
    }
    let closed_by_cause = Arc::new(Mutex::new(None::<bool>));
    let janitor = {
        let sess = sess.clone();
        let cbc = closed_by_cause.clone();
        tokio::spawn(async move {
            tokio::time::sleep(Duration::from_secs(300)).await;
            let c = sess.is_closed();
            *cbc.lock().unwrap() = Some(c);
            if !c {
                let _ = within(sess.close()).await;
            }
        })
    };
    tokio::time::sleep(Duration::from_secs(301)).await;
    let hs: Vec<_> = handler_tasks.lock().unwrap().drain(..).collect();
    for h in hs {
        handles.push(("handler", h));
    }
    for (kind, h) in handles {
        match tokio::time::timeout(Duration::from_secs(3 * 3600), h).await {
            Ok(Ok(())) => {}
            Ok(Err(e)) => vl(&log, "panic:task", format!("{kind} task panicked: {e}")),
            Err(_) => vl(&log, "C09:waiter-never-finished", format!("{kind} task did not finish")),
        }
    }
    acceptor.abort();
    let _ = acceptor.await;
    let _ = janitor.await;
    let fs = first_stream.lock().unwrap().clone();
    if !fault_triggered(&p.cause, &wire) {
        expect_closed = false;
    }
    let cbc = closed_by_cause.lock().unwrap().unwrap_or(sess.is_closed());
    if expect_closed && !cbc {
        out.viol("C09:not-visibly-closed", "session still open 300 s after the terminating event");
    } else if !expect_closed && cbc {
        out.viol("C09:closed-without-cause", "session closed although nothing terminated it");
    }
    if expect_closed && cbc {
        post_checks(&mut out, &log, &sess, &wire, true, fs, 1, false).await;
    }
    peer_task.abort();
    let l = log.lock().unwrap();
    for (k, d) in &l.viols {
        out.viol(k.clone(), d.clone());
    }
    if stalled {
        // everything observed with a stalled peer is reported in its own class
        for v in out.violations.iter_mut() {
            if !v.key.starts_with("C09:stalled-peer:") {
                v.key = v.key.replacen("C09:", "C09:stalled-peer:", 1);
            }
        }
    }
    out.obs = format!("{:?} || {}", l.lines, fmt_frames(&parse_all(&wire.written()).0));
    out
}

pub fn params_json(p: &Params) -> serde_json::Value {
    json!({"role": if p.client_role {"client"} else {"server"}, "cause": format!("{:?}", p.cause), "scheme": if p.scheme == STOP0 {"stop0"} else if p.scheme == BRANCHY {"branchy"} else {"default"}, "second_opener": p.second_opener})
}

pub fn all_params(tier: Tier) -> Vec<(Params, usize)> {
    let mut v = vec![];
    let thorough = tier.is_thorough();
    for client_role in [true, false] {
        let total: usize = if client_role {
            server_script().iter().map(|f| f.len()).sum()
        } else {
            client_script().iter().map(|f| f.len()).sum()
        };
        let nframes = if client_role { server_script().len() } else { client_script().len() };
        let mut causes: Vec<(Cause, usize)> = vec![];
        // every byte offset x 3 read-failure kinds
        for off in 0..=total {
            for kind in [ReadFault::Eof, ReadFault::Reset, ReadFault::UnexpectedEof] {
                causes.push((Cause::Read { offset: off, kind }, if thorough { 1 } else { 0 }));
            }
        }
        // frame-boundary offsets get schedule deviations too
        let mut acc = 0;
        let script = if client_role { server_script() } else { client_script() };
        for f in &script {
            for off in [acc, acc + 3, acc + 7] {
                causes.push((Cause::Read { offset: off, kind: ReadFault::Eof }, if thorough { 2 } else { 1 }));
                causes.push((Cause::Read { offset: off, kind: ReadFault::Reset }, if thorough { 2 } else { 1 }));
            }
            acc += f.len();
        }
        for call in 0..44 {
            causes.push((Cause::Write { call }, if thorough { 2 } else { 1 }));
        }
        for call in 0..14 {
            causes.push((Cause::Flush { call }, if thorough { 2 } else { 1 }));
        }
        for j in 0..=nframes {
            causes.push((Cause::Alert { after_frame: j }, if thorough { 2 } else { 1 }));
        }
        if client_role {
            causes.push((Cause::HeartbeatSilence, if thorough { 2 } else { 1 }));
        }
        for at_ms in [0u64, 50, 100, 700, 1100, 5000] {
            for twice in [false, true] {
                causes.push((
                    Cause::OwnerClose { at_ms, twice, shutdown: ShutdownMode::Ok },
                    if thorough { 2 } else { 1 },
                ));
            }
            causes.push((Cause::CloseRaceEof { at_ms }, if thorough { 2 } else { 1 }));
        }
        for (cmd, id) in [(FIN, 1u32), (FIN, 2), (FIN, 9), (PSH, 1), (SYNACK, 2), (SYN, 5), (HEART_REQ, 0), (HEART_RESP, 0), (SETTINGS, 0), (SERVER_SETTINGS, 0), (UPDATE_PADDING, 0), (ALERT, 0)] {
            for at_ms in [700u64, 0] {
                if at_ms == 0 && !thorough {
                    continue;
                }
                causes.push((Cause::CloseRaceFrame { at_ms, cmd, id }, if thorough { 2 } else { 1 }));
            }
        }
        causes.push((Cause::OwnerClose { at_ms: 700, twice: false, shutdown: ShutdownMode::Err }, 1));
        causes.push((Cause::OwnerClose { at_ms: 700, twice: true, shutdown: ShutdownMode::Never }, 1));
        causes.push((Cause::StalledPeer { close_at_ms: 3000 }, 1));
        for (cause, bound) in causes {
            let writeish = matches!(cause, Cause::Write { .. } | Cause::Flush { .. });
            let schemes: Vec<&'static str> = if writeish { vec![STOP0, DEFAULT, BRANCHY] } else if thorough || bound > 0 { vec![STOP0, DEFAULT] } else { vec![STOP0] };
            for scheme in schemes {
                if !client_role && scheme != STOP0 {
                    continue; // servers never pad
                }
                if let Cause::Write { call } = &cause
                    && *call >= 14
                    && scheme != BRANCHY
                {
                    continue; // only the many-writes scheme reaches that many write calls
                }
                v.push((
                    Params { client_role, cause: cause.clone(), scheme, second_opener: client_role },
                    bound,
                ));
            }
        }
    }
    v
}

pub fn items(tier: Tier) -> Vec<DxItem> {
    all_params(tier)
        .into_iter()
        .map(|(p, b)| {
            let long = matches!(p.cause, Cause::CloseRaceFrame { .. } | Cause::CloseRaceEof { .. });
            let mut it = DxItem::new(params_json(&p), make(p), b);
            if long {
                it.exec.long_yield = 4;
                it.exec.quiesce = true;
            }
            it
        })
        .collect()
}

pub fn run(tier: Tier) -> i32 {
    let mut rep = Report::new("C09", tier, "fault_enumeration");
    rep.assumptions = vec![
        "vpipe environment (DESIGN 4.2): reliable ordered byte stream; a well-behaved peer closes its side when it sees the session's shutdown".into(),
        "'forever' = still pending after a 1 h virtual horizon with no further external events".into(),
        "the stalled-peer class (peer neither reads nor closes) is legal for longer than any application timeout (TCP zero window)".into(),
    ];
    let cap = Duration::from_secs(if tier.is_thorough() { 1500 } else { 60 });
    run_items(
        &mut rep,
        "C09",
        tier,
        items(tier),
        DxOpts { time_cap: cap, det_replays: 1, max_violations: 2, vacuity_check: false },
    );
    lx_server_release(&mut rep);
    rep.finish("fault enumeration x DX: {client, server role} x {EOF/reset/unexpected-EOF at every byte offset of the peer stream, failure at every write call and flush, Alert at every frame boundary, keep-alive silence, owner close (once, twice, racing EOF, failing/hanging shutdown), stalled peer} x <= B scheduling deviations; waiters: blocked reader, pending open, in-flight writer; non-trivial = distinct trace with >= 1 deviation")
}

/// LX: the real Server must release a session's TCP connection once the session has ended
/// (client went away): no socket of the server port may linger in CLOSE_WAIT.
fn lx_server_release(rep: &mut Report) {
    use crate::lx::*;
    use tokio::io::AsyncWriteExt;
    let rt = crate::semi::rt_multi();
    let res: Result<(usize, usize, usize), String> = rt.block_on(async {
        let lx = start_lx("pw", "pw", pool_cfg(3600, 3600, 1), false, false).await?;
        let target = start_target("127.0.0.1", TargetMode::Echo, vec![]).await;
        let n = 24usize;
        let fds_before = std::fs::read_dir("/proc/self/fd").map(|d| d.count()).unwrap_or(0);
        let hash = anytls_rs::util::auth::hash_password("pw");
        let mut conns = vec![];
        for i in 0..n {
            let cfg = anytls_rs::util::tls::create_client_config().map_err(|e| e.to_string())?;
            let connector = tokio_rustls::TlsConnector::from(cfg);
            let tcp = tokio::net::TcpStream::connect(lx.server_addr).await.map_err(|e| e.to_string())?;
            let mut tls = connector.connect(tokio_rustls::rustls::pki_types::ServerName::try_from("localhost").unwrap(), tcp).await.map_err(|e| e.to_string())?;
            let mut bytes = hash.to_vec();
            bytes.extend_from_slice(&[0, 0]);
            bytes.extend_from_slice(&enc(SETTINGS, 0, b"v=2\nclient=x\npadding-md5=0"));
            let _ = (i, &target); // sessions without streams: only the session's own transport is at stake
            tls.write_all(&bytes).await.map_err(|e| e.to_string())?;
            tls.flush().await.map_err(|e| e.to_string())?;
            conns.push(tls);
        }
        tokio::time::sleep(Duration::from_millis(300)).await;
        // the clients go away: a third shut down cleanly, the rest just drop the connection
        for (i, mut c) in conns.into_iter().enumerate() {
            if i % 3 == 0 {
                let _ = c.shutdown().await;
            }
            drop(c);
        }
        // count server-side sockets of these sessions that are still held
        let port_hex = format!(":{:04X}", lx.server_addr.port());
        let mut lingering = 0usize;
        let mut worst = 0usize;
        for round in 0..30 {
            tokio::time::sleep(Duration::from_millis(100)).await;
            let text = tokio::fs::read_to_string("/proc/net/tcp").await.unwrap_or_default();
            lingering = text.lines().skip(1).filter(|l| {
                let f: Vec<&str> = l.split_whitespace().collect();
                // local address is the server port, state CLOSE_WAIT (08) or ESTABLISHED (01)
                f.len() > 3 && f[1].ends_with(&port_hex) && (f[3] == "08" || f[3] == "01")
            }).count();
            worst = worst.max(lingering);
            // the server runs in this process: its descriptors are ours
            let fds_now = std::fs::read_dir("/proc/self/fd").map(|d| d.count()).unwrap_or(0);
            lingering = lingering.max(fds_now.saturating_sub(fds_before + 2));
            if lingering == 0 && round >= 2 {
                break;
            }
        }
        Ok((n, lingering, worst))
    });
    drop(rt);
    match res {
        Err(e) => rep.machinery(format!("LX server-release: {e}")),
        Ok((n, lingering, _worst)) => {
            rep.case(Some("lx server releases transports"));
            rep.sections.insert("lx_server_release".into(), json!({"sessions": n, "sockets_still_held_after_3s": lingering}));
            if lingering > 0 {
                rep.violation(
                    "C09:server:transport-never-released",
                    &format!("{lingering} of {n} server-side TCP connections / socket descriptors are still held 3 s after their clients went away: the ended sessions and their sockets are never released"),
                    json!({"engine": "LX", "sessions": n}),
                );
            }
        }
    }
}

pub fn replay(file: &str) -> i32 {
    crate::dxrun::replay(file, items)
}

fn fault_triggered(cause: &Cause, wire: &crate::vpipe::Pipe) -> bool {
    use crate::vpipe::Ev;
    match cause {
        Cause::Write { .. } => wire.log().iter().any(|e| matches!(e, Ev::WriteErr { .. })),
        Cause::Flush { .. } => wire
            .log()
            .iter()
            .any(|e| matches!(e, Ev::Flush { ok: false, .. } | Ev::WriteErr { .. })),
        _ => true,
    }
}
