//! C19 — a padding scheme pushed by the server takes effect on the client.
//! BX over process histories; every history runs in a fresh child process
//! (the default scheme is process-global state).

use crate::ctl::{DrawPolicy, ExecCfg, Outcome, run_exec, scenario, settle};
use crate::props::pad::batches;
use crate::refmodel::*;
use crate::report::{Report, Tier};
use crate::sess::*;
use crate::vpipe::PipeCfg;
use anytls_rs::padding::PaddingFactory;
use anytls_rs::session::Session;
use bytes::Bytes;
use serde_json::json;
use std::sync::{Arc, Mutex};
use std::time::Duration;
use tokio::io::{AsyncReadExt, AsyncWriteExt};

fn scheme(n: usize) -> String {
    // every packet below stop is one write of exactly n bytes (payload + padding); sizes are disjoint per scheme
    let mut s = "stop=40".to_string();
    for k in 0..40 {
        s.push_str(&format!("\n{k}={n}-{n}"));
    }
    s
}

fn scheme_b_retyped() -> String {
    format!("# revision 2\n{}\n", scheme(200).replace('=', " = "))
}

/// Scheme texts of REAL server sessions (ops P / p): texts that end in whitespace, as a scheme read from a file does.
fn real_server_text(c: char) -> String {
    if c == 'P' { format!("{}\n", scheme(200)) } else { format!("{}\r\n\r\n", scheme(300)) }
}

fn scheme_of(c: char) -> Option<String> {
    match c {
        'B' => Some(scheme(200)),
        'C' => Some(scheme(300)),
        // the same lines as B in a different text (comment line, spaces): another md5 for the server, an equal parsed scheme
        'b' => Some(scheme_b_retyped()),
        'D' => Some(DEFAULT.to_string()), // the built-in default text, pushed by a server that runs it
        'X' => Some("this is not a scheme".to_string()), // no stop= : cannot be parsed
        'Y' => Some("stop=abc\n1=5-5".to_string()),
        _ => None,
    }
}

/// History alphabet (one char per op):
///  T  touch the built-in default (what bin/client.rs does at start-up)
///  B C X Y  a session whose server pushes that scheme, followed by shaped writes
///  R  a client request through the real Client against a scripted TLS server using scheme B ('r': scheme C)
pub fn child(history: &str) -> i32 {
    let rt = tokio::runtime::Builder::new_multi_thread().worker_threads(2).enable_all().build().unwrap();
    // the scheme the client side starts with: the process default, as the client binary does
    let mut out: Vec<serde_json::Value> = vec![];
    // model: which scheme should be in force for new sessions (None = built-in default)
    let mut current: Option<String> = None;
    let mut world: Option<World> = None;
    // 'Z' first: the client is constructed with a custom scheme instead of the process default
    let custom = history.starts_with('Z');
    let client_factory = || -> Arc<PaddingFactory> {
        if custom {
            // what client.rs does for a new session: the updated default if any, else the construction-time scheme
            PaddingFactory::updated_default().unwrap_or_else(|| padding(&scheme(150)))
        } else {
            PaddingFactory::default()
        }
    };
    if custom {
        // a process normally touches the built-in default at start-up (bin/client.rs does) even when configured otherwise
        let _ = PaddingFactory::default();
    }
    for (step, op) in history.chars().enumerate() {
        match op {
            'T' => {
                let f = PaddingFactory::default();
                out.push(json!({"step": step, "op": "T", "md5": f.md5()}));
            }
            'B' | 'b' | 'C' | 'D' | 'X' | 'Y' => {
                let pushed = scheme_of(op).unwrap();
                let parsable = parse_scheme(&pushed).is_some();
                let factory = client_factory();
                let slot: Arc<Mutex<Option<serde_json::Value>>> = Arc::new(Mutex::new(None));
                let slot2 = slot.clone();
                let pushed2 = pushed.clone();
                let expect_before = current.clone();
                let sc = scenario(move || {
                    let slot2 = slot2.clone();
                    let pushed2 = pushed2.clone();
                    let expect_before = expect_before.clone();
                    let factory = factory.clone();
                    async move {
                        let link = peer_link(PipeCfg::new("s2c"), PipeCfg::new("c2s"));
                        let wire = link.peer.out.clone();
                        // the client side uses the process default, like the real client
                        let sess = Arc::new(Session::new_client(link.sess_r, link.sess_w, factory, None));
                        let s2 = sess.clone();
                        tokio::spawn(async move {
                            let _ = s2.recv_loop().await;
                        });
                        let peer = link.peer;
                        let inj = peer.inj.clone();
                        tokio::spawn(peer.sink());
                        // two packets before the push
                        let mut res = vec![];
                        for i in 0..2 {
                            res.push(sess.write_data_frame(1, Bytes::from(vec![i as u8; 20])).await.is_ok());
                        }
                        inj.push(&enc(UPDATE_PADDING, 0, pushed2.as_bytes()));
                        settle().await;
                        tokio::time::sleep(Duration::from_millis(10)).await;
                        for i in 0..3 {
                            res.push(sess.write_data_frame(1, Bytes::from(vec![9 + i as u8; 20])).await.is_ok());
                        }
                        let b = batches(&wire);
                        let sizes: Vec<Vec<usize>> = b.iter().map(|x| x.0.clone()).collect();
                        let parse_ok = b.iter().all(|x| parse_all(&x.1).1 == 0);
                        *slot2.lock().unwrap() = Some(json!({"writes": sizes, "ok": res, "wire_parses": parse_ok, "closed": sess.is_closed(), "expect_before": expect_before}));
                        Outcome::default()
                    }
                });
                let mut cfg = ExecCfg::default();
                cfg.draw = DrawPolicy::Min;
                let rec = run_exec(&sc, &cfg, &[], 0);
                let r = slot.lock().unwrap().take();
                out.push(json!({"step": step, "op": op.to_string(), "pushed_parsable": parsable, "result": r, "panics": rec.outcome.violations.iter().map(|v| v.detail.clone()).collect::<Vec<_>>()}));
                if parsable {
                    current = Some(pushed);
                }
            }
            'P' | 'p' => {
                // a real client session against a REAL server session (in-memory): the server's own push decision and payload
                let text = real_server_text(op);
                let factory = client_factory();
                let slot: Arc<Mutex<Option<serde_json::Value>>> = Arc::new(Mutex::new(None));
                let slot2 = slot.clone();
                let text2 = text.clone();
                let sc = scenario(move || {
                    let slot2 = slot2.clone();
                    let text2 = text2.clone();
                    let factory = factory.clone();
                    async move {
                        let (cw, sr, c2s) = crate::vpipe::pipe(PipeCfg::new("c2s"));
                        let (sw, cr, s2c) = crate::vpipe::pipe(PipeCfg::new("s2c"));
                        let Ok(sf) = PaddingFactory::new(text2.as_bytes()) else { return Outcome::default() };
                        let _side = start_server_session(sr, sw, Arc::new(sf), None);
                        let Ok(client) = start_client_session(cr, cw, factory, None, 0).await else { return Outcome::default() };
                        if let Ok((st, _rx)) = client.open_stream().await {
                            client.disable_buffering();
                            let _ = client.write_data_frame(st.id(), Bytes::from_static(b"x")).await;
                        }
                        settle().await;
                        tokio::time::sleep(Duration::from_millis(10)).await;
                        let (cf, _) = parse_all(&c2s.written());
                        let (sf, _) = parse_all(&s2c.written());
                        let announced = cf.iter().find(|f| f.cmd == SETTINGS).and_then(|f| String::from_utf8_lossy(&f.data).lines().find_map(|l| l.strip_prefix("padding-md5=").map(|x| x.trim().to_string())));
                        let pushed: Vec<String> = sf.iter().filter(|f| f.cmd == UPDATE_PADDING).map(|f| format!("{:x}", md5::compute(&f.data))).collect();
                        *slot2.lock().unwrap() = Some(json!({"announced_md5": announced, "pushes": pushed, "server_md5": format!("{:x}", md5::compute(text2.as_bytes()))}));
                        Outcome::default()
                    }
                });
                let rec = run_exec(&sc, &ExecCfg::default(), &[], 0);
                let r = slot.lock().unwrap().take();
                let pushed = r.as_ref().map(|v| !v["pushes"].as_array().map(|a| a.is_empty()).unwrap_or(true)).unwrap_or(false);
                out.push(json!({"step": step, "op": op.to_string(), "result": r, "panics": rec.outcome.violations.iter().map(|v| v.detail.clone()).collect::<Vec<_>>()}));
                if pushed {
                    current = Some(text);
                }
            }
            'R' | 'r' | 'd' | 'q' => {
                let srv_scheme = if op == 'R' { scheme(200) } else if op == 'r' { scheme(300) } else if op == 'q' { scheme_b_retyped() } else { DEFAULT.to_string() };
                let w = world.get_or_insert_with(|| rt.block_on(World::start(custom)));
                let r = rt.block_on(w.request(&srv_scheme));
                out.push(json!({"step": step, "op": op.to_string(), "result": r}));
                if r.get("pushed").and_then(|p| p.as_bool()) == Some(true) {
                    current = Some(srv_scheme);
                }
            }
            _ => {}
        }
    }
    println!("C19CHILD {}", serde_json::to_string(&out).unwrap());
    0
}

/// The client of this process (created once, with the process default scheme as of its creation, like
/// the client binary) and a scripted TLS server that reads the announced padding-md5 of every new
/// session and pushes its scheme when it differs.
struct World {
    client: Arc<anytls_rs::client::Client>,
    scheme: Arc<Mutex<String>>,
    seen: Arc<Mutex<Vec<(Option<String>, bool, usize)>>>,
}

impl World {
    async fn start(custom: bool) -> World {
        let tls = anytls_rs::util::tls::create_server_config().unwrap();
        let acceptor = tokio_rustls::TlsAcceptor::from(tls);
        let l = tokio::net::TcpListener::bind("127.0.0.1:0").await.unwrap();
        let addr = l.local_addr().unwrap();
        let scheme_cell = Arc::new(Mutex::new(String::new()));
        let seen: Arc<Mutex<Vec<(Option<String>, bool, usize)>>> = Arc::new(Mutex::new(vec![]));
        let sc = scheme_cell.clone();
        let sn = seen.clone();
        tokio::spawn(async move {
            loop {
                let Ok((tcp, _)) = l.accept().await else { return };
                let acceptor = acceptor.clone();
                let srv_scheme = sc.lock().unwrap().clone();
                let sn = sn.clone();
                tokio::spawn(async move {
                    let srv_md5 = format!("{:x}", md5::compute(srv_scheme.as_bytes()));
                    let Ok(mut s) = acceptor.accept(tcp).await else { return };
                    let mut pre = [0u8; 34];
                    if s.read_exact(&mut pre).await.is_err() {
                        return;
                    }
                    let pad = u16::from_be_bytes([pre[32], pre[33]]) as usize;
                    let mut skip = vec![0u8; pad];
                    if s.read_exact(&mut skip).await.is_err() {
                        return;
                    }
                    let mut buf: Vec<u8> = vec![];
                    let mut tmp = [0u8; 4096];
                    loop {
                        let Ok(n) = s.read(&mut tmp).await else { return };
                        if n == 0 {
                            return;
                        }
                        buf.extend_from_slice(&tmp[..n]);
                        let (frames, left) = parse_all(&buf);
                        let consumed = buf.len() - left;
                        buf.drain(..consumed);
                        for f in frames {
                            match f.cmd {
                                SETTINGS => {
                                    let text = String::from_utf8_lossy(&f.data).to_string();
                                    let announced = text.lines().find_map(|l| l.strip_prefix("padding-md5=").map(|x| x.trim().to_string()));
                                    let push = announced.as_deref() != Some(srv_md5.as_str());
                                    if push {
                                        let _ = s.write_all(&enc(UPDATE_PADDING, 0, srv_scheme.as_bytes())).await;
                                    }
                                    let _ = s.write_all(&enc(SERVER_SETTINGS, 0, b"v=2")).await;
                                    let _ = s.flush().await;
                                    sn.lock().unwrap().push((announced, push, pad));
                                }
                                PSH => {
                                    let _ = s.write_all(&enc(SYNACK, f.id, b"")).await;
                                    let _ = s.flush().await;
                                }
                                _ => {}
                            }
                        }
                    }
                });
            }
        });
        // like bin/client.rs: the client is built once with the process default scheme
        let construction = if custom { padding(&scheme(150)) } else { PaddingFactory::default() };
        let client = crate::lx::make_client("pw", addr, construction, crate::lx::pool_cfg(3600, 3600, 1));
        World { client, scheme: scheme_cell, seen }
    }

    /// One request on a NEW session (earlier sessions are closed) against the server using `srv_scheme`.
    async fn request(&self, srv_scheme: &str) -> serde_json::Value {
        *self.scheme.lock().unwrap() = srv_scheme.to_string();
        let before = self.seen.lock().unwrap().len();
        let r = tokio::time::timeout(Duration::from_secs(8), self.client.create_proxy_stream(("example.test".to_string(), 80))).await;
        let req_ok = matches!(r, Ok(Ok(_)));
        tokio::time::sleep(Duration::from_millis(150)).await;
        if let Ok(Ok((_st, sess))) = r {
            let _ = sess.close().await;
        }
        let seen = self.seen.lock().unwrap().get(before).cloned();
        let srv_md5 = format!("{:x}", md5::compute(srv_scheme.as_bytes()));
        json!({"request_ok": req_ok, "new_session": seen.is_some(), "announced_md5": seen.as_ref().and_then(|x| x.0.clone()), "pushed": seen.as_ref().map(|x| x.1), "preamble_padding": seen.as_ref().map(|x| x.2), "server_md5": srv_md5})
    }
}

fn scheme_stop(n: usize, stop: usize) -> String {
    let mut s = format!("stop={stop}");
    for k in 0..stop {
        s.push_str(&format!("\n{k}={n}-{n}"));
    }
    s
}

/// Per-session clause on one session with explicit factories: `k` packets under the announced scheme
/// (size 150, stop `old_stop`), then a push of a scheme (size 200, stop `new_stop`), then `m` packets.
/// Returns the write sizes of every packet.
pub fn session_case(old_stop: usize, new_stop: usize, k: usize, m: usize) -> Result<Vec<Vec<usize>>, String> {
    let slot: Arc<Mutex<Option<Result<Vec<Vec<usize>>, String>>>> = Arc::new(Mutex::new(None));
    let slot2 = slot.clone();
    let sc = scenario(move || {
        let slot2 = slot2.clone();
        async move {
            let link = peer_link(PipeCfg::new("s2c"), PipeCfg::new("c2s"));
            let wire = link.peer.out.clone();
            let sess = Arc::new(Session::new_client(link.sess_r, link.sess_w, padding(&scheme_stop(150, old_stop)), None));
            let s2 = sess.clone();
            tokio::spawn(async move {
                let _ = s2.recv_loop().await;
            });
            let peer = link.peer;
            let inj = peer.inj.clone();
            tokio::spawn(peer.sink());
            let mut ok = true;
            for i in 0..k {
                ok &= sess.write_data_frame(1, Bytes::from(vec![i as u8; 20])).await.is_ok();
            }
            inj.push(&enc(UPDATE_PADDING, 0, scheme_stop(200, new_stop).as_bytes()));
            settle().await;
            tokio::time::sleep(Duration::from_millis(10)).await;
            for i in 0..m {
                ok &= sess.write_data_frame(1, Bytes::from(vec![100 + i as u8; 20])).await.is_ok();
            }
            let b = batches(&wire);
            let parse_ok = b.iter().all(|x| parse_all(&x.1).1 == 0);
            *slot2.lock().unwrap() = Some(if !ok || sess.is_closed() || !parse_ok { Err(format!("writes ok {ok}, closed {}, wire parses {parse_ok}", sess.is_closed())) } else { Ok(b.iter().map(|x| x.0.clone()).collect()) });
            Outcome::default()
        }
    });
    let mut cfg = ExecCfg::default();
    cfg.draw = DrawPolicy::Min;
    let rec = run_exec(&sc, &cfg, &[], 0);
    if let Some(v) = rec.outcome.violations.first() {
        return Err(format!("scenario failed: {}", v.detail));
    }
    slot.lock().unwrap().take().unwrap_or(Err("no result".into()))
}

/// Exhaustive grid over (stop of the announced scheme, stop of the pushed scheme, packets sent before the push).
fn session_grid(rep: &mut Report, thorough: bool) {
    let stops: Vec<usize> = if thorough { vec![1, 2, 3, 4, 5, 8, 12] } else { vec![1, 2, 3, 5, 8] };
    let m = 4;
    let mut cases = 0u64;
    for &old_stop in &stops {
        for &new_stop in &stops {
            for k in 0..=(old_stop.max(new_stop) + 1) {
                cases += 1;
                let label = format!("session announced a scheme with stop={old_stop} (size 150), {k} packet(s) sent, push of a scheme with stop={new_stop} (size 200), {m} more packets");
                rep.case(Some(&format!("grid:{old_stop}:{new_stop}:{k}")));
                let replay = json!({"engine": "IX-session-grid", "old_stop": old_stop, "new_stop": new_stop, "packets_before_push": k});
                let writes = match session_case(old_stop, new_stop, k, m) {
                    Ok(w) => w,
                    Err(e) => {
                        rep.violation("C19:session-disturbed", &format!("{label}: {e}"), replay);
                        continue;
                    }
                };
                // reference: packet p (1-based) is one write of the scheme's size while p < stop of the scheme in force, else the bare 27-byte frame
                let want: Vec<Vec<usize>> = (1..=k + m).map(|p| if p <= k { if p < old_stop { vec![150] } else { vec![27] } } else if p < new_stop { vec![200] } else { vec![27] }).collect();
                if writes != want {
                    let first = (0..want.len()).find(|i| writes.get(*i) != want.get(*i)).unwrap_or(0);
                    let key = if first < k { "C19:announced-scheme-not-applied" } else { "C19:pushed-scheme-not-adopted-by-session" };
                    rep.violation(key, &format!("{label}: packet {} went out as {:?}, the scheme in force prescribes {:?} (all packets: {:?})", first + 1, writes.get(first), want[first], writes), replay);
                }
            }
        }
    }
    rep.sections.insert("session_grid".into(), json!({"cases": cases, "stops": stops, "packets_after_push": m, "packets_before_push": "0..=max(stop)+1"}));
}

/// Padding length that line 0 of the scheme with this md5 prescribes for the authentication preamble
/// (all schemes of the alphabet have a fixed-size line 0).
pub fn preamble_pad_of(md5_hex: &str) -> Option<usize> {
    for text in [scheme(200), scheme(300), scheme(150), scheme_b_retyped(), DEFAULT.to_string(), real_server_text('P'), real_server_text('p')] {
        if format!("{:x}", md5::compute(text.as_bytes())) == md5_hex {
            let sch = parse_scheme(&text)?;
            return sch.lines.get(&0).and_then(|l| l.iter().find_map(|e| if let Entry::Range(a, b) = e { if a == b { Some(*a as usize) } else { None } } else { None }));
        }
    }
    None
}

/// (history, step, announced md5, preamble padding, padding prescribed by line 0 of the announced scheme) for every
/// client request of the given histories, each history in a fresh child process. Used by C05 for its preamble clause
/// at the level of the real Client.
pub fn client_preambles(histories: &[&str]) -> Vec<Result<(String, u64, String, usize, usize), String>> {
    let exe = crate::det::self_exe();
    let mut out = vec![];
    for h in histories {
        let o = match std::process::Command::new(&exe).arg("__c19child").arg(h).output() {
            Ok(o) => o,
            Err(e) => {
                out.push(Err(format!("history {h}: cannot spawn child: {e}")));
                continue;
            }
        };
        let text = String::from_utf8_lossy(&o.stdout).to_string();
        let Some(line) = text.lines().find(|l| l.starts_with("C19CHILD ")) else {
            out.push(Err(format!("history {h}: child exit {:?}", o.status.code())));
            continue;
        };
        let Ok(steps) = serde_json::from_str::<serde_json::Value>(&line["C19CHILD ".len()..]) else {
            out.push(Err(format!("history {h}: unparsable child output")));
            continue;
        };
        for st in steps.as_array().cloned().unwrap_or_default() {
            let op = st["op"].as_str().unwrap_or("");
            if !matches!(op, "R" | "r" | "d" | "q") {
                continue;
            }
            let res = &st["result"];
            let (Some(md5), Some(pad)) = (res["announced_md5"].as_str(), res["preamble_padding"].as_u64()) else {
                out.push(Err(format!("history {h} step {}: no new session observed: {res}", st["step"])));
                continue;
            };
            match preamble_pad_of(md5) {
                Some(want) => out.push(Ok((h.to_string(), st["step"].as_u64().unwrap_or(0), md5.to_string(), pad as usize, want))),
                None => out.push(Err(format!("history {h} step {}: announced md5 {md5} is none of the schemes in play", st["step"]))),
            }
        }
    }
    out
}

/// The REAL server's reading of a settings frame: for every spelling of the announcement (line order, CRLF, spaces,
/// duplicate keys, values containing '=', other lines with non-UTF-8 bytes) it pushes its scheme exactly when the
/// announced md5 (as the text format defines it: last `padding-md5` line, trimmed) differs from its own.
fn server_reads_settings(rep: &mut Report) {
    let srv_text = scheme(200);
    let srv_md5 = format!("{:x}", md5::compute(srv_text.as_bytes()));
    let other = "0123456789abcdef0123456789abcdef".to_string();
    let mut cases: Vec<(String, Vec<u8>, bool)> = vec![];
    for (mn, m, differs) in [("equal", srv_md5.clone(), false), ("different", other.clone(), true)] {
        let mk = |name: &str, body: Vec<u8>| (format!("{name}, announced md5 {mn}"), body, differs);
        cases.push(mk("plain", format!("v=2\nclient=x\npadding-md5={m}").into_bytes()));
        cases.push(mk("md5 first", format!("padding-md5={m}\nv=2\nclient=x").into_bytes()));
        cases.push(mk("CRLF", format!("v=2\r\nclient=x\r\npadding-md5={m}\r\n").into_bytes()));
        cases.push(mk("spaces", format!("v = 2\nclient = x\npadding-md5 = {m} ").into_bytes()));
        cases.push(mk("trailing newline", format!("v=2\nclient=x\npadding-md5={m}\n").into_bytes()));
        cases.push(mk("value containing '='", format!("v=2\nclient=a=b=c\npadding-md5={m}").into_bytes()));
        cases.push(mk("empty value elsewhere", format!("v=2\nclient=\npadding-md5={m}").into_bytes()));
        cases.push(mk("line without '='", format!("v=2\nhello\npadding-md5={m}").into_bytes()));
        let mut b = b"v=2\nclient=caf\xe9-tls/1.0\npadding-md5=".to_vec();
        b.extend_from_slice(m.as_bytes());
        cases.push(mk("non-UTF-8 byte in another line", b));
        let mut b = b"v=2\nx=\xff\xfe\xc3\npadding-md5=".to_vec();
        b.extend_from_slice(m.as_bytes());
        b.extend_from_slice(b"\nclient=x");
        cases.push(mk("several invalid bytes in another line", b));
        cases.push(mk("many other lines", format!("{}padding-md5={m}\nv=2", (0..50).map(|i| format!("k{i}=v{i}\n")).collect::<String>()).into_bytes()));
    }
    // duplicate announcement: the last line counts
    cases.push(("duplicate padding-md5, last one equal".into(), format!("v=2\npadding-md5={other}\npadding-md5={srv_md5}").into_bytes(), false));
    cases.push(("duplicate padding-md5, last one different".into(), format!("v=2\npadding-md5={srv_md5}\npadding-md5={other}").into_bytes(), true));
    for (name, body, differs) in cases {
        rep.case(Some(&format!("server reads settings: {name}")));
        let slot: Arc<Mutex<Option<(usize, bool)>>> = Arc::new(Mutex::new(None));
        let slot2 = slot.clone();
        let body2 = body.clone();
        let text2 = srv_text.clone();
        let sc = scenario(move || {
            let slot2 = slot2.clone();
            let body2 = body2.clone();
            let text2 = text2.clone();
            async move {
                let link = peer_link(PipeCfg::new("c2s"), PipeCfg::new("s2c"));
                let _side = start_server_session(link.sess_r, link.sess_w, padding(&text2), None);
                let mut peer = link.peer;
                peer.send(SETTINGS, 0, &body2);
                settle().await;
                tokio::time::sleep(Duration::from_millis(20)).await;
                let mut pushes = 0usize;
                let mut pushed_ok = true;
                let mut srv_settings = false;
                while let Ok(Some(f)) = tokio::time::timeout(Duration::from_millis(50), peer.next_frame()).await {
                    if f.cmd == UPDATE_PADDING {
                        pushes += 1;
                        pushed_ok &= f.data == text2.as_bytes();
                    }
                    if f.cmd == SERVER_SETTINGS {
                        srv_settings = true;
                    }
                }
                *slot2.lock().unwrap() = Some((pushes + if pushed_ok { 0 } else { 100 }, srv_settings));
                Outcome::default()
            }
        });
        let rec = run_exec(&sc, &ExecCfg::default(), &[], 0);
        let replay = json!({"engine": "IX-server-settings", "case": name});
        if let Some(v) = rec.outcome.violations.first() {
            rep.violation("C19:session-disturbed", &format!("server reads settings ({name}): {}", v.detail), replay);
            continue;
        }
        let Some((pushes, srv_settings)) = slot.lock().unwrap().take() else { continue };
        if pushes >= 100 {
            rep.violation("C19:pushed-text-is-not-the-servers-scheme", &format!("server reads settings ({name}): the pushed text is not the server's scheme text"), replay);
        } else if differs && pushes != 1 {
            rep.violation("C19:server-does-not-push-although-schemes-differ", &format!("server reads settings ({name}): {pushes} pushes for an announcement that differs from the server's md5 (server settings answered: {srv_settings})"), replay);
        } else if !differs && pushes != 0 {
            rep.violation("C19:scheme-pushed-again", &format!("server reads settings ({name}): the real server pushed {pushes} time(s) although the client announced its md5"), replay);
        } else if !srv_settings {
            rep.violation("C19:session-disturbed", &format!("server reads settings ({name}): a v=2 announcement got no server settings in answer"), replay);
        }
    }
}

/// DX: two sessions of one process are pushed different schemes at about the same time while one of them has a
/// writer in the middle of a packet on a narrow transport. Afterwards each session must shape with ITS server's scheme.
pub fn make_two_pushes(narrow_a: bool) -> crate::ctl::ScenarioFn {
    scenario(move || async move {
        let mut out = Outcome::default();
        let mk = |narrow: bool| {
            let link = peer_link(PipeCfg::new("s2c"), if narrow { PipeCfg::new("c2s").capacity(16) } else { PipeCfg::new("c2s") });
            let wire = link.peer.out.clone();
            let inj = link.peer.inj.clone();
            let sess = Arc::new(Session::new_client(link.sess_r, link.sess_w, padding(&scheme(150)), None));
            let s2 = sess.clone();
            tokio::spawn(async move {
                let _ = s2.recv_loop().await;
            });
            tokio::spawn(link.peer.sink());
            (sess, wire, inj)
        };
        let (a, wire_a, inj_a) = mk(narrow_a);
        let (b, wire_b, inj_b) = mk(false);
        let a2 = a.clone();
        let writer = tokio::spawn(async move {
            crate::ctl::hpoint("h.c19.writer").await;
            let mut ok = true;
            for k in 0..3u8 {
                ok &= matches!(within(a2.write_data_frame(1, Bytes::from(vec![k; 20]))).await, Some(Ok(())));
            }
            ok
        });
        let push_a = tokio::spawn(async move {
            crate::ctl::hpoint("h.c19.push-a").await;
            inj_a.push(&enc(UPDATE_PADDING, 0, scheme(200).as_bytes()));
        });
        let push_b = tokio::spawn(async move {
            crate::ctl::hpoint("h.c19.push-b").await;
            inj_b.push(&enc(UPDATE_PADDING, 0, scheme(300).as_bytes()));
        });
        let ok = writer.await.unwrap_or(false);
        let _ = push_a.await;
        let _ = push_b.await;
        settle().await;
        tokio::time::sleep(Duration::from_millis(50)).await;
        let mut later_ok = true;
        for k in 0..2u8 {
            later_ok &= matches!(within(a.write_data_frame(1, Bytes::from(vec![0x50 + k; 20]))).await, Some(Ok(())));
            later_ok &= matches!(within(b.write_data_frame(1, Bytes::from(vec![0x60 + k; 20]))).await, Some(Ok(())));
        }
        let ba: Vec<Vec<usize>> = batches(&wire_a).iter().map(|x| x.0.clone()).collect();
        let bb: Vec<Vec<usize>> = batches(&wire_b).iter().map(|x| x.0.clone()).collect();
        out.obs = format!("a={:?} b={:?}", ba, bb);
        if !ok || !later_ok || a.is_closed() || b.is_closed() {
            out.viol("C19:session-disturbed", format!("writes ok {ok}/{later_ok}, closed {} {}", a.is_closed(), b.is_closed()));
            return out;
        }
        // a narrow transport splits writes: compare the bytes per packet (flush-delimited), not the write calls
        let total = |v: &Vec<usize>| v.iter().sum::<usize>();
        let last2 = |v: &Vec<Vec<usize>>| v.iter().rev().take(2).map(total).collect::<Vec<_>>();
        if last2(&ba) != vec![200, 200] {
            out.viol("C19:session-does-not-use-its-pushed-scheme", format!("session A was pushed the 200-byte scheme (session B, in the same process, the 300-byte one at about the same time); A's packets after the pushes: {:?} bytes (all packets {:?})", last2(&ba), ba.iter().map(total).collect::<Vec<_>>()));
        }
        if last2(&bb) != vec![300, 300] {
            out.viol("C19:session-does-not-use-its-pushed-scheme", format!("session B was pushed the 300-byte scheme (session A the 200-byte one at about the same time); B's packets after the pushes: {:?} bytes", last2(&bb)));
        }
        out
    })
}

/// DX at the client level (real Client over the in-memory dialer seam, pushing scripted TLS server): two requests start
/// on an empty pool; one session's push may be handled while the other session is still being created. Every session
/// must be self-consistent: its preamble padding is line 0 of the scheme whose md5 its settings frame announces.
pub fn make_create_during_push() -> crate::ctl::ScenarioFn {
    use crate::cworld::*;
    scenario(move || async move {
        let mut out = Outcome::default();
        let c_text = "stop=8\n0=40-40\n1=100-100\n2=100-100\n3=100-100\n4=100-100\n5=100-100\n6=100-100\n7=100-100";
        let s_text = "stop=8\n0=77-77\n1=200-200\n2=200-200\n3=200-200\n4=200-200\n5=200-200\n6=200-200\n7=200-200";
        // the process default is what earlier executions left behind: start from scheme C every time
        if PaddingFactory::update_default(c_text.as_bytes()).is_err() {
            out.viol("harness:scheme", "cannot install scheme C");
            return out;
        }
        let w = CWorld::start_pushing(PaddingFactory::default(), quiet_pool(1), Answer::Ok, Some(s_text.to_string()));
        let mut hs = vec![];
        for t in 0..2u16 {
            let c = w.client.clone();
            hs.push(tokio::spawn(async move {
                crate::ctl::hpoint("h.c19.req").await;
                let r = within(c.create_proxy_stream(("example.com".to_string(), 3001 + t))).await;
                match r {
                    Some(Ok(x)) => {
                        std::mem::forget(x);
                        true
                    }
                    _ => false,
                }
            }));
        }
        let mut ok = true;
        for h in hs {
            ok &= h.await.unwrap_or(false);
        }
        settle().await;
        tokio::time::sleep(Duration::from_millis(50)).await;
        // a third request afterwards: sessions opened after the push announce and use the pushed scheme
        let third = within(w.client.create_proxy_stream(("example.com".to_string(), 3009))).await;
        if let Some(Ok(x)) = third {
            std::mem::forget(x);
        } else {
            ok = false;
        }
        settle().await;
        let logs = w.logs();
        let md5_of = |t: &str| format!("{:x}", md5::compute(t.as_bytes()));
        let (mc, ms) = (md5_of(c_text), md5_of(s_text));
        let mut obs = vec![];
        for (i, l) in logs.iter().enumerate() {
            let Some(set) = l.frames.iter().find(|f| f.cmd == SETTINGS) else { continue };
            let announced = String::from_utf8_lossy(&set.data).lines().find_map(|x| x.strip_prefix("padding-md5=").map(|y| y.trim().to_string())).unwrap_or_default();
            let which = if announced == mc { "C" } else if announced == ms { "S" } else { "?" };
            obs.push(format!("conn{i}: pad0={} announces {which}", l.preamble_pad));
            let want_pad = match which {
                "C" => 40,
                "S" => 77,
                _ => {
                    out.viol("C19:new-session-announces-unknown-scheme", format!("connection {i} announces padding-md5 {announced}, neither the configured nor the pushed scheme"));
                    continue;
                }
            };
            if l.preamble_pad != want_pad {
                out.viol("C19:new-session-announces-one-scheme-and-uses-another", format!("connection {i} (created while another session's push was being handled) sent a preamble with {} bytes of padding and announces scheme {which}, whose line 0 prescribes {want_pad}", l.preamble_pad));
            }
        }
        if let Some(l) = logs.last()
            && logs.len() >= 2
        {
            // the session of the third request was opened after a push had been handled
            let set = l.frames.iter().find(|f| f.cmd == SETTINGS);
            let announced = set.map(|s| String::from_utf8_lossy(&s.data).to_string()).unwrap_or_default();
            if logs.len() >= 3 && !announced.contains(&ms) {
                out.viol("C19:later-session-announces-old-scheme", format!("the session dialled for a request issued after the push announces {:?}", announced));
            }
        }
        out.obs = obs.join("; ");
        if !ok {
            out.viol("C19:session-disturbed", format!("a request failed: {}", out.obs));
        }
        w.client.stop_session_pool_cleanup().await;
        drop(w);
        out
    })
}

fn two_push_items(tier: Tier) -> Vec<crate::dxrun::DxItem> {
    let mut v = vec![];
    for narrow in [true, false] {
        let mut it = crate::dxrun::DxItem::new(json!({"part": "two sessions pushed at the same time", "writer_of_A_on_a_narrow_transport": narrow}), make_two_pushes(narrow), if tier.is_thorough() { 3 } else { 2 });
        it.exec.draw = DrawPolicy::Min;
        it.exec.long_yield = 3;
        it.exec.quiesce = true;
        v.push(it);
    }
    let mut it = crate::dxrun::DxItem::new(json!({"part": "session created while another session's push is handled (real Client, in-memory dialer)"}), make_create_during_push(), if tier.is_thorough() { 2 } else { 1 });
    it.exec.long_yield = 3;
    it.exec.quiesce = true;
    v.push(it);
    v
}

fn expected_size(s: &Option<String>) -> Option<usize> {
    // None = built-in default scheme: not one of the fixed-size schemes
    s.as_ref().and_then(|t| if t == &scheme(200) || t == &scheme_b_retyped() || t == &real_server_text('P') { Some(200) } else if t == &real_server_text('p') { Some(300) } else if t == &scheme(300) { Some(300) } else if t == &scheme(150) { Some(150) } else { None })
}

pub fn run(tier: Tier) -> i32 {
    let mut rep = Report::new("C19", tier, "model_checking");
    let thorough = tier.is_thorough();
    rep.assumptions = vec![
        "client-side sessions are created with the process default scheme, as bin/client.rs does (PaddingFactory::default() handed to Client::with_pool_config)".into(),
        "schemes B and C prescribe one write of exactly 200 / 300 bytes for every packet below stop (disjoint from each other and from the built-in default), so the scheme in force is visible in the write sizes".into(),
        "client requests run against a scripted TLS server inside the harness that reads the announced padding-md5 and pushes its scheme when it differs".into(),
    ];
    let ops = ['T', 'Z', 'B', 'b', 'C', 'D', 'X', 'R', 'r', 'd', 'q', 'P', 'p'];
    let depth = if thorough { 4 } else { 3 };
    let mut hists: Vec<String> = vec![];
    let mut frontier: Vec<String> = vec![String::new()];
    for _ in 0..depth {
        let mut next = vec![];
        for h in &frontier {
            for o in ops {
                // T only matters first; at most two client requests per history (each is a TLS round trip)
                if (o == 'T' || o == 'Z') && !h.is_empty() {
                    continue;
                }
                if (o == 'R' || o == 'r' || o == 'd' || o == 'q') && h.chars().filter(|c| *c == 'R' || *c == 'r' || *c == 'd' || *c == 'q').count() >= 2 {
                    continue;
                }
                if (o == 'P' || o == 'p') && h.chars().filter(|c| *c == 'P' || *c == 'p').count() >= 2 {
                    continue;
                }
                // the built-in default text is only interesting for a client configured otherwise
                if (o == 'D' || o == 'd') && !h.starts_with('Z') {
                    continue;
                }
                next.push(format!("{h}{o}"));
            }
        }
        hists.extend(next.iter().cloned());
        frontier = next;
    }
    hists.push("TY".into());
    hists.push("YB".into());
    let exe = crate::det::self_exe();
    let n = hists.len();
    let hs = Arc::new(hists);
    let h2 = hs.clone();
    let results: Vec<Result<serde_json::Value, String>> = crate::par::par_map(n, 12, move |i| {
        let o = std::process::Command::new(&exe).arg("__c19child").arg(&h2[i]).output().map_err(|e| e.to_string())?;
        let text = String::from_utf8_lossy(&o.stdout).to_string();
        let line = text.lines().find(|l| l.starts_with("C19CHILD ")).ok_or_else(|| format!("child exit {:?}: {}", o.status.code(), crate::report::truncate(&format!("{}{}", text, String::from_utf8_lossy(&o.stderr)), 400)))?;
        serde_json::from_str(&line["C19CHILD ".len()..]).map_err(|e| e.to_string())
    });
    for (i, r) in results.into_iter().enumerate() {
        let h = &hs[i];
        rep.states += h.len() as u64 + 1;
        rep.transitions += h.len() as u64;
        rep.traces_validated += 1;
        rep.case(Some(h));
        let steps = match r {
            Ok(v) => v,
            Err(e) => {
                rep.violation("C19:client-crashed", &format!("history {h}: {e}"), json!({"engine": "BX-child", "history": h}));
                continue;
            }
        };
        if i % 37 == 3 {
            rep.sample(json!({"history": h, "steps": steps}));
        }
        // replay the model
        let mut current: Option<String> = None; // scheme in force for new sessions
        let touched_first = h.starts_with('T') || h.starts_with('Z');
        let custom = h.starts_with('Z');
        for st in steps.as_array().cloned().unwrap_or_default() {
            let op = st["op"].as_str().unwrap_or("").chars().next().unwrap_or(' ');
            let step = st["step"].as_u64().unwrap_or(0);
            let ctx = format!("history {h} step {step} ({op}){}", if touched_first { "" } else { " [default not touched before]" });
            match op {
                'B' | 'b' | 'C' | 'D' | 'X' | 'Y' => {
                    let res = &st["result"];
                    if res.is_null() || !st["panics"].as_array().map(|a| a.is_empty()).unwrap_or(true) {
                        rep.violation("C19:session-disturbed", &format!("{ctx}: {:?}", st["panics"]), json!({"engine": "BX-child", "history": h}));
                        continue;
                    }
                    let writes: Vec<Vec<usize>> = res["writes"].as_array().map(|a| a.iter().map(|b| b.as_array().map(|x| x.iter().map(|y| y.as_u64().unwrap_or(0) as usize).collect()).unwrap_or_default()).collect()).unwrap_or_default();
                    let all_ok = res["ok"].as_array().map(|a| a.iter().all(|x| x.as_bool() == Some(true))).unwrap_or(false);
                    if !all_ok || res["closed"].as_bool() == Some(true) || res["wire_parses"].as_bool() != Some(true) || writes.len() != 5 {
                        rep.violation("C19:session-disturbed", &format!("{ctx}: writes {:?}, results {:?}, closed {:?}", writes, res["ok"], res["closed"]), json!({"engine": "BX-child", "history": h}));
                        continue;
                    }
                    let pushed = scheme_of(op).unwrap();
                    let parsable = parse_scheme(&pushed).is_some();
                    // packets 1,2 are shaped by the scheme in force before; packets 3..5 by the pushed one (if parsable)
                    let before = expected_size(&current).or(if custom && current.is_none() { Some(150) } else { None });
                    if let Some(n) = before {
                        for (k, w) in writes[..2].iter().enumerate() {
                            if *w != vec![n] {
                                rep.violation("C19:new-session-does-not-use-adopted-scheme", &format!("{ctx}: packet {} of a session created after an earlier push went out as {:?}; the adopted scheme prescribes one write of {n}", k + 1, w), json!({"engine": "BX-child", "history": h}));
                                break;
                            }
                        }
                    }
                    let after = if parsable { expected_size(&Some(pushed.clone())) } else { before };
                    match after {
                        Some(n) => {
                            for (k, w) in writes[2..].iter().enumerate() {
                                if *w != vec![n] {
                                    let key = if parsable { "C19:pushed-scheme-not-adopted-by-session" } else { "C19:unparsable-push-changed-shaping" };
                                    rep.violation(key, &format!("{ctx}: after the push packet {} went out as {:?}; expected one write of {n} bytes", k + 3, w), json!({"engine": "BX-child", "history": h}));
                                    break;
                                }
                            }
                        }
                        None => {
                            // default scheme in force and an unparsable push: shaping must be the same as before the push would give;
                            // the fixed-size schemes must not appear out of nowhere
                            for w in &writes[2..] {
                                if *w == vec![200] || *w == vec![300] {
                                    rep.violation("C19:unparsable-push-changed-shaping", &format!("{ctx}: {:?}", writes), json!({"engine": "BX-child", "history": h}));
                                }
                            }
                        }
                    }
                    if parsable {
                        current = Some(pushed);
                    }
                }
                'P' | 'p' => {
                    let res = &st["result"];
                    if res.is_null() || !st["panics"].as_array().map(|a| a.is_empty()).unwrap_or(true) {
                        rep.violation("C19:session-disturbed", &format!("{ctx}: {:?}", st["panics"]), json!({"engine": "BX-child", "history": h}));
                        continue;
                    }
                    let text = real_server_text(op);
                    let srv_md5 = res["server_md5"].as_str().unwrap_or("").to_string();
                    let announced = res["announced_md5"].as_str().unwrap_or("").to_string();
                    let pushes: Vec<String> = res["pushes"].as_array().map(|a| a.iter().filter_map(|x| x.as_str().map(|s| s.to_string())).collect()).unwrap_or_default();
                    if let Some(cur) = &current {
                        let want = format!("{:x}", md5::compute(cur.as_bytes()));
                        if announced != want {
                            rep.violation("C19:later-session-announces-old-scheme", &format!("{ctx}: a scheme was adopted earlier (md5 {want}) but the session created now announces md5 {announced}"), json!({"engine": "BX-child", "history": h}));
                        }
                        if *cur == text && !pushes.is_empty() {
                            rep.violation("C19:scheme-pushed-again", &format!("{ctx}: the real server pushed its scheme again although the client adopted exactly that scheme earlier (announced md5 {announced}, server md5 {srv_md5})"), json!({"engine": "BX-child", "history": h}));
                        }
                    }
                    if pushes.len() > 1 {
                        rep.violation("C19:scheme-pushed-again", &format!("{ctx}: {} pushes on one session", pushes.len()), json!({"engine": "BX-child", "history": h}));
                    }
                    if pushes.is_empty() && announced != srv_md5 {
                        rep.violation("C19:server-does-not-push-although-schemes-differ", &format!("{ctx}: the client announced md5 {announced}, the real server runs md5 {srv_md5} and pushed nothing"), json!({"engine": "BX-child", "history": h}));
                    }
                    if let Some(p) = pushes.first() {
                        if *p != srv_md5 {
                            rep.violation("C19:pushed-text-is-not-the-servers-scheme", &format!("{ctx}: the real server compares announcements with md5 {srv_md5} but pushed a text with md5 {p}: a client that adopts it will be pushed again"), json!({"engine": "BX-child", "history": h}));
                        }
                        if announced == srv_md5 {
                            rep.violation("C19:scheme-pushed-again", &format!("{ctx}: the real server pushed although the client announced its md5"), json!({"engine": "BX-child", "history": h}));
                        }
                        current = Some(text);
                    }
                }
                'R' | 'r' | 'd' | 'q' => {
                    let res = &st["result"];
                    let srv = if op == 'R' { scheme(200) } else if op == 'r' { scheme(300) } else if op == 'q' { scheme_b_retyped() } else { DEFAULT.to_string() };
                    if res["request_ok"].as_bool() != Some(true) {
                        rep.violation("C19:request-failed", &format!("{ctx}: {res}"), json!({"engine": "BX-child", "history": h}));
                        continue;
                    }
                    let announced = res["announced_md5"].as_str().unwrap_or("").to_string();
                    // the session announces a scheme and uses it from its very first bytes: the preamble's padding is line 0 of it
                    if let (Some(want), Some(pad)) = (preamble_pad_of(&announced), res["preamble_padding"].as_u64())
                        && pad as usize != want
                    {
                        rep.violation("C19:new-session-announces-one-scheme-and-uses-another", &format!("{ctx}: the session created now announces md5 {announced}, whose line 0 prescribes {want} bytes of preamble padding, but its preamble carries {pad}"), json!({"engine": "BX-child", "history": h}));
                    }
                    if let Some(cur) = &current {
                        let want = format!("{:x}", md5::compute(cur.as_bytes()));
                        if announced != want {
                            rep.violation("C19:later-session-announces-old-scheme", &format!("{ctx}: a scheme was adopted earlier (md5 {want}) but the session created now announces md5 {announced}"), json!({"engine": "BX-child", "history": h}));
                        }
                        if *cur == srv && res["pushed"].as_bool() == Some(true) {
                            rep.violation("C19:scheme-pushed-again", &format!("{ctx}: the server had to push the scheme the client already adopted"), json!({"engine": "BX-child", "history": h}));
                        }
                    }
                    if res["pushed"].as_bool() == Some(true) {
                        current = Some(srv);
                    }
                }
                _ => {}
            }
        }
    }
    session_grid(&mut rep, thorough);
    server_reads_settings(&mut rep);
    // last, and one execution at a time: these executions replace the PROCESS-wide default scheme
    crate::dxrun::run_items_workers(&mut rep, "C19", tier, two_push_items(tier), crate::dxrun::DxOpts { time_cap: Duration::from_secs(if thorough { 600 } else { 40 }), det_replays: 2, max_violations: 3, vacuity_check: false }, 1);
    rep.sections.insert("bx".into(), json!({"histories": n, "depth": depth, "alphabet": "T (touch default) | Z (client constructed with a custom scheme), B b C D (session + push of scheme B / B retyped (same lines, other text) / C / the built-in default text), X (session + unparsable push), P p (real client session against a REAL server session whose scheme text ends in whitespace), R q r d (client request against a scripted TLS server using B / B retyped / C / the built-in default)"}));
    rep.finish("BX over process histories, one fresh child process each: every history of length <= d over {touch default, session with a push of scheme B / C / an unparsable scheme followed by shaped writes, client request through the real Client against a scripted TLS server}; write sizes after a push must be those of the pushed scheme, sessions created afterwards must start with it and announce its md5, an unparsable push changes nothing; plus the real server's reading of 24 spellings of the settings frame (push exactly when the announced md5 differs); plus an exhaustive per-session grid (stop of the announced scheme x stop of the pushed scheme x packets sent before the push) comparing every packet's write sizes with the reference shaper; non-trivial = distinct history / grid case")
}
