//! C12 — the session pool never hands out or destroys the wrong session.
//! BX: every operation history up to depth d on the real SessionPool with real
//! sessions over vpipes under virtual time, checked step by step against a
//! reference model / invariants.

use crate::ctl::{ExecCfg, Outcome, ScenarioFn, run_exec, scenario, settle};
use crate::par::par_map;
use crate::refmodel::*;
use crate::report::{Report, Tier};
use crate::sess::*;
use crate::vpipe::PipeCfg;
use anytls_rs::client::{SessionPool, SessionPoolConfig};
use anytls_rs::session::{Session, Stream};
use serde_json::json;
use std::sync::{Arc, Mutex};
use std::time::Duration;

#[derive(Clone, Copy, Debug, PartialEq, Eq, Hash)]
pub enum Op {
    /// a new session is created and inserted as client.rs does; `true`: its creator opens a stream on it at once
    New(bool),
    Get,
    /// the holder of a session obtained by Get opens a stream on session s
    Open(usize),
    /// the (first) open stream of session s ends (peer FIN)
    Fin(usize),
    /// session s dies (peer closes the transport)
    Die(usize),
    Cleanup,
    /// advance the virtual clock: 0 = interval/2, 1 = interval, 2 = timeout
    Adv(u8),
    /// the holder of session s (handed out by Get, alive) returns it to the pool (add_idle_session)
    Put(usize),
}

fn op_str(o: &Op) -> String {
    match o {
        Op::New(b) => if *b { "new+stream".into() } else { "new".into() },
        Op::Get => "get".into(),
        Op::Open(s) => format!("open({s})"),
        Op::Fin(s) => format!("fin({s})"),
        Op::Die(s) => format!("die({s})"),
        Op::Cleanup => "cleanup".into(),
        Op::Put(s) => format!("put({s})"),
        Op::Adv(k) => ["adv(I/2)", "adv(I)", "adv(T)"][*k as usize].into(),
    }
}

pub fn hist_str(h: &[Op]) -> String {
    h.iter().map(op_str).collect::<Vec<_>>().join(",")
}

#[derive(Clone, Copy, Debug)]
pub struct Cfg {
    pub interval_ms: u64,
    pub timeout_ms: u64,
    pub min_idle: usize,
    /// the transport of every session reports an error from shutdown() (a vanished peer: BrokenPipe / failed
    /// close_notify): closing such a session "fails", housekeeping must carry on regardless
    pub shutdown_err: bool,
}

struct Live {
    sess: Arc<Session>,
    peer: RawPeer,
    streams: Vec<Arc<Stream>>,
    // model
    in_map: bool,
    idle_since: tokio::time::Instant,
}

type Viols = Vec<(String, String)>;

fn pool_scenario(cfg: Cfg, h: Vec<Op>, slot: Arc<Mutex<(Viols, String)>>) -> ScenarioFn {
    scenario(move || {
        let h = h.clone();
        let slot = slot.clone();
        async move {
            let mut viols: Viols = vec![];
            let pool = SessionPool::with_config(SessionPoolConfig {
                check_interval: Duration::from_millis(cfg.interval_ms),
                idle_timeout: Duration::from_millis(cfg.timeout_ms),
                min_idle_sessions: cfg.min_idle,
            });
            // let the reaper's immediate first tick pass
            let t0 = tokio::time::Instant::now();
            settle().await;
            let mut ss: Vec<Live> = vec![];
            let mut trace = vec![];
            let hs = hist_str(&h);
            for (step, op) in h.iter().enumerate() {
                let pre = format!("[{}] step {} {}", hs, step, op_str(op));
                // snapshot before
                let live_before: Vec<bool> = ss.iter().map(|s| !s.sess.is_closed()).collect();
                let mut counts_before = vec![];
                for s in &ss {
                    counts_before.push(s.sess.verif_stream_count().await);
                }
                let idle_before = ss.iter().enumerate().filter(|(i, s)| live_before[*i] && s.in_map && counts_before[*i] == 0).count();
                let inuse_in_map_before = ss.iter().enumerate().any(|(i, s)| live_before[i] && s.in_map && counts_before[i] > 0);
                let mut reaper_may_run = false;
                let step_start = tokio::time::Instant::now();
                match op {
                    Op::New(with_stream) => {
                        let link = peer_link(PipeCfg::new("s2c"), PipeCfg::new("c2s"));
                        if cfg.shutdown_err {
                            link.peer.out.set_shutdown_mode(crate::vpipe::ShutdownMode::Err);
                        }
                        match start_client_session(link.sess_r, link.sess_w, padding(STOP0), None, ss.len() as u64 + 1).await {
                            Ok(sess) => {
                                // client.rs:315 — inserted at creation
                                pool.add_idle_session(sess.clone()).await;
                                let mut l = Live { sess, peer: link.peer, streams: vec![], in_map: true, idle_since: tokio::time::Instant::now() };
                                if *with_stream
                                    && let Ok((st, _rx)) = l.sess.open_stream().await
                                {
                                    l.sess.disable_buffering();
                                    let _ = l.sess.write_data_frame(st.id(), bytes::Bytes::from_static(b"d")).await;
                                    l.streams.push(st);
                                }
                                ss.push(l);
                            }
                            Err(e) => viols.push(("harness:new".into(), format!("{pre}: {e}"))),
                        }
                    }
                    Op::Get => {
                        let got = tokio::time::timeout(Duration::from_secs(60), pool.get_idle_session()).await;
                        match got {
                            Err(_) => viols.push(("C12:get-blocks".into(), format!("{pre}: get_idle_session did not return"))),
                            Ok(None) => {
                                let avail: Vec<usize> = ss.iter().enumerate().filter(|(_, s)| s.in_map && !s.sess.is_closed()).map(|(i, _)| i).collect();
                                if !avail.is_empty() {
                                    viols.push(("C12:get-ignores-available-session".into(), format!("{pre}: returned None although live session(s) {:?} are in the pool", avail)));
                                }
                            }
                            Ok(Some(s)) => {
                                if s.is_closed() {
                                    viols.push(("C12:get-returned-closed-session".into(), format!("{pre}: get_idle_session returned session seq {} which is closed", s.seq())));
                                }
                                match ss.iter_mut().find(|l| Arc::ptr_eq(&l.sess, &s)) {
                                    None => viols.push(("C12:get-returned-unknown-session".into(), pre.clone())),
                                    Some(l) => {
                                        if !l.in_map {
                                            viols.push(("C12:get-returned-session-not-in-pool".into(), format!("{pre}: session seq {} had already been taken", s.seq())));
                                        }
                                        l.in_map = false;
                                    }
                                }
                            }
                        }
                    }
                    Op::Open(i) => {
                        if let Some(l) = ss.get_mut(*i)
                            && let Ok(Ok((st, _rx))) = tokio::time::timeout(Duration::from_secs(60), l.sess.open_stream()).await
                        {
                            l.sess.disable_buffering();
                            let _ = l.sess.write_data_frame(st.id(), bytes::Bytes::from_static(b"d")).await;
                            l.streams.push(st);
                        }
                    }
                    Op::Fin(i) => {
                        if let Some(l) = ss.get_mut(*i)
                            && !l.streams.is_empty()
                        {
                            let st = l.streams.remove(0);
                            l.peer.send(FIN, st.id(), b"");
                            settle().await;
                        }
                    }
                    Op::Die(i) => {
                        if let Some(l) = ss.get_mut(*i) {
                            l.peer.close_write();
                            settle().await;
                            tokio::time::sleep(Duration::from_millis(1)).await;
                        }
                    }
                    Op::Put(i) => {
                        if let Some(l) = ss.get_mut(*i)
                            && !l.in_map
                            && !l.sess.is_closed()
                        {
                            pool.add_idle_session(l.sess.clone()).await;
                            l.in_map = true;
                            l.idle_since = tokio::time::Instant::now();
                        }
                    }
                    Op::Cleanup => {
                        reaper_may_run = true;
                        if tokio::time::timeout(Duration::from_secs(60), pool.cleanup_expired()).await.is_err() {
                            viols.push(("C12:cleanup-blocks".into(), pre.clone()));
                        }
                    }
                    Op::Adv(k) => {
                        reaper_may_run = true;
                        let d = match k {
                            0 => cfg.interval_ms / 2,
                            1 => cfg.interval_ms,
                            _ => cfg.timeout_ms,
                        };
                        tokio::time::sleep(Duration::from_millis(d)).await;
                        settle().await;
                    }
                }
                // ---- invariants after the step
                let mut newly_closed = vec![];
                for (i, s) in ss.iter().enumerate() {
                    if i < live_before.len() && live_before[i] && s.sess.is_closed() {
                        newly_closed.push(i);
                    }
                }
                let died = matches!(op, Op::Die(_));
                for i in &newly_closed {
                    if died && *op == Op::Die(*i) {
                        continue;
                    }
                    if !reaper_may_run {
                        viols.push(("C12:session-closed-by-non-reaper-step".into(), format!("{pre}: session {i} became closed")));
                        continue;
                    }
                    if counts_before[*i] > 0 {
                        // in use by a stream: pool housekeeping must never tear it down
                        let key = if ss[*i].in_map { "C12:reaper-closed-session-in-use:in-idle-map-since-creation" } else { "C12:reaper-closed-session-in-use:not-in-map" };
                        viols.push((key.into(), format!("{pre}: the reaper closed session {i} (seq {}) while {} stream(s) were open on it", ss[*i].sess.seq(), counts_before[*i])));
                    }
                    if !ss[*i].in_map {
                        viols.push(("C12:reaper-closed-session-outside-pool".into(), format!("{pre}: session {i} had been handed out and was closed by housekeeping")));
                    }
                }
                if reaper_may_run {
                    let mut idle_after = 0;
                    for s in &ss {
                        if !s.sess.is_closed() && s.in_map && s.sess.verif_stream_count().await == 0 {
                            idle_after += 1;
                        }
                    }
                    if idle_after < cfg.min_idle.min(idle_before) {
                        let key = if inuse_in_map_before { "C12:min-idle-not-kept:in-use-session-counted-as-idle" } else { "C12:min-idle-not-kept" };
                        viols.push((key.into(), format!("{pre}: {idle_before} idle session(s) before the pass, {idle_after} after, minimum {}", cfg.min_idle)));
                    }
                }
                // a pass closes the surplus: stream-less pooled sessions idle for longer than the timeout at the
                // moment of the pass survive it only as (part of) the configured minimum
                if reaper_may_run {
                    let now = tokio::time::Instant::now();
                    let pass_at = if matches!(op, Op::Cleanup) {
                        Some(now)
                    } else {
                        let k = now.duration_since(t0).as_millis() as u64 / cfg.interval_ms;
                        let last_tick = t0 + Duration::from_millis(k * cfg.interval_ms);
                        if last_tick > step_start { Some(last_tick) } else { None }
                    };
                    if let Some(p) = pass_at {
                        let mut overdue = vec![];
                        for (i, s) in ss.iter().enumerate() {
                            if !s.sess.is_closed() && s.in_map && s.idle_since + Duration::from_millis(cfg.timeout_ms) < p && s.sess.verif_stream_count().await == 0 {
                                overdue.push((i, p.duration_since(s.idle_since).as_millis() as u64));
                            }
                        }
                        if overdue.len() > cfg.min_idle {
                            viols.push(("C12:expired-surplus-survives-pass".into(), format!("{pre}: after the reaper pass at {} ms the stream-less pooled session(s) (index, idle ms) {:?} are still open although idle for longer than the timeout; minimum is {}", p.duration_since(t0).as_millis(), overdue, cfg.min_idle)));
                        }
                    }
                }
                // pool membership: live sessions in the model's map must be counted
                let live_in_map = ss.iter().filter(|s| s.in_map && !s.sess.is_closed()).count();
                let closed_total = ss.iter().filter(|s| s.sess.is_closed()).count();
                let ic = pool.idle_count().await;
                if ic < live_in_map || ic > live_in_map + closed_total {
                    viols.push(("C12:idle-count-disagrees-with-model".into(), format!("{pre}: idle_count() = {ic}, model has {live_in_map} live pooled session(s) and {closed_total} closed")));
                }
                trace.push(format!("{}:ic{}", op_str(op), ic));
            }
            // ---- eventually: after timeout + 2 intervals of inactivity the surplus idle sessions are gone
            tokio::time::sleep(Duration::from_millis(cfg.timeout_ms + 2 * cfg.interval_ms + 1)).await;
            settle().await;
            let mut idle_live = 0;
            for s in &ss {
                if !s.sess.is_closed() && s.in_map && s.sess.verif_stream_count().await == 0 {
                    idle_live += 1;
                }
            }
            // sessions in use that sit in the map may legitimately be kept as "idle" by the code under
            // the known defect; the surplus rule is about stream-less sessions only
            if idle_live > cfg.min_idle.max(0) {
                let inuse_in_map = {
                    let mut b = false;
                    for s in &ss {
                        if !s.sess.is_closed() && s.in_map && s.sess.verif_stream_count().await > 0 {
                            b = true;
                        }
                    }
                    b
                };
                let _ = inuse_in_map;
                viols.push(("C12:surplus-idle-sessions-never-reaped".into(), format!("[{hs}]: {idle_live} live idle session(s) remain {} ms after the last activity, minimum is {}", cfg.timeout_ms + 2 * cfg.interval_ms, cfg.min_idle)));
            }
            pool.stop_cleanup_task().await;
            for s in &ss {
                let _ = s.sess.close().await;
            }
            *slot.lock().unwrap() = (viols, trace.join(" "));
            Outcome::default()
        }
    })
}

fn enabled(h: &[Op], max_sessions: usize) -> Vec<Op> {
    let n = h.iter().filter(|o| matches!(o, Op::New(_))).count();
    let mut v = vec![];
    if n < max_sessions {
        v.push(Op::New(false));
        v.push(Op::New(true));
    }
    if n > 0 {
        v.push(Op::Get);
    }
    for i in 0..n {
        v.push(Op::Open(i));
        // fin only if a stream may be open
        let opened = h.iter().filter(|o| **o == Op::Open(i)).count() + if h.iter().filter(|o| matches!(o, Op::New(_))).nth(i) == Some(&Op::New(true)) { 1 } else { 0 };
        let finned = h.iter().filter(|o| **o == Op::Fin(i)).count();
        if opened > finned {
            v.push(Op::Fin(i));
        }
        if !h.contains(&Op::Die(i)) {
            v.push(Op::Die(i));
        }
    }
    let gets = h.iter().filter(|o| matches!(o, Op::Get)).count();
    let puts = h.iter().filter(|o| matches!(o, Op::Put(_))).count();
    if gets > puts {
        for i in 0..n {
            v.push(Op::Put(i));
        }
    }
    if n > 0 {
        v.push(Op::Cleanup);
        v.push(Op::Adv(0));
        v.push(Op::Adv(1));
        v.push(Op::Adv(2));
    }
    v
}

/// Pool-only sub-alphabet (no streams, deaths or explicit passes) for deeper histories: the order in which
/// sessions come back to the pool need not be the order of their sequence numbers.
fn enabled_pool(h: &[Op], max_sessions: usize, last: bool) -> Vec<Op> {
    let n = h.iter().filter(|o| matches!(o, Op::New(_))).count();
    let gets = h.iter().filter(|o| matches!(o, Op::Get)).count();
    let puts = h.iter().filter(|o| matches!(o, Op::Put(_))).count();
    let mut v = vec![];
    if !last {
        if n < max_sessions {
            v.push(Op::New(false));
        }
        if n + puts > gets {
            v.push(Op::Get);
        }
        if gets > puts {
            for i in 0..n {
                v.push(Op::Put(i));
            }
        }
    }
    if n > 0 {
        v.push(Op::Adv(0));
        v.push(Op::Adv(1));
        v.push(Op::Adv(2));
    }
    v
}

// ---------------------------------------------------------------- concurrency on the pool lock

#[derive(Clone, Copy, Debug, PartialEq, Eq)]
pub enum Ev {
    Get,
    /// the newest pooled session dies
    DieNewest,
    Count,
    AddNew,
    Cleanup,
    /// a task passes through the pool lock (idle_count) and then the newest session dies at once
    CountThenDie,
}

/// While the periodic reaper is stalled inside close() of an expired session (its transport's
/// shutdown never completes, so close() takes its 1 s timeout while holding the pool lock), the
/// events of `order` happen 100 ms apart and queue on the lock.
pub fn make_conc(order: Vec<Ev>, min_idle: usize, two_victims: bool) -> crate::ctl::ScenarioFn {
    scenario(move || {
        let order = order.clone();
        async move {
            let mut out = Outcome::default();
            let pool = Arc::new(SessionPool::with_config(SessionPoolConfig {
                check_interval: Duration::from_millis(1000),
                idle_timeout: Duration::from_millis(2000),
                min_idle_sessions: min_idle,
            }));
            settle().await;
            let mk = |seq: u64, stall: bool| async move {
                let link = peer_link(PipeCfg::new("s2c"), PipeCfg::new("c2s"));
                if stall {
                    link.peer.out.set_shutdown_mode(crate::vpipe::ShutdownMode::Never);
                }
                let sess = start_client_session(link.sess_r, link.sess_w, padding(STOP0), None, seq).await.ok()?;
                Some((sess, link.peer))
            };
            // S1 (and S0 when a minimum is configured) expire at t = 2000; S2 is the newest and still fresh then
            let mut keep = vec![];
            if min_idle > 0 {
                let Some((s0, p0)) = mk(1, false).await else { return out };
                pool.add_idle_session(s0.clone()).await;
                keep.push((s0, p0));
            }
            let Some((s1, p1)) = mk(2, true).await else { return out };
            pool.add_idle_session(s1.clone()).await;
            // a second expired session behind the stalling one: the reaper closes it after S1
            let mut s1b = None;
            if two_victims {
                let Some((s, p)) = mk(3, false).await else { return out };
                pool.add_idle_session(s.clone()).await;
                s1b = Some(s.clone());
                keep.push((s, p));
            }
            tokio::time::sleep(Duration::from_millis(1500)).await;
            let Some((s2, p2)) = mk(4, false).await else { return out };
            pool.add_idle_session(s2.clone()).await;
            let p2: Arc<Mutex<Option<RawPeer>>> = Arc::new(Mutex::new(Some(p2)));
            // the reaper tick at t = 2000 starts closing S1 and stalls for 1 s
            tokio::time::sleep(Duration::from_millis(560)).await;
            let log: Arc<Mutex<Vec<String>>> = Arc::new(Mutex::new(vec![]));
            let viols: Arc<Mutex<Vec<(String, String)>>> = Arc::new(Mutex::new(vec![]));
            let handed: Arc<Mutex<Vec<u64>>> = Arc::new(Mutex::new(vec![]));
            let mut hs = vec![];
            for (i, ev) in order.iter().enumerate() {
                let ev = *ev;
                match ev {
                    Ev::DieNewest => {
                        if let Some(p) = p2.lock().unwrap().as_mut() {
                            p.close_write();
                        }
                        settle().await;
                        log.lock().unwrap().push(format!("die@{i}:closed={}", s2.is_closed()));
                    }
                    _ => {
                        let pool = pool.clone();
                        let log = log.clone();
                        let viols = viols.clone();
                        let handed = handed.clone();
                        let p2 = p2.clone();
                        hs.push(tokio::spawn(async move {
                            crate::ctl::hpoint("h.c12.event").await;
                            match ev {
                                Ev::Get => match tokio::time::timeout(Duration::from_secs(600), pool.get_idle_session()).await {
                                    Err(_) => viols.lock().unwrap().push(("C12:get-blocks".into(), format!("event {i}: get_idle_session did not return"))),
                                    Ok(None) => log.lock().unwrap().push(format!("get@{i}:none")),
                                    Ok(Some(s)) => {
                                        if s.is_closed() {
                                            viols.lock().unwrap().push(("C12:get-returned-closed-session".into(), format!("event {i}: get_idle_session returned session seq {} which was already closed at the moment it was returned", s.seq())));
                                        }
                                        let mut h = handed.lock().unwrap();
                                        if h.contains(&s.seq()) {
                                            viols.lock().unwrap().push(("C12:get-returned-session-not-in-pool".into(), format!("event {i}: session seq {} handed out twice", s.seq())));
                                        }
                                        h.push(s.seq());
                                        log.lock().unwrap().push(format!("get@{i}:seq{}", s.seq()));
                                    }
                                },
                                Ev::Count => {
                                    let c = tokio::time::timeout(Duration::from_secs(600), pool.idle_count()).await;
                                    log.lock().unwrap().push(format!("count@{i}:{:?}", c.ok()));
                                }
                                Ev::AddNew => {
                                    let link = peer_link(PipeCfg::new("s2c"), PipeCfg::new("c2s"));
                                    if let Ok(sess) = start_client_session(link.sess_r, link.sess_w, padding(STOP0), None, 10 + i as u64).await {
                                        tokio::spawn(link.peer.sink());
                                        let _ = tokio::time::timeout(Duration::from_secs(600), pool.add_idle_session(sess)).await;
                                    }
                                    log.lock().unwrap().push(format!("add@{i}"));
                                }
                                Ev::Cleanup => {
                                    if tokio::time::timeout(Duration::from_secs(600), pool.cleanup_expired()).await.is_err() {
                                        viols.lock().unwrap().push(("C12:cleanup-blocks".into(), format!("event {i}")));
                                    }
                                    log.lock().unwrap().push(format!("cleanup@{i}"));
                                }
                                Ev::CountThenDie => {
                                    let _ = tokio::time::timeout(Duration::from_secs(600), pool.idle_count()).await;
                                    if let Some(p) = p2.lock().unwrap().as_mut() {
                                        p.close_write();
                                    }
                                    settle().await;
                                    log.lock().unwrap().push(format!("count-then-die@{i}"));
                                }
                                Ev::DieNewest => {}
                            }
                        }));
                    }
                }
                tokio::time::sleep(Duration::from_millis(100)).await;
            }
            for h in hs {
                let _ = h.await;
            }
            // housekeeping closed only the expired, stream-less session(s)
            if s2.is_closed() && !order.contains(&Ev::DieNewest) && !order.contains(&Ev::CountThenDie) {
                viols.lock().unwrap().push(("C12:reaper-closed-fresh-session".into(), "the newest session (idle 0.5 s of a 2 s timeout) was closed".into()));
            }
            // a session that was handed out is in use: housekeeping must not have closed it afterwards
            // (the stalled pass ends 1 s after it began)
            tokio::time::sleep(Duration::from_millis(1200)).await;
            settle().await;
            for (seq, sess) in [(2u64, Some(s1.clone())), (3, s1b.clone())] {
                if let Some(sess) = sess
                    && handed.lock().unwrap().contains(&seq)
                    && sess.is_closed()
                {
                    viols.lock().unwrap().push(("C12:reaper-closed-session-after-it-was-handed-out".into(), format!("session seq {seq} was returned by get_idle_session while a reaper pass was in progress and was closed by that pass afterwards")));
                }
            }
            for (k, d) in viols.lock().unwrap().iter() {
                out.viol(k.clone(), d.clone());
            }
            out.obs = log.lock().unwrap().join(" ");
            pool.stop_cleanup_task().await;
            let _ = s1.close().await;
            let _ = s2.close().await;
            drop(p1);
            drop(p2);
            drop(keep);
            out
        }
    })
}

fn conc_items(tier: Tier) -> Vec<crate::dxrun::DxItem> {
    // every ordering of every subset of size 2..=4 (5) of the events, with at most two Gets
    let evs = [Ev::Get, Ev::Get, Ev::DieNewest, Ev::Count, Ev::AddNew, Ev::Cleanup, Ev::CountThenDie];
    let maxlen = if tier.is_thorough() { 5 } else { 4 };
    let mut orders: Vec<Vec<Ev>> = vec![];
    fn rec(cur: &mut Vec<usize>, evs: &[Ev], maxlen: usize, out: &mut Vec<Vec<Ev>>) {
        if cur.len() >= 2 {
            let o: Vec<Ev> = cur.iter().map(|i| evs[*i]).collect();
            if !out.contains(&o) {
                out.push(o);
            }
        }
        if cur.len() == maxlen {
            return;
        }
        for i in 0..evs.len() {
            if !cur.contains(&i) {
                cur.push(i);
                rec(cur, evs, maxlen, out);
                cur.pop();
            }
        }
    }
    rec(&mut vec![], &evs, maxlen, &mut orders);
    let mut v = vec![];
    for o in orders {
        if !o.contains(&Ev::Get) {
            continue;
        }
        for min_idle in [0usize, 1] {
            for two_victims in [false, true] {
                // the second victim matters when something is handed out during the pass
                if two_victims && (o.iter().filter(|e| **e == Ev::Get).count() < 2 && o.len() > 2) {
                    continue;
                }
                let params = json!({"part": "pool-lock-concurrency", "order": o.iter().map(|e| format!("{e:?}")).collect::<Vec<_>>(), "min_idle": min_idle, "expired_sessions_behind_the_stalling_one": two_victims as u8});
                let mut it = crate::dxrun::DxItem::new(params, make_conc(o.clone(), min_idle, two_victims), if o.len() <= 3 { 1 } else { 0 });
                it.exec.long_yield = 3;
                it.exec.quiesce = true;
                v.push(it);
            }
        }
    }
    v
}

pub fn replay(file: &str) -> i32 {
    crate::dxrun::replay(file, conc_items)
}

pub fn run(tier: Tier) -> i32 {
    let mut rep = Report::new("C12", tier, "model_checking");
    let thorough = tier.is_thorough();
    rep.assumptions = vec![
        "a session is 'in use' while a stream is open on it (session stream table non-empty); 'idle' = live, in the pool, no open stream".into(),
        "New mirrors client.rs: the session is inserted into the pool at creation (optionally with its creator's stream already open)".into(),
        "virtual time; the periodic reaper runs by itself when the clock advances".into(),
    ];
    let cfgs: Vec<Cfg> = if thorough {
        vec![(1000, 2000, 0), (1000, 2000, 1), (1000, 2000, 2), (2000, 1000, 1), (1000, 1000, 0), (3000, 2000, 1)]
    } else {
        vec![(1000, 2000, 0), (1000, 2000, 1), (2000, 1000, 1), (1000, 2000, 2)]
    }
    .into_iter()
    .map(|(i, t, m)| Cfg { interval_ms: i, timeout_ms: t, min_idle: m, shutdown_err: false })
    .collect();
    // the same pool configurations with transports whose shutdown() errors (pool-only alphabet)
    let mut cfgs = cfgs;
    for (i, t, m) in [(1000u64, 2000u64, 0usize), (1000, 2000, 1)] {
        cfgs.push(Cfg { interval_ms: i, timeout_ms: t, min_idle: m, shutdown_err: true });
    }
    let depth = if thorough { 6 } else { 5 };
    let max_sessions = if thorough { 3 } else { 2 };
    // all maximal histories (every shorter history is a prefix of one of them and is checked step by step)
    let mut hists: Vec<Vec<Op>> = vec![vec![]];
    for _ in 0..depth {
        let mut next = vec![];
        for h in &hists {
            for o in enabled(h, max_sessions) {
                let mut n = h.clone();
                n.push(o);
                next.push(n);
            }
        }
        hists = next;
    }
    // second family: pool-only alphabet, deeper (the last operation is a clock advance, where the oracles fire)
    let depth2 = if thorough { 8 } else { 7 };
    let mut hists2: Vec<Vec<Op>> = vec![vec![]];
    for d in 0..depth2 {
        let mut next = vec![];
        for h in &hists2 {
            for o in enabled_pool(h, max_sessions, d + 1 == depth2) {
                let mut n = h.clone();
                n.push(o);
                next.push(n);
            }
        }
        hists2 = next;
    }
    let known: std::collections::HashSet<Vec<Op>> = hists.iter().cloned().collect();
    hists2.retain(|h| !known.contains(h));
    let n_h1 = hists.len();
    let n_h2 = hists2.len();
    hists.extend(hists2);
    let n_h = hists.len();
    let hists = Arc::new(hists);
    for cfg in &cfgs {
        let cfg = *cfg;
        let h2 = hists.clone();
        // (failing-shutdown configurations: the pool-only histories)
        let first = if cfg.shutdown_err { n_h1 } else { 0 };
        let res: Vec<(Viols, String)> = par_map(n_h - first, 16, move |i| {
            let i = i + first;
            let slot = Arc::new(Mutex::new((vec![], String::new())));
            let sc = pool_scenario(cfg, h2[i].clone(), slot.clone());
            let rec = run_exec(&sc, &ExecCfg::default(), &[], 0);
            let mut r = slot.lock().unwrap().clone();
            for v in rec.outcome.violations {
                r.0.push((v.key, format!("[{}]: {}", hist_str(&h2[i]), v.detail)));
            }
            r
        });
        let mut distinct = std::collections::HashSet::new();
        for (i, (viols, trace)) in res.into_iter().enumerate() {
            let i = i + first;
            rep.states += hists[i].len() as u64 + 1;
            rep.transitions += hists[i].len() as u64;
            rep.traces_validated += 1;
            distinct.insert(trace.clone());
            let key = format!("{:?}|{}", (cfg.interval_ms, cfg.timeout_ms, cfg.min_idle, cfg.shutdown_err), hist_str(&hists[i]));
            rep.case(Some(&key));
            if i % 50021 == 17 {
                rep.sample(json!({"config": {"interval_ms": cfg.interval_ms, "timeout_ms": cfg.timeout_ms, "min_idle": cfg.min_idle}, "history": hist_str(&hists[i]), "idle_count_trace": trace}));
            }
            // report each violation key once per history (first occurrence = shortest prefix)
            let mut seen = std::collections::HashSet::new();
            for (k, d) in viols {
                if seen.insert(k.clone()) {
                    rep.violation(&k, &format!("config (interval {} ms, timeout {} ms, min_idle {}{}): {d}", cfg.interval_ms, cfg.timeout_ms, cfg.min_idle, if cfg.shutdown_err { ", transports whose shutdown() errors" } else { "" }), json!({"engine": "BX", "config": [cfg.interval_ms, cfg.timeout_ms, cfg.min_idle], "history": hist_str(&hists[i])}));
                }
            }
        }
        if distinct.len() < 20 {
            rep.machinery(format!("vacuous BX: {} distinct idle-count traces for config {:?}", distinct.len(), cfg));
        }
    }
    crate::dxrun::run_items(&mut rep, "C12", tier, conc_items(tier), crate::dxrun::DxOpts { time_cap: Duration::from_secs(if thorough { 600 } else { 40 }), det_replays: 2, max_violations: 2, vacuity_check: false });
    rep.sections.insert("bx".into(), json!({"histories_per_config": n_h, "full_alphabet_histories": n_h1, "pool_only_histories": n_h2, "pool_only_depth": depth2, "depth": depth, "max_sessions": max_sessions, "configs": cfgs.iter().map(|c| json!([c.interval_ms, c.timeout_ms, c.min_idle])).collect::<Vec<_>>()}));
    rep.finish("BX: every operation history of depth d over {new, new+stream, get, put(s), open(s), fin(s), die(s), cleanup, advance(I/2 | I | T)} (plus every history of depth d+2 over the pool-only sub-alphabet {new, get, put(s), advance}) with <= 2 (3) sessions x 4 (6) pool configurations, each replayed from scratch on the real SessionPool / Sessions under virtual time and checked after every step (Get never returns a closed or already taken session, housekeeping never closes a session in use or handed out, minimum idle kept, no stream-less pooled session idle for longer than the timeout survives a pass beyond the minimum, idle_count vs model) and for the eventual reaping of surplus idle sessions; non-trivial = distinct (config, history)")
}
