//! C13 — sessions are reused instead of re-dialled (BX over request histories
//! through the real Client + Server over TLS on loopback).

use crate::lx::*;
use crate::report::{Report, Tier};
use crate::semi::*;
use anytls_rs::session::{Session, Stream};
use serde_json::json;
use std::sync::Mutex;
use std::sync::Arc;
use std::sync::atomic::Ordering;
use std::time::Duration;

#[derive(Clone, Copy, Debug, PartialEq)]
enum Op {
    Start,
    /// two requests started at the same instant
    Burst,
    /// finish the i-th still active request (in start order)
    Finish(usize),
    /// nothing happens for longer than the pool's idle timeout (only in the short-timeout family)
    Wait,
    /// the j-th established session (creation order) dies
    Die(usize),
}

fn hstr(h: &[Op]) -> String {
    h.iter().map(|o| match o { Op::Start => "start".to_string(), Op::Burst => "burst".to_string(), Op::Finish(i) => format!("finish({i})"), Op::Wait => "wait(>idle timeout)".to_string(), Op::Die(j) => format!("die({j})") }).collect::<Vec<_>>().join(",")
}

fn histories(depth: usize) -> Vec<Vec<Op>> {
    let mut all = vec![];
    // (history, active requests, upper bound on sessions created, deaths)
    let mut frontier: Vec<(Vec<Op>, usize, usize, Vec<usize>)> = vec![(vec![], 0, 0, vec![])];
    for _ in 0..depth {
        let mut next = vec![];
        for (h, active, sessions, dead) in &frontier {
            let mut n = h.clone();
            n.push(Op::Start);
            next.push((n, active + 1, sessions + 1, dead.clone()));
            if h.iter().filter(|o| **o == Op::Burst).count() < 1 {
                let mut n = h.clone();
                n.push(Op::Burst);
                next.push((n, active + 2, sessions + 2, dead.clone()));
            }
            for i in 0..*active {
                let mut n = h.clone();
                n.push(Op::Finish(i));
                next.push((n, active - 1, *sessions, dead.clone()));
            }
            if dead.len() < 1 {
                for j in 0..(*sessions).min(3) {
                    let mut n = h.clone();
                    n.push(Op::Die(j));
                    let mut d = dead.clone();
                    d.push(j);
                    next.push((n, *active, *sessions, d));
                }
            }
        }
        all.extend(next.iter().map(|x| x.0.clone()));
        frontier = next;
    }
    all
}

async fn run_history(server: &Lx, front: std::net::SocketAddr, target: std::net::SocketAddr, min_idle: usize, h: &[Op]) -> Vec<(String, String)> {
    run_history_cfg(server.tls_connections.clone(), front, target, min_idle, h.to_vec(), 3600, false).await
}

/// `idle_s`: the pool's idle timeout (= the heartbeat timeout); `by_identity`: histories of this family run
/// concurrently, so a dial is recognised by the request being served on a session not seen before instead of
/// by the relay's global connection counter.
async fn run_history_cfg(tls_connections: Arc<std::sync::atomic::AtomicUsize>, front: std::net::SocketAddr, target: std::net::SocketAddr, min_idle: usize, h: Vec<Op>, idle_s: u64, by_identity: bool) -> Vec<(String, String)> {
    let h = &h[..];
    let mut viols = vec![];
    let client = make_client("pw", front, anytls_rs::padding::PaddingFactory::default(), pool_cfg(1, idle_s, min_idle));
    let mut active: Vec<(Arc<Stream>, Arc<Session>)> = vec![];
    let mut sessions: Vec<Arc<Session>> = vec![];
    // model: is session k still in the pool (inserted at creation, removed when handed out again)?
    let mut in_pool: Vec<bool> = vec![];
    let mut peak = 0usize;
    let mut nreq = 0usize;
    for (step, op) in h.iter().enumerate() {
        match op {
            Op::Start | Op::Burst => {
                let k = if *op == Op::Burst { 2 } else { 1 };
                let before = tls_connections.load(Ordering::SeqCst);
                let healthy_pooled: Vec<usize> = sessions.iter().enumerate().filter(|(i, s)| !s.is_closed() && in_pool[*i]).map(|(i, _)| i).collect();
                let healthy_existing = sessions.iter().any(|s| !s.is_closed());
                let none_active = active.is_empty();
                let mut futs = vec![];
                for _ in 0..k {
                    nreq += 1;
                    let c = client.clone();
                    futs.push(tokio::spawn(async move { real_timeout(10_000, c.create_proxy_stream((target.ip().to_string(), target.port()))).await }));
                }
                let mut got = vec![];
                for f in futs {
                    match f.await {
                        Ok(Some(Ok(x))) => got.push(x),
                        other => {
                            viols.push(("C13:request-failed".into(), format!("[{}] step {step}: {:?}", hstr(h), other.map(|o| o.map(|r| r.map(|_| ()).map_err(|e| e.to_string()))))));
                            return viols;
                        }
                    }
                }
                let dialled = if by_identity { got.iter().filter(|(_, sess)| !sessions.iter().any(|s| Arc::ptr_eq(s, sess))).count() as u64 } else { (tls_connections.load(Ordering::SeqCst) - before) as u64 };
                for (st, sess) in got {
                    match sessions.iter().position(|s| Arc::ptr_eq(s, &sess)) {
                        Some(i) => in_pool[i] = false, // handed out again
                        None => {
                            sessions.push(sess.clone());
                            in_pool.push(true); // client.rs inserts a new session at creation
                        }
                    }
                    active.push((st, sess));
                }
                peak = peak.max(active.len());
                if k == 1 && none_active && healthy_existing && dialled > 0 {
                    let key = if healthy_pooled.is_empty() {
                        "C13:redial-while-healthy-session-exists:session-never-returned-to-pool"
                    } else {
                        "C13:redial-while-healthy-session-exists:pooled-session-ignored"
                    };
                    viols.push((key.into(), format!("[{}]: request #{nreq} started with no other request active and a healthy session established, yet {} new TLS connection(s) were dialled (healthy sessions still in the pool per model: {:?})", hstr(&h[..=step]), dialled, healthy_pooled)));
                }
            }
            Op::Finish(i) => {
                if *i < active.len() {
                    let (st, sess) = active.remove(*i);
                    drop(st);
                    drop(sess);
                    tokio::time::sleep(Duration::from_millis(5)).await;
                }
            }
            Op::Wait => {
                tokio::time::sleep(Duration::from_millis(idle_s * 1000 + 1300)).await;
            }
            Op::Die(j) => {
                if let Some(s) = sessions.get(*j) {
                    let _ = s.close().await;
                    // its requests are over
                    let s2 = s.clone();
                    active.retain(|(_, x)| !Arc::ptr_eq(x, &s2));
                }
            }
        }
        let open = sessions.iter().filter(|s| !s.is_closed()).count();
        if open > peak + min_idle {
            let unreachable = sessions.iter().enumerate().filter(|(i, s)| !s.is_closed() && !in_pool[*i] && !active.iter().any(|(_, x)| Arc::ptr_eq(x, s))).count();
            let key = if unreachable > 0 { "C13:session-count-exceeds-bound:sessions-never-returned-to-pool" } else { "C13:session-count-exceeds-bound" };
            viols.push((key.into(), format!("[{}]: {open} sessions open, peak concurrent requests {peak}, min_idle {min_idle}", hstr(&h[..=step]))));
        }
        if !viols.is_empty() {
            break; // later steps only repeat the consequence
        }
    }
    for s in &sessions {
        let _ = s.close().await;
    }
    client.stop_session_pool_cleanup().await;
    viols
}

// ---------------------------------------------------------------- virtual-time family (in-memory dialer seam)

#[derive(Clone, Copy, Debug, PartialEq, Eq, Hash)]
enum VOp {
    Start,
    /// a request whose destination the client rejects locally (300-byte domain): it may have dialled a session
    StartBad,
    /// a request whose target refuses: the server answers with a failure verdict, the session stays healthy
    StartRefused,
    /// a request during which session creation fails if one is needed: 0 = the dial is refused, 1 = the server drops
    /// the connection before the TLS handshake (the fault is withdrawn after the request)
    StartFaulty(u8),
    Finish(usize),
    /// the server drops the j-th connection the client dialled
    Die(usize),
    /// 0: half a check interval; 1: longer than idle timeout + check interval
    Wait(u8),
}

fn vstr(h: &[VOp]) -> String {
    h.iter().map(|o| match o { VOp::Start => "start".to_string(), VOp::StartBad => "start(destination rejected locally)".to_string(), VOp::StartRefused => "start(target refuses)".to_string(), VOp::StartFaulty(0) => "start(a dial would be refused)".to_string(), VOp::StartFaulty(_) => "start(a new connection would be dropped before the TLS handshake)".to_string(), VOp::Finish(i) => format!("finish({i})"), VOp::Die(j) => format!("die({j})"), VOp::Wait(0) => "wait(I/2)".to_string(), VOp::Wait(_) => "wait(>T+I)".to_string() }).collect::<Vec<_>>().join(",")
}

/// One history on the real Client over the in-memory dialer seam, virtual time; same rule and keys as the LX family,
/// but judged on the server's view: a "healthy session" is a connection the server still has open.
fn vhistory(interval_ms: u64, timeout_ms: u64, min_idle: usize, h: Vec<VOp>) -> Vec<(String, String)> {
    use crate::cworld::*;
    use crate::ctl::{ExecCfg, Outcome, run_exec, scenario, settle};
    let slot: Arc<Mutex<Vec<(String, String)>>> = Arc::new(Mutex::new(vec![]));
    let slot2 = slot.clone();
    let sc = scenario(move || {
        let h = h.clone();
        let slot2 = slot2.clone();
        async move {
            let mut viols: Vec<(String, String)> = vec![];
            let w = CWorld::start(crate::sess::padding(crate::sess::STOP0), pool(interval_ms, timeout_ms, min_idle), Answer::Ok);
            let mut active: Vec<(Arc<Stream>, Arc<Session>)> = vec![];
            // connection index serving each active request (parallel to `active`)
            let mut active_conn: Vec<usize> = vec![];
            // model, per connection in dial order: still in the pool (inserted at creation, removed when handed out again)?
            let mut in_pool: Vec<bool> = vec![];
            let mut killed: Vec<bool> = vec![];
            let mut peak = 0usize;
            let mut nreq = 0usize;
            let mut closed_by_request: Vec<usize> = vec![];
            for (step, op) in h.iter().enumerate() {
                let upto = || vstr(&h[..=step]);
                match op {
                    VOp::Start | VOp::StartBad | VOp::StartRefused | VOp::StartFaulty(_) => {
                        nreq += 1;
                        let faulty = matches!(op, VOp::StartFaulty(_));
                        match op {
                            VOp::StartFaulty(0) => w.refuse_dials.store(1, std::sync::atomic::Ordering::SeqCst),
                            VOp::StartFaulty(_) => w.drop_before_handshake.store(1, std::sync::atomic::Ordering::SeqCst),
                            _ => {}
                        }
                        let bad = *op == VOp::StartBad;
                        let refused = *op == VOp::StartRefused;
                        let logs0 = w.logs();
                        let alive = |i: usize, logs: &Vec<ConnLog>, killed: &Vec<bool>| !logs[i].eof && !killed[i];
                        let healthy: Vec<usize> = (0..logs0.len()).filter(|i| alive(*i, &logs0, &killed)).collect();
                        let healthy_pooled: Vec<usize> = healthy.iter().copied().filter(|i| in_pool[*i]).collect();
                        let none_active = active.is_empty();
                        // the request counts as active while it is being served, whatever its outcome
                        peak = peak.max(active.len() + 1);
                        // a request whose destination the client rejects locally: a domain name of 300 bytes
                        let host = if bad { "x".repeat(300) } else { "example.com".to_string() };
                        let r = crate::sess::within(w.client.create_proxy_stream((host, if refused { REFUSED_PORT } else { 1000 + nreq as u16 }))).await;
                        settle().await;
                        w.refuse_dials.store(0, std::sync::atomic::Ordering::SeqCst);
                        w.drop_before_handshake.store(0, std::sync::atomic::Ordering::SeqCst);
                        let logs1 = w.logs();
                        // sessions that were healthy before this request and that the client itself closed while serving it
                        // (the server did not drop them, no idle timeout passed): they do not stop counting as healthy
                        for i in 0..logs0.len() {
                            if !logs0[i].eof && logs1[i].eof && !killed[i] && !closed_by_request.contains(&i) {
                                closed_by_request.push(i);
                            }
                        }
                        let dialled = logs1.len() - logs0.len();
                        for _ in 0..dialled {
                            in_pool.push(true);
                            killed.push(false);
                        }
                        // which connection served it: the one that got new frames
                        let mut serving: Option<usize> = if dialled > 0 { Some(logs1.len() - 1) } else { None };
                        if dialled == 0 {
                            let mut served = false;
                            for i in 0..logs0.len() {
                                if logs1[i].frames.len() > logs0[i].frames.len() && logs1[i].frames[logs0[i].frames.len()..].iter().any(|f| f.cmd == crate::refmodel::SYN) {
                                    in_pool[i] = false;
                                    served = true;
                                    serving = Some(i);
                                }
                            }
                            // a request that failed before it put anything on the wire still took a session out of
                            // the pool: the newest healthy pooled one (get_idle_session's rule)
                            if !served && let Some(i) = healthy_pooled.iter().copied().max() {
                                in_pool[i] = false;
                            }
                        }
                        match r {
                            Some(Ok((st, sess))) => {
                                active.push((st, sess));
                                active_conn.push(serving.unwrap_or(usize::MAX));
                                peak = peak.max(active.len());
                            }
                            Some(Err(_)) if bad || refused => {}
                            // session creation failed: legitimate only if no healthy session was in the pool
                            Some(Err(_)) if faulty && healthy_pooled.is_empty() => {}
                            other => {
                                viols.push(("C13:request-failed".into(), format!("[{}] (virtual time): {:?}", upto(), other.map(|r| r.map(|_| ()).map_err(|e| e.to_string())))));
                                break;
                            }
                        }
                        let closed_before: Vec<usize> = closed_by_request.iter().copied().filter(|i| *i < logs0.len() && logs0[*i].eof).collect();
                        if none_active && healthy.is_empty() && dialled > 0 && !closed_before.is_empty() {
                            viols.push(("C13:redial-after-client-closed-healthy-session".into(), format!("[{}] (virtual time, interval {interval_ms} ms, timeout {timeout_ms} ms): request #{nreq} dialled a new connection; connection(s) {:?} carried a healthy session until the client itself closed it while serving an earlier request (the server had not dropped it and no idle timeout had passed)", upto(), closed_before)));
                        }
                        if none_active && !healthy.is_empty() && dialled > 0 {
                            let key = if healthy_pooled.is_empty() { "C13:redial-while-healthy-session-exists:session-never-returned-to-pool" } else { "C13:redial-while-healthy-session-exists:pooled-session-ignored" };
                            viols.push((key.into(), format!("[{}] (virtual time, interval {interval_ms} ms, timeout {timeout_ms} ms): request #{nreq} started with no other request active and a healthy session established (connections {:?} open at the server), yet {dialled} new connection(s) were dialled (healthy sessions still in the pool per model: {:?})", upto(), healthy, healthy_pooled)));
                        }
                    }
                    VOp::Finish(i) => {
                        if *i < active.len() {
                            let (st, sess) = active.remove(*i);
                            active_conn.remove(*i);
                            drop(st);
                            drop(sess);
                            settle().await;
                        }
                    }
                    VOp::Die(j) => {
                        if *j < killed.len() {
                            killed[*j] = true;
                        }
                        w.kill(*j);
                        settle().await;
                        tokio::time::sleep(Duration::from_millis(3)).await;
                    }
                    VOp::Wait(k) => {
                        let d = if *k == 0 { interval_ms / 2 + 7 } else { timeout_ms + interval_ms + 13 };
                        tokio::time::sleep(Duration::from_millis(d)).await;
                        settle().await;
                    }
                }
                settle().await;
                // requests on a dead session are over
                let mut k = 0;
                while k < active.len() {
                    if active[k].1.is_closed() {
                        active.remove(k);
                        active_conn.remove(k);
                    } else {
                        k += 1;
                    }
                }
                let logs = w.logs();
                let open = (0..logs.len()).filter(|i| !logs[*i].eof && !killed[*i]).count();
                if open > peak.max(1) + min_idle || (open > peak + min_idle && peak > 0) {
                    let unreachable = (0..logs.len()).filter(|i| !logs[*i].eof && !killed[*i] && !in_pool[*i] && !active_conn.contains(i)).count();
                    let key = if unreachable > 0 { "C13:session-count-exceeds-bound:sessions-never-returned-to-pool" } else { "C13:session-count-exceeds-bound" };
                    viols.push((key.into(), format!("[{}] (virtual time): {open} sessions open at the server, peak concurrent requests {peak}, min_idle {min_idle}", upto())));
                }
                if !viols.is_empty() {
                    break;
                }
            }
            for (_, s) in &active {
                let _ = s.close().await;
            }
            w.client.stop_session_pool_cleanup().await;
            drop(w);
            *slot2.lock().unwrap() = viols;
            Outcome::default()
        }
    });
    let rec = run_exec(&sc, &ExecCfg::default(), &[], 0);
    let mut v = slot.lock().unwrap().clone();
    for x in rec.outcome.violations {
        v.push((x.key, x.detail));
    }
    v
}

fn vhistories(depth: usize) -> Vec<Vec<VOp>> {
    let mut all = vec![];
    // (history, active, dialled upper bound, deaths)
    let mut frontier: Vec<(Vec<VOp>, usize, usize, usize)> = vec![(vec![], 0, 0, 0)];
    for d in 0..depth {
        let mut next = vec![];
        for (h, active, dials, deaths) in &frontier {
            let mut push = |op: VOp, a: usize, di: usize, de: usize| {
                let mut n = h.clone();
                n.push(op);
                next.push((n, a, di, de));
            };
            push(VOp::Start, active + 1, dials + 1, *deaths);
            let has_faulty = h.iter().any(|o| matches!(o, VOp::StartFaulty(_)));
            if !has_faulty && h.iter().filter(|o| **o == VOp::StartBad).count() < 1 {
                push(VOp::StartBad, *active, dials + 1, *deaths);
            }
            if !has_faulty && h.iter().filter(|o| **o == VOp::StartRefused).count() < 1 {
                push(VOp::StartRefused, *active, dials + 1, *deaths);
            }
            // (at most one of the three kinds of failing request per history with a faulty one)
            if h.iter().filter(|o| matches!(o, VOp::StartFaulty(_) | VOp::StartBad | VOp::StartRefused)).count() < 1 {
                // (a faulty request that finds a pooled session succeeds and stays active)
                push(VOp::StartFaulty(0), active + 1, dials + 1, *deaths);
                push(VOp::StartFaulty(1), active + 1, dials + 1, *deaths);
            }
            for i in 0..*active {
                push(VOp::Finish(i), active - 1, *dials, *deaths);
            }
            if *deaths < 1 {
                for j in 0..(*dials).min(2) {
                    push(VOp::Die(j), *active, *dials, deaths + 1);
                }
            }
            if !h.is_empty() && d + 1 < depth {
                push(VOp::Wait(0), *active, *dials, *deaths);
                if h.iter().filter(|o| **o == VOp::Wait(1)).count() < 2 {
                    push(VOp::Wait(1), *active, *dials, *deaths);
                }
            }
        }
        frontier = next;
    }
    // maximal histories that end with a request (the oracle fires at requests and after every step)
    for (h, ..) in frontier {
        all.push(h);
    }
    all
}

/// DX at the client level: two overlapping requests on a fresh client (both may dial, in either order of completion),
/// then — once both are finished — two sequential requests. Sessions that were created and never handed out again are
/// still in the pool (model: a connection with exactly one SYN), so the last request must not dial while one exists.
pub fn make_burst_then_sequential(burst: u16, one_creation_fails: bool) -> crate::ctl::ScenarioFn {
    use crate::cworld::*;
    use crate::ctl::{Outcome, hpoint, scenario, settle};
    scenario(move || async move {
        let mut out = Outcome::default();
        let w = CWorld::start(crate::sess::padding(crate::sess::STOP0), quiet_pool(1), Answer::Ok);
        if one_creation_fails {
            // the first connection dialled in the burst is dropped by the server before the TLS handshake
            w.drop_before_handshake.store(1, std::sync::atomic::Ordering::SeqCst);
            // healthy connections take 5 ms to be accepted: the failure is known while the others are still being set up
            w.accept_delay_ms.store(5, std::sync::atomic::Ordering::SeqCst);
        }
        let mut hs = vec![];
        for t in 0..burst {
            let c = w.client.clone();
            hs.push(tokio::spawn(async move {
                hpoint("h.c13.burst").await;
                if one_creation_fails && t == 2 {
                    // the third request arrives after the failure (at 2 ms), while the second session is not yet pooled
                    tokio::time::sleep(Duration::from_millis(3)).await;
                }
                crate::sess::within(c.create_proxy_stream(("example.com".to_string(), 2001 + t))).await
            }));
        }
        let mut held = vec![];
        let mut failed = 0;
        for h in hs {
            match h.await {
                Ok(Some(Ok(x))) => held.push(x),
                Ok(Some(Err(_))) if one_creation_fails && failed == 0 => failed += 1,
                other => {
                    out.viol("C13:request-failed", format!("burst request: {:?}", other.map(|o| o.map(|r| r.map(|_| ()).map_err(|e| e.to_string())))));
                    return out;
                }
            }
        }
        w.drop_before_handshake.store(0, std::sync::atomic::Ordering::SeqCst);
        drop(held);
        settle().await;
        let syns = |l: &ConnLog| l.frames.iter().filter(|f| f.cmd == crate::refmodel::SYN).count();
        let mut dial_log = vec![w.dials()];
        for r in 0..2u16 {
            let logs0 = w.logs();
            let pooled: Vec<usize> = (0..logs0.len()).filter(|i| !logs0[*i].eof && syns(&logs0[*i]) == 1).collect();
            let before = w.dials();
            match crate::sess::within(w.client.create_proxy_stream(("example.com".to_string(), 2101 + r))).await {
                Some(Ok(x)) => drop(x),
                other => {
                    out.viol("C13:request-failed", format!("sequential request {r}: {:?}", other.map(|o| o.map(|_| ()).map_err(|e| e.to_string()))));
                    return out;
                }
            }
            settle().await;
            let dialled = w.dials() - before;
            dial_log.push(w.dials());
            if dialled > 0 && !pooled.is_empty() {
                out.viol("C13:redial-while-healthy-session-exists:pooled-session-ignored", format!("a burst of overlapping requests, all finished, then sequential request #{}: {dialled} new connection(s) dialled although connection(s) {:?} carry a healthy session that was created, pooled and never handed out again (SYNs per connection: {:?})", r + 1, pooled, logs0.iter().map(syns).collect::<Vec<_>>()));
                break;
            }
        }
        out.obs = format!("dials={:?}", dial_log);
        w.client.stop_session_pool_cleanup().await;
        drop(w);
        out
    })
}

pub fn burst_items(tier: Tier) -> Vec<crate::dxrun::DxItem> {
    let mut v = vec![];
    for (burst, fails, bq, bt) in [(2u16, false, 1usize, 2usize), (3, true, 1, 2), (3, false, 0, 1)] {
        let mut it = crate::dxrun::DxItem::new(json!({"part": "client-level burst then sequential requests", "burst": burst, "one_session_creation_fails": fails}), make_burst_then_sequential(burst, fails), if tier.is_thorough() { bt } else { bq });
        it.exec.quiesce = true;
        it.exec.long_yield = 3;
        v.push(it);
    }
    v
}

fn virtual_family(rep: &mut Report, thorough: bool) {
    let depth = if thorough { 7 } else { 6 };
    let hs = Arc::new(vhistories(depth));
    let cfgs: Vec<(u64, u64, usize)> = if thorough { vec![(1000, 3000, 0), (1000, 3000, 1), (1000, 3000, 2), (3000, 1000, 1), (1000, 1000, 1)] } else { vec![(1000, 3000, 0), (1000, 3000, 1), (3000, 1000, 1)] };
    for (i_ms, t_ms, min_idle) in &cfgs {
        let (i_ms, t_ms, min_idle) = (*i_ms, *t_ms, *min_idle);
        let h2 = hs.clone();
        let res: Vec<Vec<(String, String)>> = crate::par::par_map(hs.len(), 16, move |k| vhistory(i_ms, t_ms, min_idle, h2[k].clone()));
        for (k, v) in res.into_iter().enumerate() {
            let h = &hs[k];
            rep.states += h.len() as u64 + 1;
            rep.transitions += h.len() as u64;
            rep.traces_validated += 1;
            rep.case(Some(&format!("v|{i_ms}|{t_ms}|{min_idle}|{}", vstr(h))));
            let mut seen = std::collections::HashSet::new();
            for (key, d) in v {
                if seen.insert(key.clone()) {
                    rep.violation(&key, &format!("min_idle {min_idle}: {d}"), json!({"engine": "BX/in-memory", "interval_ms": i_ms, "timeout_ms": t_ms, "min_idle": min_idle, "history": vstr(h)}));
                }
            }
        }
    }
    rep.sections.insert("virtual_time_family".into(), json!({"histories_per_config": hs.len(), "depth": depth, "configs": cfgs.iter().map(|c| json!([c.0, c.1, c.2])).collect::<Vec<_>>()}));
}

pub fn run(tier: Tier) -> i32 {
    let mut rep = Report::new("C13", tier, "model_checking");
    let thorough = tier.is_thorough();
    rep.assumptions = vec![
        "idle timeout and heartbeat timeout are 1 h so that only the request history matters (1 s in the family with a 'wait' operation, where a request gap longer than the idle timeout is the point); the check interval is 1 s only so that the heartbeat tasks of closed sessions (which hold the socket until their next tick) go away between histories".into(),
        "a request = Client::create_proxy_stream to a loopback echo target; finishing a request = dropping the stream and session handles, as the front-ends do when a connection ends".into(),
        "TLS connections are counted by a TCP relay in front of the real server".into(),
    ];
    virtual_family(&mut rep, thorough);
    // one execution at a time: the client's session sequence numbers come from a PROCESS-wide counter (subject state
    // shared by every execution in this process)
    crate::dxrun::run_items_workers(&mut rep, "C13", tier, burst_items(tier), crate::dxrun::DxOpts { time_cap: Duration::from_secs(if thorough { 600 } else { 45 }), det_replays: 2, max_violations: 2, vacuity_check: false }, 1);
    let depth = if thorough { 6 } else { 4 };
    let mut hs = histories(depth);
    // plus every history over {start, finish} alone up to depth 6 (7): the plain request sequences
    {
        let plain_depth = if thorough { 7 } else { 6 };
        let mut frontier: Vec<(Vec<Op>, usize)> = vec![(vec![], 0)];
        for _ in 0..plain_depth {
            let mut next = vec![];
            for (h, active) in &frontier {
                let mut n = h.clone();
                n.push(Op::Start);
                next.push((n, active + 1));
                for i in 0..*active {
                    let mut n = h.clone();
                    n.push(Op::Finish(i));
                    next.push((n, active - 1));
                }
            }
            for (h, _) in &next {
                if h.len() > depth && !hs.contains(h) {
                    hs.push(h.clone());
                }
            }
            frontier = next;
        }
    }
    let rt = rt_multi();
    let mut wait_family = 0usize;
    let res: Result<Vec<(usize, Vec<Op>, Vec<(String, String)>)>, String> = rt.block_on(async {
        let lx = start_lx("pw", "pw", pool_cfg(3600, 3600, 1), false, false).await?;
        // rotate over several loopback addresses (front relay and target) to stay clear of port exhaustion
        let mut fronts = vec![lx.front_addr];
        fronts.extend(lx.extra_fronts.iter().copied());
        let mut targets = vec![];
        for k in 1..=fronts.len() {
            targets.push(start_target(&format!("127.0.0.{k}"), TargetMode::EchoIdleClose, vec![]).await);
        }
        let mut out = vec![];
        let mut n = 0usize;
        // short-timeout family (idle timeout 1 s): every history of <= 5 (6) operations over {start, finish, wait} with
        // exactly one wait that is followed by a request; run concurrently (each its own client), dials recognised by
        // session identity
        {
            let wdepth = if thorough { 6 } else { 5 };
            let mut wh: Vec<Vec<Op>> = vec![];
            let mut frontier: Vec<(Vec<Op>, usize)> = vec![(vec![], 0)];
            for _ in 0..wdepth {
                let mut next = vec![];
                for (h, active) in &frontier {
                    let mut x = h.clone();
                    x.push(Op::Start);
                    next.push((x, active + 1));
                    for i in 0..*active {
                        let mut x = h.clone();
                        x.push(Op::Finish(i));
                        next.push((x, active - 1));
                    }
                    if !h.contains(&Op::Wait) && !h.is_empty() {
                        let mut x = h.clone();
                        x.push(Op::Wait);
                        next.push((x, *active));
                    }
                }
                for (h, _) in &next {
                    if let Some(w) = h.iter().position(|o| *o == Op::Wait)
                        && h.last() == Some(&Op::Start)
                        && w + 1 < h.len()
                    {
                        wh.push(h.clone());
                    }
                }
                frontier = next;
            }
            let mut set = vec![];
            for min_idle in [0usize, 1] {
                for h in &wh {
                    let k = n % fronts.len();
                    n += 1;
                    let (front, target) = (fronts[k], targets[k].addr);
                    let (h2, counter) = (h.clone(), lx.tls_connections.clone());
                    set.push(tokio::spawn(async move { (min_idle, h2.clone(), run_history_cfg(counter, front, target, min_idle, h2, 1, true).await) }));
                    if set.len() >= 24 {
                        for j in set.drain(..) {
                            if let Ok(r) = j.await {
                                out.push(r);
                            }
                        }
                    }
                }
            }
            for j in set.drain(..) {
                if let Ok(r) = j.await {
                    out.push(r);
                }
            }
            wait_family = wh.len();
        }
        for min_idle in if thorough { vec![0usize, 1, 2] } else { vec![0usize, 1] } {
            for h in &hs {
                let k = n % fronts.len();
                n += 1;
                let v = run_history(&lx, fronts[k], targets[k].addr, min_idle, h).await;
                out.push((min_idle, h.clone(), v));
            }
        }
        Ok(out)
    });
    drop(rt);
    match res {
        Err(e) => rep.machinery(format!("LX start failed: {e}")),
        Ok(all) => {
            for (i, (min_idle, h, v)) in all.iter().enumerate() {
                let starts = h.iter().filter(|o| matches!(o, Op::Start | Op::Burst)).count();
                rep.states += h.len() as u64 + 1;
                rep.transitions += h.len() as u64;
                rep.traces_validated += 1;
                let key = format!("{min_idle}|{}", hstr(h));
                rep.case(if starts >= 2 { Some(&key) } else { None });
                if i % 97 == 5 {
                    rep.sample(json!({"min_idle": min_idle, "history": hstr(h)}));
                }
                for (k, d) in v {
                    rep.violation(k, &format!("min_idle {min_idle}: {d}"), json!({"engine": "BX/LX", "min_idle": min_idle, "history": hstr(h)}));
                }
            }
            rep.sections.insert("bx".into(), json!({"histories": hs.len(), "short_timeout_histories_with_a_wait": wait_family, "depth": depth, "min_idle_values": if thorough { vec![0, 1, 2] } else { vec![0, 1] }}));
        }
    }
    rep.finish("DX (<= 2 (3) deviations) of two overlapping requests on a fresh real Client followed by two sequential ones (in-memory dialer seam); BX in virtual time: every history of depth 6 (7) over {start request, a request rejected locally, finish request i, the server drops connection j, wait I/2, wait > T+I} on the real Client over the in-memory dialer seam (H12) against a scripted TLS server, 3 (5) interval/timeout/min_idle configurations; BX over LX: every history of length <= d over {start request, burst of 2 concurrent requests, finish request i, session j dies} x min_idle in {0,1,2} (+ a short-timeout family: every history over {start, finish, wait longer than the idle timeout} with one wait, idle timeout 1 s) through the real Client and Server over TLS; per request the session identity and the number of new TLS connections, per step the number of open sessions vs peak concurrency + min_idle; non-trivial = distinct history with >= 2 requests")
}
