//! C13 — sessions are reused instead of re-dialled (BX over request histories
//! through the real Client + Server over TLS on loopback).

use crate::lx::*;
use crate::report::{Report, Tier};
use crate::semi::*;
use anytls_rs::session::{Session, Stream};
use serde_json::json;
use std::sync::Arc;
use std::sync::atomic::Ordering;
use std::time::Duration;

#[derive(Clone, Copy, Debug, PartialEq)]
enum Op {
    Start,
    /// finish the i-th still active request (in start order)
    Finish(usize),
}

fn hstr(h: &[Op]) -> String {
    h.iter().map(|o| match o { Op::Start => "start".to_string(), Op::Finish(i) => format!("finish({i})") }).collect::<Vec<_>>().join(",")
}

fn histories(depth: usize) -> Vec<Vec<Op>> {
    let mut all = vec![];
    let mut frontier: Vec<(Vec<Op>, usize)> = vec![(vec![], 0)];
    for _ in 0..depth {
        let mut next = vec![];
        for (h, active) in &frontier {
            let mut n = h.clone();
            n.push(Op::Start);
            next.push((n, active + 1));
            for i in 0..*active {
                let mut n = h.clone();
                n.push(Op::Finish(i));
                next.push((n, active - 1));
            }
        }
        all.extend(next.iter().map(|x| x.0.clone()));
        frontier = next;
    }
    all
}

async fn run_history(server: &Lx, target: std::net::SocketAddr, min_idle: usize, h: &[Op]) -> Vec<(String, String)> {
    let mut viols = vec![];
    let client = make_client("pw", server.front_addr, anytls_rs::padding::PaddingFactory::default(), pool_cfg(3600, 3600, min_idle));
    let mut active: Vec<(Arc<Stream>, Arc<Session>)> = vec![];
    let mut sessions: Vec<Arc<Session>> = vec![];
    let mut peak = 0usize;
    let mut nreq = 0usize;
    for (step, op) in h.iter().enumerate() {
        match op {
            Op::Start => {
                nreq += 1;
                let before = server.tls_connections.load(Ordering::SeqCst);
                let healthy_existing = sessions.iter().any(|s| !s.is_closed());
                let none_active = active.is_empty();
                let r = real_timeout(10_000, client.create_proxy_stream((target.ip().to_string(), target.port()))).await;
                let (st, sess) = match r {
                    Some(Ok(x)) => x,
                    other => {
                        viols.push(("C13:request-failed".into(), format!("[{}] step {step}: {:?}", hstr(h), other.map(|r| r.map(|_| ()).map_err(|e| e.to_string())))));
                        return viols;
                    }
                };
                let dialled = server.tls_connections.load(Ordering::SeqCst) - before;
                let known = sessions.iter().any(|s| Arc::ptr_eq(s, &sess));
                if !known {
                    sessions.push(sess.clone());
                }
                active.push((st, sess));
                peak = peak.max(active.len());
                if none_active && healthy_existing && (dialled > 0 || !known) {
                    viols.push((format!("C13:redial-while-healthy-session-exists@request#{nreq}"), format!("[{}]: request #{nreq} started with no other request active and a healthy session established, yet a new TLS connection was dialled ({} new connection(s), session known: {known})", hstr(&h[..=step]), dialled)));
                }
            }
            Op::Finish(i) => {
                if *i < active.len() {
                    let (st, sess) = active.remove(*i);
                    drop(st);
                    drop(sess);
                    tokio::time::sleep(Duration::from_millis(5)).await;
                }
            }
        }
        let open = sessions.iter().filter(|s| !s.is_closed()).count();
        if open > peak + min_idle {
            viols.push((format!("C13:session-count-exceeds-bound@request#{nreq}:min_idle={min_idle}"), format!("[{}]: {open} sessions open, peak concurrent requests {peak}, min_idle {min_idle}", hstr(&h[..=step]))));
        }
        if !viols.is_empty() {
            break; // later steps only repeat the consequence
        }
    }
    for s in &sessions {
        let _ = s.close().await;
    }
    client.stop_session_pool_cleanup().await;
    viols
}

pub fn run(tier: Tier) -> i32 {
    let mut rep = Report::new("C13", tier, "model_checking");
    let thorough = tier.is_thorough();
    rep.assumptions = vec![
        "pool timers and heartbeat are set to 1 h so that only the request history matters".into(),
        "a request = Client::create_proxy_stream to a loopback echo target; finishing a request = dropping the stream and session handles, as the front-ends do when a connection ends".into(),
        "TLS connections are counted by a TCP relay in front of the real server".into(),
    ];
    let depth = if thorough { 8 } else { 6 };
    let hs = histories(depth);
    let rt = rt_multi();
    let res: Result<Vec<(usize, Vec<Op>, Vec<(String, String)>)>, String> = rt.block_on(async {
        let lx = start_lx("pw", "pw", pool_cfg(3600, 3600, 1), false, false).await?;
        let target = start_target("127.0.0.1", TargetMode::Echo, vec![]).await;
        let mut out = vec![];
        for min_idle in [0usize, 1, 2] {
            for h in &hs {
                let v = run_history(&lx, target.addr, min_idle, h).await;
                out.push((min_idle, h.clone(), v));
            }
        }
        Ok(out)
    });
    drop(rt);
    match res {
        Err(e) => rep.machinery(format!("LX start failed: {e}")),
        Ok(all) => {
            for (i, (min_idle, h, v)) in all.iter().enumerate() {
                let starts = h.iter().filter(|o| **o == Op::Start).count();
                rep.states += h.len() as u64 + 1;
                rep.transitions += h.len() as u64;
                rep.traces_validated += 1;
                let key = format!("{min_idle}|{}", hstr(h));
                rep.case(if starts >= 2 { Some(&key) } else { None });
                if i % 97 == 5 {
                    rep.sample(json!({"min_idle": min_idle, "history": hstr(h)}));
                }
                for (k, d) in v {
                    rep.violation(k, &format!("min_idle {min_idle}: {d}"), json!({"engine": "BX/LX", "min_idle": min_idle, "history": hstr(h)}));
                }
            }
            rep.sections.insert("bx".into(), json!({"histories": hs.len(), "depth": depth, "min_idle_values": [0, 1, 2]}));
        }
    }
    rep.finish("BX over LX: every history of length <= d over {start request, finish request i} x min_idle in {0,1,2} through the real Client and Server over TLS; per request the session identity and the number of new TLS connections, per step the number of open sessions vs peak concurrency + min_idle; non-trivial = distinct history with >= 2 requests")
}
