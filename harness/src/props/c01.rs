//! C01 — every stream is a lossless, ordered, exact byte pipe.

use crate::ctl::{Outcome, ScenarioFn, scenario};
use crate::dxrun::{DxItem, DxOpts, run_items};
use crate::report::{Report, Tier};
use crate::sess::*;
use crate::vpipe::PipeCfg;
use anytls_rs::session::{Session, Stream};
use bytes::Bytes;
use serde_json::json;
use std::sync::{Arc, Mutex};
use std::time::Duration;

#[derive(Clone, Copy, Debug, PartialEq)]
pub enum Path {
    /// Session::write_data_frame (what socks5.rs / http_proxy.rs call)
    Direct,
    /// Stream::send_data through the forwarding task (handler.rs, UDP code)
    Forward,
}

#[derive(Clone, Debug)]
pub struct Flow {
    /// stream index (0-based; stream id = index + 1)
    pub stream: usize,
    /// true: client -> server
    pub up: bool,
    pub path: Path,
    pub chunks: Vec<usize>,
    pub read_buf: usize,
    /// sizes of successive read calls (cyclic); empty = always `read_buf`. A size of 0 is a legal read
    /// call ("is anything there?" probes, a full ReadBuf) that must return 0 and lose nothing.
    pub read_pattern: Vec<usize>,
}

#[derive(Clone, Debug)]
pub struct Params {
    pub streams: usize,
    pub flows: Vec<Flow>,
    pub scheme: &'static str,
    pub scheme_name: &'static str,
    pub capacity: usize,
    pub read_menu: bool,
    pub write_menu: bool,
    /// > 0: both directions are slow links — `capacity` bytes in flight, delivered after this many seconds of virtual
    /// time (every write is cut in mid-frame by long stalls)
    pub latency_s: u64,
    /// (server-to-client pipe?, call index from the start of the flows, flush?) — that one transport call returns
    /// ErrorKind::Interrupted once. The session may end because of it; what was read must stay a prefix of what was
    /// written (only the data-integrity keys are judged)
    pub interrupt: Option<(bool, usize, bool)>,
    /// with `interrupt` on a write call: the call accepts 0 bytes (Ok(0)) instead of returning Interrupted
    pub zero_instead: bool,
}

fn vl(v: &Arc<Mutex<Vec<(String, String)>>>, k: &str, d: String) {
    v.lock().unwrap().push((k.to_string(), d));
}

async fn write_flow(
    sess: Arc<Session>,
    st: Arc<Stream>,
    f: Flow,
    tag: u8,
    viols: Arc<Mutex<Vec<(String, String)>>>,
) -> usize {
    let dir = if f.up { 0 } else { 1 };
    let mut off = 0usize;
    for (i, c) in f.chunks.iter().enumerate() {
        let data = Bytes::from(pat_vec(tag, dir, off, *c));
        match f.path {
            Path::Direct => match within(sess.write_data_frame(st.id(), data)).await {
                None => {
                    vl(&viols, "C01:write-blocks", format!("write_data_frame of chunk #{i} ({c} bytes) blocks forever"));
                    return off;
                }
                Some(Err(e)) => {
                    vl(&viols, "C01:write-failed", format!("write_data_frame of chunk #{i} ({c} bytes) failed on a healthy transport: {e}"));
                    return off;
                }
                Some(Ok(())) => {}
            },
            Path::Forward => {
                if st.send_data(data).is_err() {
                    vl(&viols, "C01:write-failed", format!("send_data of chunk #{i} ({c} bytes) failed on a healthy session"));
                    return off;
                }
            }
        }
        off += c;
    }
    off
}

/// Polls a future exactly once.
pub async fn poll_once<F: std::future::Future + Unpin>(f: &mut F) -> std::task::Poll<F::Output> {
    std::future::poll_fn(|cx| std::task::Poll::Ready(std::pin::Pin::new(&mut *f).poll(cx))).await
}

/// Reads until `expect` bytes have been seen (then probes for surplus), or EOF / error.
async fn read_flow(
    st: Arc<Stream>,
    f: Flow,
    tag: u8,
    expect: usize,
    viols: Arc<Mutex<Vec<(String, String)>>>,
) -> String {
    let dir = if f.up { 0 } else { 1 };
    let reader = st.reader().clone();
    let mut total = 0usize;
    let mut buf = vec![0u8; f.read_buf.max(f.read_pattern.iter().copied().max().unwrap_or(0))];
    let who = format!("stream {} {}", f.stream + 1, if f.up { "up" } else { "down" });
    let mut call = 0usize;
    while total < expect {
        let size = if f.read_pattern.is_empty() { f.read_buf } else { f.read_pattern[call % f.read_pattern.len()] };
        call += 1;
        let r = {
            let mut g = reader.lock().await;
            // the read-pattern variants also cancel reads: a read with the largest buffer is polled once and, if it
            // has to wait, dropped (what select!/timeout and Stream::poll_read do); then the real read follows
            let mut early = None;
            if !f.read_pattern.is_empty() && size > 0 {
                let big = buf.len();
                let mut fut = Box::pin(g.read(&mut buf[..big]));
                if let std::task::Poll::Ready(x) = poll_once(&mut fut).await {
                    early = Some(x);
                }
                drop(fut);
            }
            match early {
                Some(x) => Some(x),
                None => within(g.read(&mut buf[..size])).await,
            }
        };
        match r {
            Some(Ok(0)) if size == 0 => {}
            None => {
                vl(&viols, "C01:lost", format!("{who}: reader blocked forever after {total} of {expect} bytes — the rest never arrives"));
                return format!("{who}: stuck at {total}/{expect}");
            }
            Some(Ok(0)) => {
                vl(&viols, "C01:spurious-eof", format!("{who}: read returned 0 after {total} of {expect} bytes while the stream is open and more data was submitted"));
                return format!("{who}: eof at {total}/{expect}");
            }
            Some(Err(e)) => {
                vl(&viols, "C01:read-error", format!("{who}: read failed after {total} of {expect} bytes: {e}"));
                return format!("{who}: err at {total}/{expect}");
            }
            Some(Ok(n)) => {
                // prefix property, checked at every read return
                for (k, b) in buf[..n].iter().enumerate() {
                    let want = if total + k < expect { pat(tag, dir, total + k) } else { !*b };
                    if *b != want {
                        let key = if total + k >= expect { "C01:surplus-bytes" } else { "C01:altered-or-misordered" };
                        vl(&viols, key, format!("{who}: byte {} read as {:#04x}, submitted {:#04x} (read of {n} bytes at offset {total})", total + k, b, want));
                        return format!("{who}: mismatch at {}", total + k);
                    }
                }
                total += n;
            }
        }
    }
    // everything seen: nothing more may arrive while the stream stays open
    if buf.is_empty() {
        buf.push(0);
    }
    let extra = {
        let mut g = reader.lock().await;
        tokio::time::timeout(Duration::from_secs(30), g.read(&mut buf)).await
    };
    match extra {
        Err(_) => format!("{who}: ok {total}"),
        Ok(Ok(0)) => {
            vl(&viols, "C01:spurious-eof", format!("{who}: end-of-stream reported after {total} bytes although nobody ended the stream"));
            format!("{who}: eof after all")
        }
        Ok(Ok(n)) => {
            vl(&viols, "C01:surplus-bytes", format!("{who}: {n} more bytes after the {total} submitted ones (duplication)"));
            format!("{who}: surplus {n}")
        }
        Ok(Err(e)) => {
            vl(&viols, "C01:read-error", format!("{who}: read error after all data: {e}"));
            format!("{who}: err after all")
        }
    }
}

pub fn make(p: Params) -> ScenarioFn {
    scenario(move || {
        let p = p.clone();
        async move {
            let mut out = Outcome::default();
            let mut c2s = PipeCfg::new("c2s").menus(p.read_menu, p.write_menu).capacity(p.capacity).latency(Duration::from_secs(p.latency_s));
            let mut s2c = PipeCfg::new("s2c").menus(p.read_menu, p.write_menu).capacity(p.capacity).latency(Duration::from_secs(p.latency_s));
            c2s.log_data = false;
            s2c.log_data = false;
            let mut pair = match linked_pair(c2s, s2c, p.scheme, p.scheme, None).await {
                Ok(x) => x,
                Err(e) => {
                    out.viol("C01:start-failed", format!("{e}"));
                    return out;
                }
            };
            let viols: Arc<Mutex<Vec<(String, String)>>> = Arc::new(Mutex::new(vec![]));
            // open the streams the way client.rs does (SYN buffered, flushed with the first write)
            let mut cstreams = vec![];
            for _ in 0..p.streams {
                match within(pair.client.open_stream()).await {
                    Some(Ok((st, _rx))) => cstreams.push(st),
                    other => {
                        out.viol("C01:open-failed", format!("open_stream: {:?}", other.map(|r| r.map(|_| ()).map_err(|e| e.to_string()))));
                        return out;
                    }
                }
            }
            pair.client.disable_buffering();
            // every stream carries a 1-byte hello first so the server side accepts it
            for st in &cstreams {
                if let Some(Err(e)) = within(pair.client.write_data_frame(st.id(), Bytes::from_static(b"H"))).await {
                    out.viol("C01:write-failed", format!("hello: {e}"));
                    return out;
                }
            }
            let mut sstreams: Vec<Option<Arc<Stream>>> = vec![None; p.streams];
            for _ in 0..p.streams {
                match within(pair.accepted.recv()).await {
                    Some(Some(st)) => {
                        let idx = st.id() as usize - 1;
                        // consume the hello
                        let mut b = [0u8; 1];
                        let r = {
                            let mut g = st.reader().lock().await;
                            within(g.read(&mut b)).await
                        };
                        if !matches!(r, Some(Ok(1))) || b[0] != b'H' {
                            out.viol("C01:lost", format!("hello byte of stream {} did not arrive: {:?}", st.id(), r.map(|x| x.map_err(|e| e.to_string()))));
                            return out;
                        }
                        sstreams[idx] = Some(st);
                    }
                    _ => {
                        out.viol("C01:lost", "server never accepted an opened stream (SYN or first data lost)");
                        return out;
                    }
                }
            }
            if let Some((s2c, k, flush)) = p.interrupt {
                let pipe = if s2c { &pair.s2c } else { &pair.c2s };
                if flush {
                    pipe.set_flush_interrupt_call(k)
                } else if p.zero_instead {
                    pipe.set_write_zero_call(k)
                } else {
                    pipe.set_write_interrupt_call(k)
                }
            }
            let mut writers = vec![];
            let mut readers = vec![];
            for f in &p.flows {
                let tag = (f.stream as u8 + 1) * 2 + if f.up { 0 } else { 1 };
                let expect: usize = f.chunks.iter().sum();
                let cst = cstreams[f.stream].clone();
                let sst = sstreams[f.stream].clone().unwrap();
                let (wsess, wst, rst) = if f.up {
                    (pair.client.clone(), cst, sst)
                } else {
                    (pair.server.clone(), sst, cst)
                };
                readers.push(tokio::spawn(read_flow(rst, f.clone(), tag, expect, viols.clone())));
                writers.push(tokio::spawn(write_flow(wsess, wst, f.clone(), tag, viols.clone())));
            }
            let mut obs = vec![];
            for w in writers {
                match w.await {
                    Ok(n) => obs.push(format!("w{n}")),
                    Err(e) => vl(&viols, "panic:task", format!("writer task: {e}")),
                }
            }
            for r in readers {
                match tokio::time::timeout(Duration::from_secs(3 * 3600), r).await {
                    Ok(Ok(s)) => obs.push(s),
                    Ok(Err(e)) => vl(&viols, "panic:task", format!("reader task: {e}")),
                    Err(_) => vl(&viols, "C01:lost", "reader task never finished".into()),
                }
            }
            // when it ends it has seen all of it: close the client session; every reader must now see EOF, not data
            let _ = within(pair.client.close()).await;
            let _ = within(pair.server.close()).await;
            for (i, st) in cstreams.iter().enumerate() {
                let mut b = [0u8; 8];
                let r = {
                    let mut g = st.reader().lock().await;
                    within(g.read(&mut b)).await
                };
                match r {
                    Some(Ok(0)) | Some(Err(_)) => {}
                    Some(Ok(n)) => {
                        if p.flows.iter().any(|f| f.stream == i && !f.up) {
                            // data after everything was accounted for
                            vl(&viols, "C01:surplus-bytes", format!("stream {}: {n} bytes readable after close although all submitted data had been read", i + 1));
                        }
                    }
                    None => vl(&viols, "C01:reader-not-ended", format!("client reader of stream {} does not end after close", i + 1)),
                }
            }
            for (k, d) in viols.lock().unwrap().iter() {
                if p.interrupt.is_some() && !matches!(k.as_str(), "C01:altered-or-misordered" | "C01:surplus-bytes" | "panic:task") {
                    continue;
                }
                out.viol(k.clone(), d.clone());
            }
            out.obs = obs.join(" | ");
            out
        }
    })
}

/// "Banner" scenario: the server side writes on a stream the moment it is
/// accepted (a target that greets first: SSH, SMTP, ...), while the client may
/// still be suspended inside the write that carries the SYN.
#[derive(Clone, Debug)]
pub struct BannerParams {
    pub openers: usize,
    pub forward: bool,
    pub scheme: &'static str,
    pub scheme_name: &'static str,
    pub write_menu: bool,
    pub fresh: bool,
}

pub fn make_banner(p: BannerParams) -> ScenarioFn {
    scenario(move || {
        let p = p.clone();
        async move {
            let mut out = Outcome::default();
            let c2s = PipeCfg::new("c2s").menus(false, p.write_menu).flush_menu(true);
            let s2c = PipeCfg::new("s2c").flush_menu(true);
            let mut pair = match linked_pair(c2s, s2c, p.scheme, p.scheme, None).await {
                Ok(x) => x,
                Err(e) => {
                    out.viol("C01:start-failed", format!("{e}"));
                    return out;
                }
            };
            let viols: Arc<Mutex<Vec<(String, String)>>> = Arc::new(Mutex::new(vec![]));
            let server = pair.server.clone();
            let fw = p.forward;
            let acceptor = tokio::spawn(async move {
                while let Some(st) = pair.accepted.recv().await {
                    let banner = Bytes::from(pat_vec(st.id() as u8, 1, 0, 20));
                    if fw {
                        let _ = st.send_data(banner);
                    } else {
                        let _ = within(server.write_data_frame(st.id(), banner)).await;
                    }
                }
            });
            if !p.fresh {
                // pre-state: a session that already carries a stream (buffering off)
                match within(pair.client.open_stream()).await {
                    Some(Ok((st, _rx))) => {
                        pair.client.disable_buffering();
                        let _ = within(pair.client.write_data_frame(st.id(), Bytes::from_static(b"H"))).await;
                    }
                    _ => {
                        out.viol("C01:open-failed", "pre-state open failed");
                        return out;
                    }
                }
            }
            let mut hs = vec![];
            for t in 0..p.openers {
                let c = pair.client.clone();
                let viols = viols.clone();
                hs.push(tokio::spawn(async move {
                    crate::ctl::hpoint("h.c01.banner.start").await;
                    let Some(Ok((st, _rx))) = within(c.open_stream()).await else {
                        vl(&viols, "C01:open-failed", format!("opener {t}"));
                        return String::new();
                    };
                    c.disable_buffering();
                    // the destination write flushes the SYN on a fresh session
                    if let Some(Err(e)) = within(c.write_data_frame(st.id(), Bytes::from_static(b"D"))).await {
                        vl(&viols, "C01:write-failed", format!("opener {t}: {e}"));
                    }
                    let f = Flow { stream: st.id() as usize - 1, up: false, path: Path::Forward, chunks: vec![20], read_buf: 64, read_pattern: vec![] };
                    read_flow(st.clone(), f, st.id() as u8, 20, viols.clone()).await
                }));
            }
            let mut obs = vec![];
            for h in hs {
                match tokio::time::timeout(Duration::from_secs(3 * 3600), h).await {
                    Ok(Ok(s)) => obs.push(s),
                    Ok(Err(e)) => vl(&viols, "panic:task", format!("{e}")),
                    Err(_) => vl(&viols, "C01:lost", "banner reader never finished".into()),
                }
            }
            acceptor.abort();
            for (k, d) in viols.lock().unwrap().iter() {
                out.viol(k.clone(), d.clone());
            }
            out.obs = obs.join(" | ");
            out
        }
    })
}

pub fn banner_json(p: &BannerParams) -> serde_json::Value {
    json!({"part": "banner", "openers": p.openers, "forward": p.forward, "scheme": p.scheme_name, "write_menu": p.write_menu, "fresh": p.fresh})
}

pub fn params_json(p: &Params) -> serde_json::Value {
    json!({"streams": p.streams, "scheme": p.scheme_name, "capacity": if p.capacity == usize::MAX { -1 } else { p.capacity as i64 }, "latency_s": p.latency_s, "interrupted_call": p.interrupt.map(|(s2c, k, fl)| format!("{} {} #{k}", if s2c { "s2c" } else { "c2s" }, if fl { "flush" } else if p.zero_instead { "write(Ok(0))" } else { "write" })),
        "read_menu": p.read_menu, "write_menu": p.write_menu,
        "flows": p.flows.iter().map(|f| json!({"s": f.stream + 1, "up": f.up, "path": format!("{:?}", f.path), "chunks": f.chunks, "rbuf": f.read_buf, "read_calls": f.read_pattern})).collect::<Vec<_>>()})
}

const SIZES: [usize; 15] =
    [0, 1, 6, 7, 8, 255, 8191, 8192, 8193, 65534, 65535, 65536, 65537, 70000, 131072];

pub fn all_params(tier: Tier) -> Vec<(Params, usize)> {
    let thorough = tier.is_thorough();
    let schemes: [(&'static str, &'static str); 3] = [(STOP0, "stop0"), (DEFAULT, "default"), (TINY, "tiny")];
    let mut v = vec![];
    // Part A: size-sequence sweep, no deviations (B=0): every sequence of <= 2 (thorough 3 over a reduced set) chunk sizes
    let mut seqs: Vec<Vec<usize>> = vec![];
    for a in SIZES {
        seqs.push(vec![a]);
        for b in SIZES {
            seqs.push(vec![a, b]);
        }
    }
    if thorough {
        let red = [0usize, 1, 7, 8193, 65535, 65536, 70000];
        for a in red {
            for b in red {
                for c in red {
                    seqs.push(vec![a, b, c]);
                }
            }
        }
    }
    for (si, seq) in seqs.iter().enumerate() {
        let total: usize = seq.iter().sum();
        for (scheme, scheme_name) in schemes {
            for up in [true, false] {
                for path in [Path::Direct, Path::Forward] {
                    // read-buffer sizes {7, 8192, chunk+1}; 1-byte reads only for small totals
                    let mut rbufs = vec![8192usize, seq[0] + 1];
                    if total <= 20000 {
                        rbufs.push(7);
                    }
                    if total <= 600 {
                        rbufs.push(1);
                    }
                    // keep quick affordable: rotate scheme/path combinations over sequences unless thorough
                    if !thorough && (si + up as usize + (path == Path::Forward) as usize) % 3 != (scheme_name.len() % 3) {
                        continue;
                    }
                    // read calls of varying sizes, zero-length ones among them
                    v.push((
                        Params {
                            streams: 1,
                            flows: vec![Flow { stream: 0, up, path, chunks: seq.clone(), read_buf: 8192, read_pattern: if total <= 20000 { vec![0, 7, 0, 0, 8192, 1] } else { vec![0, 8192] } }],
                            scheme,
                            scheme_name,
                            capacity: usize::MAX,
                            read_menu: false,
                            write_menu: false,
                            latency_s: 0,
                            interrupt: None,
                            zero_instead: false,
                        },
                        0,
                    ));
                    for rb in rbufs {
                        for cap in [usize::MAX, 1000] {
                            if cap == 1000 && !thorough && rb != 8192 {
                                continue;
                            }
                            v.push((
                                Params {
                                    streams: 1,
                                    flows: vec![Flow { stream: 0, up, path, chunks: seq.clone(), read_buf: rb, read_pattern: vec![] }],
                                    scheme,
                                    scheme_name,
                                    capacity: cap,
                                    read_menu: false,
                                    write_menu: false,
                                    latency_s: 0,
                                    interrupt: None,
                                    zero_instead: false,
                                },
                                0,
                            ));
                        }
                    }
                }
            }
        }
    }
    // Part A2: alignment sweep — chunk sizes in windows around the receive loop's block size (8192) and its multiples, so
    // that for some size a transport read ends 1..6 bytes into the next frame's header exactly when it fills the block
    {
        let mut aseqs: Vec<Vec<usize>> = vec![];
        let win: Vec<usize> = if thorough { (8100..=8210).collect() } else { (8140..=8200).collect() };
        for w in &win {
            aseqs.push(vec![*w, 9]);
            aseqs.push(vec![65535, *w, 9]);
        }
        for w in if thorough { 16300..=16400usize } else { 16340..=16390usize } {
            aseqs.push(vec![w, 9]);
        }
        for seq in aseqs {
            for up in [true, false] {
                v.push((
                    Params { streams: 1, flows: vec![Flow { stream: 0, up, path: Path::Direct, chunks: seq.clone(), read_buf: 8192, read_pattern: vec![] }], scheme: STOP0, scheme_name: "stop0", capacity: usize::MAX, read_menu: false, write_menu: false, latency_s: 0, interrupt: None, zero_instead: false },
                    0,
                ));
            }
        }
    }
    // Part B: concurrent flows with schedule / transport deviations
    let b = if thorough { 3 } else { 2 };
    let f = |stream, up, path, chunks: &[usize], rb| Flow { stream, up, path, chunks: chunks.to_vec(), read_buf: rb, read_pattern: vec![] };
    let schemes_b: [(&'static str, &'static str); 4] = [(STOP0, "stop0"), (DEFAULT, "default"), (TINY, "tiny"), (BRANCHY, "branchy")];
    for (scheme, scheme_name) in schemes_b {
        if !thorough && scheme_name == "default" {
            continue; // quick: the tiny and branchy schemes take every shaper branch
        }
        // two streams upstream, direct path, short reads straddling headers
        v.push((Params { streams: 2, flows: vec![f(0, true, Path::Direct, &[1, 7], 7), f(1, true, Path::Direct, &[8, 30], 8192)], scheme, scheme_name, capacity: usize::MAX, read_menu: true, write_menu: false, latency_s: 0, interrupt: None, zero_instead: false }, b));
        // two streams downstream through the forwarding task
        v.push((Params { streams: 2, flows: vec![f(0, false, Path::Forward, &[1, 7], 7), f(1, false, Path::Forward, &[8, 30], 9)], scheme, scheme_name, capacity: usize::MAX, read_menu: true, write_menu: false, latency_s: 0, interrupt: None, zero_instead: false }, b));
        // both directions at once on one stream, short/pending writes
        v.push((Params { streams: 1, flows: vec![f(0, true, Path::Direct, &[9, 0, 3], 4), f(0, false, Path::Forward, &[5, 12], 8192)], scheme, scheme_name, capacity: usize::MAX, read_menu: false, write_menu: true, latency_s: 0, interrupt: None, zero_instead: false }, b.min(2)));
        // back-pressure: 3000-byte chunks through a 1000-byte pipe, both directions
        v.push((Params { streams: 1, flows: vec![f(0, true, Path::Direct, &[3000], 8192), f(0, false, Path::Direct, &[2500], 700)], scheme, scheme_name, capacity: 1000, read_menu: false, write_menu: false, latency_s: 0, interrupt: None, zero_instead: false }, b.min(2)));
    }
    // slow links: 16 bytes in flight, delivered after 16 / 31 / 61 s — every write is cut in mid-frame by long stalls
    for (scheme, scheme_name) in [(STOP0, "stop0"), (TINY, "tiny")] {
        for lat in [16u64, 31, 61] {
            if !thorough && scheme_name == "tiny" && lat != 31 {
                continue;
            }
            v.push((Params { streams: 2, flows: vec![f(0, true, Path::Direct, &[20, 90], 8192), f(1, true, Path::Forward, &[33], 7), f(0, false, Path::Forward, &[50, 8], 8192)], scheme, scheme_name, capacity: 16, read_menu: false, write_menu: false, latency_s: lat, interrupt: None, zero_instead: false }, if thorough { 1 } else { 0 }));
        }
    }
    // one transport call returns ErrorKind::Interrupted (a legal transient result) — at every write / flush call index
    // of a narrow transport in either direction
    for (scheme, scheme_name) in [(STOP0, "stop0"), (TINY, "tiny")] {
        for s2c in [false, true] {
            for (flush, n) in [(false, 14usize), (true, 5)] {
                for k in 0..n {
                    for zero in [false, true] {
                        if zero && flush {
                            continue;
                        }
                        v.push((Params { streams: 1, flows: vec![f(0, true, Path::Direct, &[20, 90], 8192), f(0, false, Path::Forward, &[50, 8], 8192)], scheme, scheme_name, capacity: 16, read_menu: false, write_menu: false, latency_s: 0, interrupt: Some((s2c, k, flush)), zero_instead: zero }, 0));
                    }
                }
            }
        }
    }
    // a chunk larger than a frame with transport deviations
    v.push((Params { streams: 1, flows: vec![f(0, true, Path::Direct, &[70000, 5], 8192)], scheme: STOP0, scheme_name: "stop0", capacity: usize::MAX, read_menu: true, write_menu: false, latency_s: 0, interrupt: None, zero_instead: false }, 1));
    v.push((Params { streams: 1, flows: vec![f(0, false, Path::Forward, &[65536], 8192)], scheme: STOP0, scheme_name: "stop0", capacity: usize::MAX, read_menu: false, write_menu: true, latency_s: 0, interrupt: None, zero_instead: false }, 1));
    v
}

pub fn items(tier: Tier) -> Vec<DxItem> {
    let mut v: Vec<DxItem> = all_params(tier).into_iter().map(|(p, b)| DxItem::new(params_json(&p), make(p), b)).collect();
    let b = if tier.is_thorough() { 3 } else { 2 };
    for (scheme, scheme_name) in [(STOP0, "stop0"), (DEFAULT, "default"), (TINY, "tiny")] {
        let deep = if tier.is_thorough() || scheme_name == "stop0" { b } else { b - 1 };
        for (openers, forward, write_menu, fresh, bound) in [(1, true, false, false, deep), (1, false, false, false, deep), (2, true, false, false, b - 1), (1, true, true, false, b - 1), (1, true, false, true, b - 1), (2, false, false, true, b - 1)] {
            let p = BannerParams { openers, forward, scheme, scheme_name, write_menu, fresh };
            let mut it = DxItem::new(banner_json(&p), make_banner(p), bound);
            it.exec.long_yield = 5;
            it.exec.quiesce = true;
            v.push(it);
        }
    }
    v
}

/// Part C: the AsyncRead/AsyncWrite impls of `Stream` on a hand-built stream (IX sweep).
fn stream_seam_sweep(rep: &mut Report) {
    use anytls_rs::session::StreamReader;
    use tokio::io::{AsyncReadExt, AsyncWriteExt};
    let rt = tokio::runtime::Builder::new_current_thread().enable_time().build().unwrap();
    let wsizes = [0usize, 1, 7, 8, 255, 8192, 65535, 65536, 70000];
    let rsizes = [1usize, 7, 8192, 100000];
    for w in wsizes {
        for w2 in [0usize, 1, 9000] {
            for r in rsizes {
                if r == 1 && w + w2 > 20000 {
                    continue;
                }
              for exact in [false, true] {
                let key = format!("seam w={w},{w2} r={r}{}", if exact { " read_exact" } else { "" });
                rep.case(Some(&key));
                let res: Result<(), String> = rt.block_on(async {
                    let (tx, mut rx) = tokio::sync::mpsc::unbounded_channel();
                    let (rtx, rrx) = tokio::sync::mpsc::unbounded_channel();
                    let (mut st, _s) = Stream::new(5, StreamReader::new(5, rrx), tx);
                    // write side: chunks submitted through AsyncWrite come out of the channel unchanged and in order
                    let d1 = pat_vec(9, 0, 0, w);
                    let d2 = pat_vec(9, 0, w, w2);
                    st.write_all(&d1).await.map_err(|e| e.to_string())?;
                    st.write_all(&d2).await.map_err(|e| e.to_string())?;
                    st.flush().await.map_err(|e| e.to_string())?;
                    let mut got = vec![];
                    while let Ok((id, b)) = rx.try_recv() {
                        if id != 5 {
                            return Err(format!("chunk tagged with stream id {id}"));
                        }
                        got.extend_from_slice(&b);
                    }
                    let mut want = d1.clone();
                    want.extend_from_slice(&d2);
                    if got != want {
                        return Err(format!("AsyncWrite: {} bytes came out for {} written", got.len(), want.len()));
                    }
                    // read side
                    if w > 0 {
                        rtx.send(Bytes::from(d1.clone())).unwrap();
                    }
                    if w2 > 0 {
                        rtx.send(Bytes::from(d2.clone())).unwrap();
                    }
                    drop(rtx);
                    let mut back = vec![];
                    let mut buf = vec![0u8; r];
                    if exact {
                        // read_exact / read_buf: poll_read is handed a ReadBuf that already holds filled bytes whenever a
                        // chunk is shorter than what is still wanted
                        let mut left = want.len();
                        while left > 0 {
                            let k = r.min(left);
                            st.read_exact(&mut buf[..k]).await.map_err(|e| format!("read_exact({k}) with {left} of {} bytes outstanding: {e}", want.len()))?;
                            back.extend_from_slice(&buf[..k]);
                            left -= k;
                        }
                        let mut acc: Vec<u8> = Vec::with_capacity(16);
                        let n = st.read_buf(&mut acc).await.map_err(|e| e.to_string())?;
                        if n != 0 {
                            return Err(format!("AsyncRead: {n} surplus bytes after everything was read"));
                        }
                    } else {
                        loop {
                            let n = st.read(&mut buf).await.map_err(|e| e.to_string())?;
                            if n == 0 {
                                break;
                            }
                            back.extend_from_slice(&buf[..n]);
                        }
                    }
                    if back != want {
                        return Err(format!("AsyncRead: {} bytes read for {} delivered{}", back.len(), want.len(), if exact { " (read_exact)" } else { "" }));
                    }
                    Ok(())
                });
                if let Err(e) = res {
                    rep.violation("C01:stream-seam", &format!("{key}: {e}"), json!({"engine": "IX", "case": key}));
                }
              }
            }
        }
    }
}

/// Part C2: reads through the AsyncRead impl that are cancelled while they wait (select!, timeout, a poll that is not
/// followed up) and started again with another buffer size, chunks arriving in between.
fn stream_seam_cancelled_reads(rep: &mut Report) {
    use anytls_rs::session::StreamReader;
    use tokio::io::AsyncReadExt;
    let rt = tokio::runtime::Builder::new_current_thread().enable_time().build().unwrap();
    let sizes = [1usize, 16, 64, 8192];
    let chunks = [1usize, 16, 300, 5000];
    for c1 in chunks {
        for c2 in chunks {
            for a in sizes {
                for b in sizes {
                    for cancel_before_second in [false, true] {
                        let key = format!("seam-cancel chunks={c1},{c2} cancelled-read={a} later-reads={b} cancel-before-2nd={cancel_before_second}");
                        rep.case(Some(&key));
                        let res: Result<(), String> = rt.block_on(async {
                            let (tx, _rx) = tokio::sync::mpsc::unbounded_channel();
                            let (rtx, rrx) = tokio::sync::mpsc::unbounded_channel();
                            let (mut st, _s) = Stream::new(5, StreamReader::new(5, rrx), tx);
                            let d1 = pat_vec(9, 0, 0, c1);
                            let d2 = pat_vec(9, 0, c1, c2);
                            let mut want = d1.clone();
                            want.extend_from_slice(&d2);
                            let mut back: Vec<u8> = vec![];
                            // a read that has to wait is cancelled
                            {
                                let mut big = vec![0u8; a];
                                let mut fut = Box::pin(st.read(&mut big));
                                if let std::task::Poll::Ready(r) = poll_once(&mut fut).await {
                                    return Err(format!("a read on an empty open stream completed: {r:?}"));
                                }
                            }
                            rtx.send(Bytes::from(d1.clone())).unwrap();
                            let mut buf = vec![0u8; b];
                            while back.len() < c1 {
                                let n = tokio::time::timeout(Duration::from_secs(5), st.read(&mut buf)).await.map_err(|_| format!("read blocks with {} of {c1} delivered bytes outstanding", c1 - back.len()))?.map_err(|e| e.to_string())?;
                                if n == 0 {
                                    return Err(format!("end-of-stream after {} of {} bytes", back.len(), want.len()));
                                }
                                back.extend_from_slice(&buf[..n]);
                            }
                            if cancel_before_second {
                                let mut big = vec![0u8; a];
                                let mut fut = Box::pin(st.read(&mut big));
                                if let std::task::Poll::Ready(r) = poll_once(&mut fut).await {
                                    return Err(format!("a read completed although everything delivered had been read: {r:?}"));
                                }
                            }
                            rtx.send(Bytes::from(d2.clone())).unwrap();
                            drop(rtx);
                            loop {
                                let n = tokio::time::timeout(Duration::from_secs(5), st.read(&mut buf)).await.map_err(|_| "read blocks although the stream has ended".to_string())?.map_err(|e| e.to_string())?;
                                if n == 0 {
                                    break;
                                }
                                back.extend_from_slice(&buf[..n]);
                            }
                            if back != want {
                                let first = back.iter().zip(want.iter()).position(|(x, y)| x != y).unwrap_or(back.len().min(want.len()));
                                return Err(format!("{} bytes read for {} delivered (first difference at offset {first})", back.len(), want.len()));
                            }
                            Ok(())
                        });
                        if let Err(e) = res {
                            rep.violation("C01:stream-seam", &format!("{key}: {e}"), json!({"engine": "IX", "case": key}));
                        }
                    }
                }
            }
        }
    }
}

/// Tunnel through one of the two front-ends; `small_rcvbuf`: our side of the connection has a tiny receive buffer.
async fn open_tunnel(front: &str, proxy: std::net::SocketAddr, dest: std::net::SocketAddr, small_rcvbuf: bool) -> Result<tokio::net::TcpStream, String> {
    use tokio::io::{AsyncReadExt, AsyncWriteExt};
    let mut s = if small_rcvbuf { crate::lx::connect_small_rcvbuf(proxy).await? } else { tokio::net::TcpStream::connect(proxy).await.map_err(|e| e.to_string())? };
    if front == "socks5" {
        return crate::lx::socks5_connect_on(s, dest).await;
    }
    s.write_all(format!("CONNECT {dest} HTTP/1.1\r\nHost: {dest}\r\n\r\n").as_bytes()).await.map_err(|e| e.to_string())?;
    let mut acc = vec![];
    let mut b = [0u8; 1];
    while !acc.ends_with(b"\r\n\r\n") {
        match tokio::time::timeout(Duration::from_secs(5), s.read(&mut b)).await {
            Ok(Ok(1)) => acc.push(b[0]),
            _ => return Err(format!("CONNECT reply {:?}", String::from_utf8_lossy(&acc))),
        }
    }
    if !acc.starts_with(b"HTTP/1.1 200") {
        return Err(format!("CONNECT reply {:?}", String::from_utf8_lossy(&acc)));
    }
    Ok(s)
}

/// LX supplement: the real forwarding loops of socks5.rs, http_proxy.rs and handler.rs end to end
/// through TLS: N bytes to an echo target and back, on two concurrent connections with distinct
/// patterns (the second connection reuses the first one's session).
fn lx_part(rep: &mut Report, thorough: bool) {
    use crate::lx::*;
    use tokio::io::{AsyncReadExt, AsyncWriteExt};
    let rt = crate::semi::rt_multi();
    let sizes: Vec<usize> = if thorough { vec![1, 8191, 8192, 8193, 65_535, 65_536, 200_000, 1_000_000] } else { vec![1, 8192, 8193, 65_536, 200_000] };
    let r: Result<Vec<(String, Option<String>)>, String> = rt.block_on(async {
        let lx = start_lx("pw", "pw", pool_cfg(3600, 3600, 1), true, true).await?;
        let target = start_target("127.0.0.1", TargetMode::Echo, vec![]).await;
        let mut out = vec![];
        for front in ["socks5", "http-connect"] {
            for &n in &sizes {
                let mut hs = vec![];
                for conn in 0..3u8 {
                    // connection 2: the application half-closes its sending side once everything is written and keeps
                    // reading (request/response protocols do that); what the target still sends must arrive in full
                    let half_close = conn == 2;
                    if half_close && n < 8192 {
                        continue;
                    }
                    let proxy = if front == "socks5" { lx.socks.unwrap() } else { lx.http.unwrap() };
                    let taddr = target.addr;
                    hs.push(tokio::spawn(async move {
                        let s = if front == "socks5" {
                            socks5_connect(proxy, taddr).await
                        } else {
                            async {
                                let mut s = tokio::net::TcpStream::connect(proxy).await.map_err(|e| e.to_string())?;
                                s.write_all(format!("CONNECT {taddr} HTTP/1.1\r\nHost: {taddr}\r\n\r\n").as_bytes()).await.map_err(|e| e.to_string())?;
                                let mut acc = vec![];
                                let mut b = [0u8; 1];
                                while !acc.ends_with(b"\r\n\r\n") {
                                    match tokio::time::timeout(Duration::from_secs(5), s.read(&mut b)).await {
                                        Ok(Ok(1)) => acc.push(b[0]),
                                        _ => return Err(format!("CONNECT reply {:?}", String::from_utf8_lossy(&acc))),
                                    }
                                }
                                if !acc.starts_with(b"HTTP/1.1 200") {
                                    return Err(format!("CONNECT reply {:?}", String::from_utf8_lossy(&acc)));
                                }
                                Ok(s)
                            }
                            .await
                        };
                        let mut s = match s {
                            Ok(s) => s,
                            Err(e) => return Some(format!("cannot establish the tunnel: {e}")),
                        };
                        let data = pat_vec(40 + conn, 0, 0, n);
                        let (mut rd, mut wr) = s.split();
                        let d2 = data.clone();
                        let writer = async move {
                            let _ = wr.write_all(&d2).await;
                            let _ = wr.flush().await;
                            if half_close {
                                let _ = wr.shutdown().await;
                            }
                        };
                        let reader = async {
                            let mut got = Vec::with_capacity(n);
                            let mut buf = vec![0u8; 65536];
                            while got.len() < n {
                                match tokio::time::timeout(Duration::from_secs(10), rd.read(&mut buf)).await {
                                    Ok(Ok(k)) if k > 0 => got.extend_from_slice(&buf[..k]),
                                    _ => break,
                                }
                            }
                            got
                        };
                        let (_, got) = tokio::join!(writer, reader);
                        if got == data {
                            None
                        } else {
                            let first_bad = got.iter().zip(data.iter()).position(|(a, b)| a != b).unwrap_or(got.len().min(data.len()));
                            Some(format!("echo of {n} bytes came back as {} bytes, first difference at offset {first_bad}", got.len()))
                        }
                    }));
                }
                for (c, h) in hs.into_iter().enumerate() {
                    let r = h.await.unwrap_or_else(|e| Some(format!("task: {e}")));
                    out.push((format!("{front}, {n} bytes each way, connection {c} of 3 concurrent{}", if c == 2 { " (application half-closes after writing)" } else { "" }), r));
                }
            }
        }
        // ---- back-pressure: a slow consumer at either end (tiny receive buffer, starts reading after 400 ms) and
        //      more data than the kernel buffers absorb: the forwarding loops see partial and pending writes
        let big = if thorough { 24_000_000usize } else { 12_000_000usize };
        for front in ["socks5", "http-connect"] {
            // upload to a slow target
            let slow = start_target("127.0.0.1", TargetMode::SlowSink, vec![]).await;
            let proxy = if front == "socks5" { lx.socks.unwrap() } else { lx.http.unwrap() };
            let name = format!("{front}, upload of {big} bytes to a slow target");
            let res: Option<String> = async {
                let mut s = match open_tunnel(front, proxy, slow.addr, false).await {
                    Ok(s) => s,
                    Err(e) => return Some(format!("cannot establish the tunnel: {e}")),
                };
                let data = pat_vec(77, 0, 0, big);
                if tokio::time::timeout(Duration::from_secs(60), s.write_all(&data)).await.map(|r| r.is_err()).unwrap_or(true) {
                    return Some("the upload could not be written within 60 s".into());
                }
                let _ = s.flush().await;
                let got = slow.wait(0, 20_000, |t| t.received.len() >= big).await.map(|t| t.received).unwrap_or_default();
                if got == data {
                    None
                } else {
                    let first_bad = got.iter().zip(data.iter()).position(|(a, b)| a != b).unwrap_or(got.len().min(data.len()));
                    Some(format!("the target received {} of {big} bytes, first difference at offset {first_bad}", got.len()))
                }
            }
            .await;
            out.push((name, res));
            // download by a slow application
            let data = pat_vec(78, 1, 0, big);
            let source = start_target("127.0.0.1", TargetMode::SendAndHalfClose, data.clone()).await;
            let name = format!("{front}, download of {big} bytes by a slow application");
            let res: Option<String> = async {
                let mut s = match open_tunnel(front, proxy, source.addr, true).await {
                    Ok(s) => s,
                    Err(e) => return Some(format!("cannot establish the tunnel: {e}")),
                };
                tokio::time::sleep(Duration::from_millis(400)).await;
                let mut got = Vec::with_capacity(big);
                let mut buf = vec![0u8; 65536];
                while got.len() < big {
                    match tokio::time::timeout(Duration::from_secs(10), s.read(&mut buf)).await {
                        Ok(Ok(k)) if k > 0 => got.extend_from_slice(&buf[..k]),
                        _ => break,
                    }
                }
                if got == data {
                    None
                } else {
                    let first_bad = got.iter().zip(data.iter()).position(|(a, b)| a != b).unwrap_or(got.len().min(data.len()));
                    Some(format!("the application received {} of {big} bytes, first difference at offset {first_bad}", got.len()))
                }
            }
            .await;
            out.push((name, res));
        }
        Ok(out)
    });
    drop(rt);
    match r {
        Err(e) => rep.machinery(format!("LX: {e}")),
        Ok(v) => {
            for (name, r) in v {
                rep.case(Some(&name));
                rep.traces_validated += 1;
                if let Some(e) = r {
                    let k = if e.contains("cannot establish") { "C01:lx:tunnel-failed" } else { "C01:lx:bytes-not-identical" };
                    rep.violation(k, &format!("{name}: {e}"), json!({"engine": "LX", "case": name}));
                }
            }
        }
    }
}

pub fn run(tier: Tier) -> i32 {
    let mut rep = Report::new("C01", tier, "model_checking");
    rep.assumptions = vec![
        "vpipe environment (DESIGN 4.2)".into(),
        "payload byte i of stream s, direction d is a fixed function f(s,d,i); other contents are not explored".into(),
    ];
    stream_seam_sweep(&mut rep);
    stream_seam_cancelled_reads(&mut rep);
    lx_part(&mut rep, tier.is_thorough());
    let cap = Duration::from_secs(if tier.is_thorough() { 1500 } else { 90 });
    run_items(
        &mut rep,
        "C01",
        tier,
        items(tier),
        DxOpts { time_cap: cap, det_replays: 2, max_violations: 2, vacuity_check: false },
    );
    rep.finish("B=0 sweep: every sequence of <=2 (thorough: +3 over a reduced set) chunk sizes from {0,1,6,7,8,255,8191,8192,8193,65534,65535,65536,65537,70000,131072} x direction x path {write_data_frame, send_data} x 3 padding schemes x read-buffer sizes x pipe capacity; alignment sweep of chunk sizes in windows around 8192 / 16384 (the receive loop's block size); DX: concurrent flows on 1-2 streams with <= B yields / short reads / short or pending writes; IX at the hand-built Stream seam; non-trivial = distinct trace with >= 1 deviation (DX) or distinct seam case")
}

pub fn replay(file: &str) -> i32 {
    crate::dxrun::replay(file, items)
}
