//! C14 — the liveness monitor closes dead sessions and only dead sessions.
//! Exhaustive configuration grid under virtual time (+ DX on a subset).

use crate::ctl::{Outcome, ScenarioFn, scenario};
use crate::dxrun::{DxItem, DxOpts, run_items};
use crate::refmodel::*;
use crate::report::{Report, Tier};
use crate::sess::*;
use crate::vpipe::PipeCfg;
use anytls_rs::session::SessionHeartbeatConfig;
use bytes::Bytes;
use serde_json::json;
use std::sync::{Arc, Mutex};
use std::time::Duration;

#[derive(Clone, Copy, Debug, PartialEq)]
pub enum Silence {
    Never,
    /// the peer never answers anything
    FromStart,
    /// the peer receives request k (1-based) and does not answer it or any later one
    BeforeResponse(u32),
    /// the peer answers request k and nothing after it
    AfterResponse(u32),
    /// the peer answers request k, then black-holes: it neither answers nor READS any more (finite
    /// transport buffer, so an upload in progress stalls inside its write)
    BlackholeAfter(u32),
}

#[derive(Clone, Debug)]
pub struct Params {
    pub interval_ms: u64,
    pub timeout_ms: u64,
    /// one-way delay
    pub delay_ms: u64,
    pub silence: Silence,
    pub traffic: bool,
    /// the peer keeps sending frames of its own (stream data, keep-alive requests, padding) every I/4 whether or not it
    /// answers the client's keep-alive requests: only answers count as answers
    pub chatter: bool,
    /// the uplink is narrow (16 bytes in flight) and every packet carries 200 bytes of padding behind its payload:
    /// the keep-alive request reaches the peer (and is answered) while the monitor's write is still in progress
    pub padded_narrow_uplink: bool,
    /// (call index, flush?): that one write / flush call of the session's transport returns ErrorKind::Interrupted once.
    /// The session may be closed because of it (a transport error, not the monitor's verdict) — but a peer that falls
    /// silent must still be noticed: only the dead-session clauses are judged
    pub transport_fault: Option<(usize, bool)>,
    /// the largest value the command line accepts (u64::MAX seconds) instead of interval_ms / timeout_ms
    pub huge_interval: bool,
    pub huge_timeout: bool,
}

fn class(p: &Params) -> &'static str {
    if p.timeout_ms < p.interval_ms {
        "T<I"
    } else if p.timeout_ms == p.interval_ms {
        "T=I"
    } else {
        "T>I"
    }
}

pub fn make(p: Params) -> ScenarioFn {
    scenario(move || {
        let p = p.clone();
        async move {
            let mut out = Outcome::default();
            let t0 = tokio::time::Instant::now();
            let d = Duration::from_millis(p.delay_ms);
            let blackhole = matches!(p.silence, Silence::BlackholeAfter(_));
            let c2s_cfg = if blackhole { PipeCfg::new("c2s").latency(d).capacity(300) } else if p.padded_narrow_uplink { PipeCfg::new("c2s").latency(d).capacity(16) } else { PipeCfg::new("c2s").latency(d) };
            let mut link = peer_link(PipeCfg::new("s2c").latency(d), c2s_cfg);
            if let Some((k, flush)) = p.transport_fault {
                if flush { link.peer.out.set_flush_interrupt_call(k) } else { link.peer.out.set_write_interrupt_call(k) }
            }
            let hb = SessionHeartbeatConfig {
                interval: if p.huge_interval { Duration::from_secs(u64::MAX) } else { Duration::from_millis(p.interval_ms) },
                timeout: if p.huge_timeout { Duration::from_secs(u64::MAX) } else { Duration::from_millis(p.timeout_ms) },
            };
            let scheme_text = if p.padded_narrow_uplink {
                let mut t = String::from("stop=100000");
                for k in 0..=600 {
                    t.push_str(&format!("\n{k}=7-7,200-200"));
                }
                t
            } else {
                STOP0.to_string()
            };
            let sess = match start_client_session(link.sess_r, link.sess_w, padding(&scheme_text), Some(hb), 0).await {
                Ok(s) => s,
                Err(e) => {
                    out.viol("C14:start-failed", format!("{e}"));
                    return out;
                }
            };
            // the way client.rs uses a new session: first stream opened at once, buffering disabled
            let (st, synack_rx) = match sess.open_stream().await {
                Ok(x) => x,
                Err(e) => {
                    out.viol("C14:open-failed", format!("{e}"));
                    return out;
                }
            };
            sess.disable_buffering();
            if p.padded_narrow_uplink {
                // nobody reads yet (the scripted peer starts below): the first flush completes once it does
                let s0 = sess.clone();
                let id0 = st.id();
                tokio::spawn(async move {
                    let _ = s0.write_data_frame(id0, Bytes::from_static(&[1, 127, 0, 0, 1, 0, 80])).await;
                });
            } else {
                let _ = sess.write_data_frame(st.id(), Bytes::from_static(&[1, 127, 0, 0, 1, 0, 80])).await;
            }
            // scripted peer
            let last_answer_ms: Arc<Mutex<Option<u64>>> = Arc::new(Mutex::new(None));
            let la = last_answer_ms.clone();
            let req_count: Arc<Mutex<u32>> = Arc::new(Mutex::new(0));
            let rc = req_count.clone();
            let silence = p.silence;
            let delay = p.delay_ms;
            let chatter = p.chatter;
            let chat_every = Duration::from_millis((p.interval_ms / 4).max(1));
            let chat_stream = st.id();
            let peer_task = tokio::spawn(async move {
                let mut reqs = 0u32;
                let mut next_chat = tokio::time::Instant::now() + chat_every;
                let mut chat_n = 0u32;
                let mut opened = false;
                loop {
                    let f = if chatter {
                        tokio::select! {
                            biased;
                            f = link.peer.next_frame() => f,
                            _ = tokio::time::sleep_until(next_chat) => {
                                match chat_n % 3 {
                                    0 if opened => link.peer.send(PSH, chat_stream, b"chat"),
                                    1 => link.peer.send(HEART_REQ, 7, b""),
                                    _ => link.peer.send(WASTE, 0, &[0u8; 5]),
                                }
                                chat_n += 1;
                                next_chat += chat_every;
                                continue;
                            }
                        }
                    } else {
                        link.peer.next_frame().await
                    };
                    let Some(f) = f else {
                        link.peer.close_write();
                        break;
                    };
                    match f.cmd {
                        SETTINGS => link.peer.send(SERVER_SETTINGS, 0, b"v=2"),
                        PSH if f.data.len() == 7 && f.data[0] == 1 => {
                            opened = true;
                            link.peer.send(SYNACK, f.id, b"")
                        }
                        HEART_REQ => {
                            reqs += 1;
                            *rc.lock().unwrap() = reqs;
                            let answer = match silence {
                                Silence::Never => true,
                                Silence::FromStart => false,
                                Silence::BeforeResponse(k) => reqs < k,
                                Silence::AfterResponse(k) | Silence::BlackholeAfter(k) => reqs <= k,
                            };
                            if answer {
                                link.peer.send(HEART_RESP, f.id, b"");
                                // the answer reaches the client one delay later
                                *la.lock().unwrap() = Some(tokio::time::Instant::now().duration_since(t0).as_millis() as u64 + delay);
                            }
                            if let Silence::BlackholeAfter(k) = silence
                                && reqs >= k
                            {
                                // stop reading: keep the link object alive, consume nothing more
                                std::future::pending::<()>().await;
                            }
                        }
                        _ => {}
                    }
                }
                std::future::pending::<()>().await;
            });
            // waiters: a reader blocked on the stream
            let st2 = st.clone();
            let reader = tokio::spawn(async move {
                let r = st2.reader().clone();
                let mut buf = [0u8; 8];
                let mut g = r.lock().await;
                loop {
                    match g.read(&mut buf).await {
                        Ok(0) | Err(_) => return,
                        Ok(_) => {}
                    }
                }
            });
            let _ = synack_rx;
            // optional stream traffic: a chunk every I/3
            let traffic = if p.traffic {
                let s = sess.clone();
                let id = st.id();
                let every = Duration::from_millis((p.interval_ms / 3).max(1));
                Some(tokio::spawn(async move {
                    loop {
                        tokio::time::sleep(every).await;
                        let chunk = if blackhole { Bytes::from(vec![b'u'; 200]) } else { Bytes::from_static(b"tick") };
                        if s.write_data_frame(id, chunk).await.is_err() {
                            return;
                        }
                    }
                }))
            } else {
                None
            };
            // sample is_closed along virtual time
            let horizon_ms = if p.huge_interval || p.huge_timeout { 20_000 } else { 20 * p.interval_ms.max(p.timeout_ms) };
            let step = 50u64;
            let mut closed_at: Option<u64> = None;
            let mut t = 0u64;
            while t <= horizon_ms {
                if sess.is_closed() {
                    closed_at = Some(tokio::time::Instant::now().duration_since(t0).as_millis() as u64);
                    break;
                }
                tokio::time::sleep(Duration::from_millis(step)).await;
                t += step;
            }
            let healthy = p.silence == Silence::Never;
            if healthy && p.transport_fault.is_some() {
                // a session that ends because its transport reported an error was not closed by the monitor
                if let Some(t) = traffic {
                    t.abort();
                }
                peer_task.abort();
                let _ = sess.close().await;
                return out;
            }
            let la_ms = *last_answer_ms.lock().unwrap();
            out.obs = format!("closed_at={closed_at:?} last_answer={la_ms:?}");
            if p.huge_interval || p.huge_timeout {
                // extreme values: the monitor must keep running (no crash) and keep its period; a deadline that
                // lies beyond the horizon cannot be observed
                let n = *req_count.lock().unwrap();
                let want = if p.huge_interval { 1 } else { (horizon_ms / p.interval_ms) as u32 - 1 };
                if closed_at.is_none() && n < want {
                    out.viol("C14:monitor-stopped", format!("interval {}, timeout {}: the peer received {n} keep-alive request(s) in {horizon_ms} ms, at least {want} were due", if p.huge_interval { "u64::MAX s".to_string() } else { format!("{} ms", p.interval_ms) }, if p.huge_timeout { "u64::MAX s".to_string() } else { format!("{} ms", p.timeout_ms) }));
                }
                if healthy && let Some(c) = closed_at {
                    out.viol("C14:healthy-session-closed:extreme-values", format!("closed at {c} ms although the peer answers every request"));
                }
                if !healthy && !p.huge_timeout && p.silence == Silence::FromStart && closed_at.is_none() && !p.huge_interval {
                    out.viol("C14:dead-session-never-closed:extreme-values", "never closed".to_string());
                }
                if let Some(t) = traffic {
                    t.abort();
                }
                peer_task.abort();
                let _ = sess.close().await;
                return out;
            }
            if healthy {
                if let Some(c) = closed_at {
                    out.viol(
                        format!("C14:healthy-session-closed:{}", class(&p)),
                        format!("interval {} ms, timeout {} ms, round trip {} ms, peer answers every request: session closed by the monitor at {} ms", p.interval_ms, p.timeout_ms, 2 * p.delay_ms, c),
                    );
                }
            } else {
                let a = la_ms.unwrap_or(0);
                let deadline = a + p.timeout_ms + p.interval_ms + step + 10;
                match closed_at {
                    None => out.viol(
                        format!("C14:dead-session-never-closed:{}", class(&p)),
                        format!("interval {} ms, timeout {} ms, delay {} ms, {:?}: still open at {} ms (last answer at {} ms)", p.interval_ms, p.timeout_ms, p.delay_ms, p.silence, horizon_ms, a),
                    ),
                    Some(c) if c > deadline => out.viol(
                        format!("C14:dead-session-closed-late:{}", class(&p)),
                        format!("interval {} ms, timeout {} ms, delay {} ms, {:?}: closed at {} ms, last answer at {} ms, deadline {} ms", p.interval_ms, p.timeout_ms, p.delay_ms, p.silence, c, a, deadline),
                    ),
                    Some(c) => {
                        // a session whose peer answered in time must not be closed before the silence can be noticed
                        if c + step < a {
                            out.viol(format!("C14:closed-before-silence:{}", class(&p)), format!("closed at {c} ms although answers kept arriving until {a} ms"));
                        }
                    }
                }
                // waiters released
                if closed_at.is_some() {
                    if tokio::time::timeout(Duration::from_secs(3600), reader).await.is_err() {
                        out.viol("C14:waiters-not-released", "reader still blocked 1 h after the monitor closed the session");
                    }
                }
            }
            if let Some(t) = traffic {
                t.abort();
            }
            peer_task.abort();
            let _ = sess.close().await;
            out
        }
    })
}

pub fn params_json(p: &Params) -> serde_json::Value {
    json!({"interval_ms": p.interval_ms, "timeout_ms": p.timeout_ms, "one_way_delay_ms": p.delay_ms, "silence": format!("{:?}", p.silence), "traffic": p.traffic, "peer_chatter": p.chatter, "padded_narrow_uplink": p.padded_narrow_uplink, "interrupted_transport_call": p.transport_fault.map(|(k, fl)| format!("{} #{k}", if fl { "flush" } else { "write" })), "huge_interval": p.huge_interval, "huge_timeout": p.huge_timeout})
}

pub fn all_params(tier: Tier) -> Vec<(Params, usize)> {
    let thorough = tier.is_thorough();
    let intervals: Vec<u64> = if thorough { vec![1, 2, 3, 5, 7, 30] } else { vec![1, 2, 3, 5, 30] };
    let timeouts: Vec<u64> = if thorough { vec![1, 2, 3, 4, 5, 20, 60] } else { vec![1, 2, 3, 5, 20, 60] };
    let mut silences = vec![Silence::Never, Silence::FromStart];
    for k in 1..=3 {
        silences.push(Silence::BeforeResponse(k));
        silences.push(Silence::AfterResponse(k));
    }
    let mut v = vec![];
    // black-holing peers (stop answering AND reading) with an upload in progress, for T >= I
    for (i, t) in [(1u64, 1u64), (2, 3), (2, 5), (5, 20)] {
        for k in 1..=2u32 {
            // round trips: 2 ms, and (where the timeout allows) longer than one interval, so that the last answer is still
            // on its way when the next request's write stalls
            let mut delays = vec![1u64];
            for rtt in [i * 1000 + 400, 2 * i * 1000 + 400] {
                if rtt + 200 < t * 1000 {
                    delays.push(rtt / 2);
                }
            }
            for d in delays {
                v.push((Params { interval_ms: i * 1000, timeout_ms: t * 1000, delay_ms: d, silence: Silence::BlackholeAfter(k), traffic: true, chatter: false, padded_narrow_uplink: false, transport_fault: None, huge_interval: false, huge_timeout: false }, if thorough && d == 1 { 1 } else { 0 }));
            }
        }
    }
    // the largest values the command line accepts
    for (hi, ht) in [(false, true), (true, false), (true, true)] {
        for s in [Silence::Never, Silence::FromStart, Silence::AfterResponse(1)] {
            v.push((Params { interval_ms: 1000, timeout_ms: 1000, delay_ms: 1, silence: s, traffic: false, chatter: false, padded_narrow_uplink: false, transport_fault: None, huge_interval: hi, huge_timeout: ht }, 0));
        }
    }
    // a narrow, padded uplink: the request is answered while the monitor is still inside its write
    for (i, t) in [(3u64, 1u64), (2, 1), (5, 2), (1, 3), (2, 2)] {
        // (one-way delays of 0 and 1 ms only: a narrow pipe with latency is a slow link, and 16 bytes per 100 ms would
        // make the transmission time of one padded packet exceed the timeouts — outside "delay below the timeout")
        for d in [0u64, 1] {
            for s in [Silence::Never, Silence::AfterResponse(2), Silence::FromStart] {
                v.push((Params { interval_ms: i * 1000, timeout_ms: t * 1000, delay_ms: d, silence: s, traffic: false, chatter: false, padded_narrow_uplink: true, transport_fault: None, huge_interval: false, huge_timeout: false }, if thorough { 2 } else { 1 }));
            }
        }
    }
    // one transport call (the keep-alive write itself, the first flush, ...) returns Interrupted once; later the peer
    // falls silent: it must still be closed in time (or have been closed before)
    for (i, t) in [(1u64, 2u64), (2, 1), (2, 2)] {
        for s in [Silence::FromStart, Silence::AfterResponse(1), Silence::AfterResponse(3)] {
            for (flush, n) in [(false, 9usize), (true, 7)] {
                for k in 0..n {
                    v.push((Params { interval_ms: i * 1000, timeout_ms: t * 1000, delay_ms: 1, silence: s, traffic: false, chatter: false, padded_narrow_uplink: false, transport_fault: Some((k, flush)), huge_interval: false, huge_timeout: false }, 0));
                }
            }
        }
    }
    for i in &intervals {
        for t in &timeouts {
            let (i_ms, t_ms) = (i * 1000, t * 1000);
            // round trips 0, 2 ms, T/2, T - 2 ms  (one-way delay = half)
            let mut delays: Vec<u64> = vec![0, 1, t_ms / 4, t_ms / 2 - 1];
            // round trips around multiples of the interval (answers arriving just before / at / after a tick),
            // as long as they stay below the timeout
            for m in 1..=3u64 {
                for eps in [-2i64, 0, 2] {
                    let rtt = (m * i_ms) as i64 + eps;
                    if rtt > 0 && (rtt as u64) < t_ms {
                        delays.push(rtt as u64 / 2);
                    }
                }
            }
            delays.sort_unstable();
            delays.dedup();
            for d in delays {
                for s in &silences {
                    for traffic in [false, true] {
                        if traffic && !thorough && !(matches!(s, Silence::Never | Silence::AfterResponse(2))) {
                            continue;
                        }
                        // schedule deviations on a subset: small configurations
                        let bound = if *i <= 2 && *t <= 3 && d <= 1 && (thorough || !traffic) { 1 } else { 0 };
                        v.push((Params { interval_ms: i_ms, timeout_ms: t_ms, delay_ms: d, silence: *s, traffic, chatter: false, padded_narrow_uplink: false, transport_fault: None, huge_interval: false, huge_timeout: false }, bound));
                        // a peer that keeps talking (data, its own keep-alive requests, padding) without answering
                        if !traffic && (thorough || matches!(s, Silence::Never | Silence::FromStart | Silence::AfterResponse(1) | Silence::BeforeResponse(2))) {
                            v.push((Params { interval_ms: i_ms, timeout_ms: t_ms, delay_ms: d, silence: *s, traffic, chatter: true, padded_narrow_uplink: false, transport_fault: None, huge_interval: false, huge_timeout: false }, 0));
                        }
                    }
                }
            }
        }
    }
    v
}

pub fn items(tier: Tier) -> Vec<DxItem> {
    all_params(tier).into_iter().map(|(p, b)| DxItem::new(params_json(&p), make(p), b)).collect()
}

/// Client level (real time): the interval/timeout a user configures (pool check interval / idle timeout, which
/// client.rs hands to the session's liveness monitor) are the ones the monitor of a session created by the real
/// `Client` runs with. A scripted TLS server records the arrival times of keep-alive requests, answers them
/// until `silent_after_ms` and is silent afterwards.
async fn client_level_case(interval_s: u64, timeout_s: u64, silent_after_ms: u64) -> Result<serde_json::Value, String> {
    use tokio::io::{AsyncReadExt, AsyncWriteExt};
    let tls = anytls_rs::util::tls::create_server_config().map_err(|e| e.to_string())?;
    let acceptor = tokio_rustls::TlsAcceptor::from(tls);
    let l = tokio::net::TcpListener::bind("127.0.0.1:0").await.map_err(|e| e.to_string())?;
    let addr = l.local_addr().unwrap();
    let reqs: Arc<Mutex<Vec<u64>>> = Arc::new(Mutex::new(vec![]));
    let last_answer: Arc<Mutex<Option<u64>>> = Arc::new(Mutex::new(None));
    let t0 = std::time::Instant::now();
    let (rq, la) = (reqs.clone(), last_answer.clone());
    let srv = tokio::spawn(async move {
        let Ok((tcp, _)) = l.accept().await else { return };
        let Ok(mut s) = acceptor.accept(tcp).await else { return };
        let mut pre = [0u8; 34];
        if s.read_exact(&mut pre).await.is_err() {
            return;
        }
        let pad = u16::from_be_bytes([pre[32], pre[33]]) as usize;
        let mut skip = vec![0u8; pad];
        if s.read_exact(&mut skip).await.is_err() {
            return;
        }
        let mut buf: Vec<u8> = vec![];
        let mut tmp = [0u8; 4096];
        loop {
            let Ok(n) = s.read(&mut tmp).await else { return };
            if n == 0 {
                return;
            }
            buf.extend_from_slice(&tmp[..n]);
            let (frames, left) = parse_all(&buf);
            let consumed = buf.len() - left;
            buf.drain(..consumed);
            for f in frames {
                match f.cmd {
                    SETTINGS => {
                        let _ = s.write_all(&enc(SERVER_SETTINGS, 0, b"v=2")).await;
                    }
                    PSH => {
                        let _ = s.write_all(&enc(SYNACK, f.id, b"")).await;
                    }
                    HEART_REQ => {
                        let now = t0.elapsed().as_millis() as u64;
                        rq.lock().unwrap().push(now);
                        if now < silent_after_ms {
                            let _ = s.write_all(&enc(HEART_RESP, f.id, b"")).await;
                            *la.lock().unwrap() = Some(now);
                        }
                    }
                    _ => {}
                }
                let _ = s.flush().await;
            }
        }
    });
    let client = crate::lx::make_client("pw", addr, anytls_rs::padding::PaddingFactory::default(), crate::lx::pool_cfg(interval_s, timeout_s, 1));
    let (st, sess) = tokio::time::timeout(Duration::from_secs(8), client.create_proxy_stream(("example.test".to_string(), 80))).await.map_err(|_| "request timed out".to_string())?.map_err(|e| e.to_string())?;
    let horizon_ms = silent_after_ms + (timeout_s + 2 * interval_s) * 1000 + 1500;
    let mut closed_at: Option<u64> = None;
    while (t0.elapsed().as_millis() as u64) < horizon_ms {
        if sess.is_closed() {
            closed_at = Some(t0.elapsed().as_millis() as u64);
            break;
        }
        tokio::time::sleep(Duration::from_millis(20)).await;
    }
    drop(st);
    let _ = sess.close().await;
    client.stop_session_pool_cleanup().await;
    srv.abort();
    let r = reqs.lock().unwrap().clone();
    Ok(json!({"requests_ms": r, "last_answer_ms": *last_answer.lock().unwrap(), "closed_at_ms": closed_at, "horizon_ms": horizon_ms}))
}

fn client_level(rep: &mut Report, thorough: bool) {
    let cfgs: Vec<(u64, u64, u64)> = if thorough { vec![(1, 3, 2500), (2, 1, 4500), (1, 1, 2500), (3, 1, 3500)] } else { vec![(1, 3, 2500), (2, 1, 4500)] };
    let rt = crate::semi::rt_multi();
    let results: Vec<((u64, u64, u64), Result<serde_json::Value, String>)> = rt.block_on(async {
        let mut hs = vec![];
        for c in cfgs {
            hs.push((c, tokio::spawn(client_level_case(c.0, c.1, c.2))));
        }
        let mut out = vec![];
        for (c, h) in hs {
            out.push((c, h.await.unwrap_or_else(|e| Err(e.to_string()))));
        }
        out
    });
    drop(rt);
    for ((i, t, silent), r) in results {
        let name = format!("client level: check interval {i} s, idle timeout {t} s, server silent after {silent} ms");
        rep.case(Some(&name));
        let replay = json!({"engine": "LX", "interval_s": i, "timeout_s": t, "silent_after_ms": silent});
        let v = match r {
            Ok(v) => v,
            Err(e) => {
                rep.machinery(format!("{name}: {e}"));
                continue;
            }
        };
        rep.sample(json!({"case": name, "observed": v}));
        let reqs: Vec<u64> = v["requests_ms"].as_array().map(|a| a.iter().filter_map(|x| x.as_u64()).collect()).unwrap_or_default();
        // spacing of the keep-alive requests = the configured interval (generous tolerance: a loaded machine delays, it does not halve)
        let gaps: Vec<u64> = reqs.windows(2).map(|w| w[1] - w[0]).collect();
        let want = i * 1000;
        // judged on the mean gap: a loaded machine shifts single arrivals, it does not change the period
        let mean = if gaps.is_empty() { 0 } else { (reqs[reqs.len() - 1] - reqs[0]) / gaps.len() as u64 };
        if gaps.is_empty() || mean + 400 < want || mean > want + 800 {
            rep.violation("C14:monitor-does-not-run-with-the-configured-interval", &format!("{name}: keep-alive requests reached the server at {:?} ms (gaps {:?}); the configured interval is {want} ms", reqs, gaps), replay.clone());
            continue;
        }
        let Some(la) = v["last_answer_ms"].as_u64() else {
            rep.violation("C14:monitor-does-not-run-with-the-configured-interval", &format!("{name}: no keep-alive request was answered: {v}"), replay.clone());
            continue;
        };
        match v["closed_at_ms"].as_u64() {
            None => rep.violation(&format!("C14:dead-session-never-closed:{}", if t < i { "T<I" } else if t == i { "T=I" } else { "T>I" }), &format!("{name}: session created by the real Client still open at {} ms, last answer at {la} ms", v["horizon_ms"]), replay),
            Some(c) => {
                // closed no earlier than one timeout after the last answered request (minus tolerance) and within timeout + interval
                if c + 600 < la + t * 1000 {
                    rep.violation("C14:monitor-does-not-run-with-the-configured-timeout", &format!("{name}: closed at {c} ms, only {} ms after the last answer (at {la} ms); the configured timeout is {} ms", c - la.min(c), t * 1000), replay);
                } else if c > la + (t + i) * 1000 + 2500 {
                    rep.violation("C14:monitor-does-not-run-with-the-configured-timeout", &format!("{name}: closed at {c} ms, {} ms after the last answer (at {la} ms); timeout + interval is {} ms", c - la, (t + i) * 1000), replay);
                }
            }
        }
    }
}

pub fn run(tier: Tier) -> i32 {
    let mut rep = Report::new("C14", tier, "model_checking");
    rep.assumptions = vec![
        "the peer is scripted: it answers a keep-alive request immediately (the network delay is the pipe latency) until it falls silent".into(),
        "'answers in time' = round trip < timeout; 'last answer' = instant the last answer reaches the client; sampling step 50 ms".into(),
        "interval/timeout are whole seconds as the command line accepts them (any positive integers; u64::MAX seconds is covered by dedicated cases)".into(),
    ];
    let cap = Duration::from_secs(if tier.is_thorough() { 1200 } else { 60 });
    run_items(&mut rep, "C14", tier, items(tier), DxOpts { time_cap: cap, det_replays: 1, max_violations: 2, vacuity_check: false });
    client_level(&mut rep, tier.is_thorough());
    rep.finish("grid: interval x timeout (incl. T<I, T=I) x round trip {0, 2 ms, T/2, T-2 ms} x silence instant {never, from start, before/after response k=1..3} x {idle, stream traffic every I/3} on a real client session under virtual time, is_closed sampled every 50 ms up to 20*max(I,T); DX (<=1 deviation) on the small configurations; client level (real time): sessions created by the real Client with 2 (4) interval/timeout pairs against a scripted TLS server that falls silent — request spacing = interval, close between timeout and timeout + interval after the last answer; non-trivial = distinct trace with >= 1 deviation")
}

pub fn replay(file: &str) -> i32 {
    crate::dxrun::replay(file, items)
}
