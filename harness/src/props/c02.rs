//! C02 — streams sharing a session never see each other's bytes.
//! BX on the receive side (non-interference by projection), DX on the send side.

use crate::ctl::{ExecCfg, Outcome, ScenarioFn, hpoint, run_exec, scenario, settle};
use crate::dxrun::{DxItem, DxOpts, run_items};
use crate::refmodel::*;
use crate::report::{Report, Tier};
use crate::sess::*;
use crate::vpipe::PipeCfg;
use anytls_rs::session::Stream;
use bytes::Bytes;
use serde_json::json;
use std::collections::{BTreeMap, HashMap};
use std::sync::{Arc, Mutex};
use std::time::Duration;

// ------------------------------------------------------------------ BX part

/// One inbound frame of the alphabet.
#[derive(Clone, Copy, Debug, PartialEq, Eq, Hash, PartialOrd, Ord)]
pub enum Sym {
    Syn(u32),
    Psh(u32),
    Fin(u32),
    SynAck(u32),
    /// a verdict that carries a failure reason (the target refused)
    SynAckErr(u32),
    /// local operation: the user of the stream closes it (close_with_error) while no read is in progress
    Close(u32),
    /// local operation (server role): the task that accepts new streams has ended — the new-stream callback's channel is
    /// closed; later SYNs cannot be handed out, the streams that exist are not concerned
    CallbackGone,
}

impl Sym {
    fn id(&self) -> u32 {
        match self {
            Sym::Syn(i) | Sym::Psh(i) | Sym::Fin(i) | Sym::SynAck(i) | Sym::SynAckErr(i) | Sym::Close(i) => *i,
            Sym::CallbackGone => 0,
        }
    }
    fn short(&self) -> String {
        match self {
            Sym::Syn(i) => format!("SYN{i}"),
            Sym::Psh(i) => format!("PSH{i}"),
            Sym::Fin(i) => format!("FIN{i}"),
            Sym::SynAck(i) => format!("SYNACK{i}"),
            Sym::SynAckErr(i) => format!("SYNACK-error{i}"),
            Sym::Close(i) => format!("close{i}"),
            Sym::CallbackGone => "callback-gone".to_string(),
        }
    }
}

fn hist_str(h: &[Sym]) -> String {
    h.iter().map(|s| s.short()).collect::<Vec<_>>().join(",")
}

/// What one stream object handed out by the session observed.
#[derive(Clone, Debug, PartialEq, Eq, Default)]
pub struct StreamObs {
    bytes: Vec<u8>,
    eof: bool,
    synack: Option<bool>,
}

/// Observation of a whole run: per stream id, the incarnations in order of creation.
type RunObs = BTreeMap<u32, Vec<StreamObs>>;

async fn drain_stream(st: &Arc<Stream>) -> (Vec<u8>, bool) {
    let mut out = vec![];
    let reader = st.reader().clone();
    loop {
        let mut buf = [0u8; 64];
        let r = {
            let mut g = reader.lock().await;
            tokio::time::timeout(Duration::from_secs(2), g.read(&mut buf)).await
        };
        match r {
            Err(_) => return (out, false),
            Ok(Ok(0)) | Ok(Err(_)) => return (out, true),
            Ok(Ok(n)) => out.extend_from_slice(&buf[..n]),
        }
    }
}

/// Payload of the k-th PSH for stream `id`: every byte carries the id tag.
fn payload(id: u32, k: usize) -> Vec<u8> {
    vec![(id as u8) << 4 | (k as u8 & 0x0f); 3]
}

fn server_scenario(h: Vec<Sym>, out_slot: Arc<Mutex<Option<RunObs>>>) -> ScenarioFn {
    scenario(move || {
        let h = h.clone();
        let out_slot = out_slot.clone();
        async move {
            let mut out = Outcome::default();
            let link = peer_link(PipeCfg::new("c2s"), PipeCfg::new("s2c"));
            let mut side = start_server_session(link.sess_r, link.sess_w, padding(STOP0), None);
            let peer = link.peer;
            peer.send(SETTINGS, 0, &client_settings("x"));
            settle().await;
            let mut obs: RunObs = BTreeMap::new();
            let mut live: Vec<(u32, Arc<Stream>)> = vec![];
            let mut counts: HashMap<u32, usize> = HashMap::new();
            for s in &h {
                match s {
                    Sym::Syn(i) => peer.send(SYN, *i, b""),
                    Sym::Psh(i) => {
                        let k = counts.entry(*i).or_default();
                        peer.send(PSH, *i, &payload(*i, *k));
                        *k += 1;
                    }
                    Sym::Fin(i) => peer.send(FIN, *i, b""),
                    Sym::SynAck(i) => peer.send(SYNACK, *i, b""),
                    Sym::SynAckErr(i) => peer.send(SYNACK, *i, b"connect to target failed: connection refused"),
                    Sym::Close(i) => {
                        for (id, st) in &live {
                            if id == i {
                                st.close_with_error(anytls_rs::AnyTlsError::Protocol("closed by the local user".into())).await;
                            }
                        }
                    }
                    Sym::CallbackGone => {
                        // streams accepted so far are taken over first
                        while let Ok(st) = side.streams.try_recv() {
                            live.push((st.id(), st));
                        }
                        side.streams.close();
                    }
                }
                settle().await;
                while let Ok(st) = side.streams.try_recv() {
                    live.push((st.id(), st));
                }
            }
            tokio::time::sleep(Duration::from_secs(1)).await;
            while let Ok(st) = side.streams.try_recv() {
                live.push((st.id(), st));
            }
            for (id, st) in &live {
                let (bytes, eof) = drain_stream(st).await;
                obs.entry(*id).or_default().push(StreamObs { bytes, eof, synack: None });
            }
            if side.sess.is_closed() {
                out.viol("C02:session-died", format!("history {} closed the session", hist_str(&h)));
            }
            out.obs = format!("{:?}", obs);
            *out_slot.lock().unwrap() = Some(obs);
            drop(peer);
            out
        }
    })
}

fn client_scenario(h: Vec<Sym>, out_slot: Arc<Mutex<Option<RunObs>>>) -> ScenarioFn {
    scenario(move || {
        let h = h.clone();
        let out_slot = out_slot.clone();
        async move {
            let mut out = Outcome::default();
            let link = peer_link(PipeCfg::new("s2c"), PipeCfg::new("c2s"));
            let sess = match start_client_session(link.sess_r, link.sess_w, padding(STOP0), None, 0).await {
                Ok(s) => s,
                Err(e) => {
                    out.viol("C02:start-failed", format!("{e}"));
                    return out;
                }
            };
            let peer = link.peer;
            // the client has streams 1 and 2 open; id 3 was never opened
            let mut live = vec![];
            for _ in 0..2 {
                match sess.open_stream().await {
                    Ok((st, rx)) => live.push((st.id(), st, rx)),
                    Err(e) => {
                        out.viol("C02:open-failed", format!("{e}"));
                        return out;
                    }
                }
            }
            sess.disable_buffering();
            let _ = sess.write_data_frame(1, Bytes::from_static(b"d")).await;
            peer.send(SERVER_SETTINGS, 0, b"v=2");
            settle().await;
            let mut counts: HashMap<u32, usize> = HashMap::new();
            for s in &h {
                match s {
                    Sym::Syn(i) => peer.send(SYN, *i, b""),
                    Sym::Psh(i) => {
                        let k = counts.entry(*i).or_default();
                        peer.send(PSH, *i, &payload(*i, *k));
                        *k += 1;
                    }
                    Sym::Fin(i) => peer.send(FIN, *i, b""),
                    Sym::SynAck(i) => peer.send(SYNACK, *i, b""),
                    Sym::SynAckErr(i) => peer.send(SYNACK, *i, b"connect to target failed: connection refused"),
                    Sym::Close(i) => {
                        for (id, st, _) in &live {
                            if id == i {
                                st.close_with_error(anytls_rs::AnyTlsError::Protocol("closed by the local user".into())).await;
                            }
                        }
                    }
                    Sym::CallbackGone => {}
                }
                settle().await;
            }
            tokio::time::sleep(Duration::from_secs(1)).await;
            let mut obs: RunObs = BTreeMap::new();
            for (id, st, mut rx) in live {
                let (bytes, eof) = drain_stream(&st).await;
                let synack = match rx.try_recv() {
                    Ok(Ok(())) => Some(true),
                    Ok(Err(_)) => Some(false),
                    Err(_) => None,
                };
                obs.entry(id).or_default().push(StreamObs { bytes, eof, synack });
            }
            if sess.is_closed() {
                out.viol("C02:session-died", format!("history {} closed the session", hist_str(&h)));
            }
            out.obs = format!("{:?}", obs);
            *out_slot.lock().unwrap() = Some(obs);
            drop(peer);
            out
        }
    })
}

fn run_history(server: bool, h: &[Sym]) -> Result<RunObs, String> {
    let slot = Arc::new(Mutex::new(None));
    let sc = if server { server_scenario(h.to_vec(), slot.clone()) } else { client_scenario(h.to_vec(), slot.clone()) };
    let rec = run_exec(&sc, &ExecCfg::default(), &[], 0);
    if let Some(v) = rec.outcome.violations.first() {
        return Err(format!("{}: {}", v.key, v.detail));
    }
    slot.lock().unwrap().take().ok_or_else(|| "no observation".to_string())
}

fn bx(rep: &mut Report, tier: Tier) {
    let depth = if tier.is_thorough() { 6 } else { 5 };
    for server in [true, false] {
        let alphabet: Vec<Sym> = if server {
            vec![Sym::Syn(1), Sym::Syn(2), Sym::Psh(1), Sym::Psh(2), Sym::Psh(3), Sym::Fin(1), Sym::Fin(2), Sym::Fin(3)]
        } else {
            vec![Sym::Psh(1), Sym::Psh(2), Sym::Psh(3), Sym::Fin(1), Sym::Fin(2), Sym::Fin(3), Sym::SynAck(1), Sym::SynAck(2), Sym::SynAck(3), Sym::SynAckErr(1), Sym::Syn(1)]
        };
        let depth = if server { depth } else { depth - 1 };
        // local operations (at most one per history; histories containing one are explored one level less deep on the server)
        let local: Vec<Sym> = if server { vec![Sym::Close(1), Sym::Close(2), Sym::CallbackGone] } else { vec![Sym::Close(1), Sym::Close(2)] };
        let local_depth = if server { depth - 1 } else { depth };
        // all histories up to depth
        let mut hists: Vec<Vec<Sym>> = vec![vec![]];
        let mut frontier: Vec<Vec<Sym>> = vec![vec![]];
        for _ in 0..depth {
            let mut next = vec![];
            for h in &frontier {
                let has_local = h.iter().any(|x| matches!(x, Sym::Close(_) | Sym::CallbackGone));
                if has_local && h.len() >= local_depth {
                    continue;
                }
                for a in &alphabet {
                    let mut n = h.clone();
                    n.push(*a);
                    next.push(n);
                }
                if !has_local && h.len() < local_depth {
                    for a in &local {
                        let mut n = h.clone();
                        n.push(*a);
                        next.push(n);
                    }
                }
            }
            hists.extend(next.iter().cloned());
            frontier = next;
        }
        // run in parallel
        let hists = Arc::new(hists);
        let results: Arc<Mutex<Vec<Option<Result<RunObs, String>>>>> = Arc::new(Mutex::new(vec![None; hists.len()]));
        let next = Arc::new(std::sync::atomic::AtomicUsize::new(0));
        let mut ths = vec![];
        for _ in 0..16 {
            let hists = hists.clone();
            let results = results.clone();
            let next = next.clone();
            ths.push(std::thread::spawn(move || {
                loop {
                    let i = next.fetch_add(1, std::sync::atomic::Ordering::SeqCst);
                    if i >= hists.len() {
                        return;
                    }
                    let r = run_history(server, &hists[i]);
                    results.lock().unwrap()[i] = Some(r);
                }
            }));
        }
        for t in ths {
            let _ = t.join();
        }
        let results = results.lock().unwrap();
        let index: HashMap<&Vec<Sym>, usize> = hists.iter().enumerate().map(|(i, h)| (h, i)).collect();
        let role = if server { "server" } else { "client" };
        let mut distinct_obs = std::collections::HashSet::new();
        for (i, h) in hists.iter().enumerate() {
            rep.states += 1;
            rep.transitions += h.len() as u64;
            rep.traces_validated += 1;
            let key = format!("{role}:{}", hist_str(h));
            let nontrivial = h.iter().map(|s| s.id()).collect::<std::collections::BTreeSet<_>>().len() >= 2;
            rep.case(if nontrivial { Some(&key) } else { None });
            let full = match results[i].as_ref().unwrap() {
                Ok(o) => o,
                Err(e) => {
                    rep.violation("C02:session-died", &format!("{role} history [{}]: {e}", hist_str(h)), json!({"engine": "BX", "role": role, "history": hist_str(h)}));
                    continue;
                }
            };
            distinct_obs.insert(format!("{:?}", full));
            if i % 4099 == 7 {
                rep.sample(json!({"role": role, "history": hist_str(h), "observed": format!("{:?}", full)}));
            }
            // cross-talk: every byte carries its own stream's tag
            for (id, incs) in full {
                for inc in incs {
                    if inc.bytes.iter().any(|b| (b >> 4) as u32 != *id) {
                        rep.violation("C02:foreign-bytes", &format!("{role} history [{}]: stream {id} read bytes {:?} that were sent on another stream", hist_str(h), inc.bytes), json!({"engine": "BX", "role": role, "history": hist_str(h)}));
                    }
                }
            }
            // streams that must not exist: ids never opened
            if server {
                for id in full.keys() {
                    if !h.contains(&Sym::Syn(*id)) {
                        rep.violation("C02:stream-from-nowhere", &format!("{role} history [{}]: a stream {id} was handed out without a SYN for it", hist_str(h)), json!({"engine": "BX", "role": role, "history": hist_str(h)}));
                    }
                }
            }
            // non-interference: stream s observes exactly what it observes in the history projected to its own frames
            for s in [1u32, 2, 3] {
                let proj: Vec<Sym> = h.iter().filter(|x| x.id() == s || x.id() == 0).cloned().collect();
                if proj.len() == h.len() {
                    continue;
                }
                let Some(pi) = index.get(&proj) else { continue };
                let Ok(pobs) = results[*pi].as_ref().unwrap() else { continue };
                let a = full.get(&s).cloned().unwrap_or_default();
                let b = pobs.get(&s).cloned().unwrap_or_default();
                if a != b {
                    let key = if a.iter().map(|x| x.bytes.len()).sum::<usize>() < b.iter().map(|x| x.bytes.len()).sum::<usize>() {
                        "C02:bytes-disappeared"
                    } else if a.iter().map(|x| x.bytes.len()).sum::<usize>() > b.iter().map(|x| x.bytes.len()).sum::<usize>() {
                        "C02:bytes-appeared"
                    } else {
                        "C02:stream-disturbed"
                    };
                    rep.violation(key, &format!("{role} history [{}]: stream {s} observed {:?}, but {:?} when only its own frames [{}] are delivered", hist_str(h), a, b, hist_str(&proj)), json!({"engine": "BX", "role": role, "history": hist_str(h), "projection": hist_str(&proj)}));
                }
            }
            // sanity on the projection base cases: data after SYN and before FIN is delivered in order
            if server && h.iter().all(|x| x.id() == 1) && !h.iter().any(|x| matches!(x, Sym::Close(_) | Sym::CallbackGone)) {
                let exp = model_single(h);
                let a = full.get(&1).cloned().unwrap_or_default();
                if a != exp {
                    rep.violation("C02:single-stream-model", &format!("{role} history [{}]: stream 1 observed {:?}, reference model says {:?}", hist_str(h), a, exp), json!({"engine": "BX", "role": role, "history": hist_str(h)}));
                }
            }
        }
        rep.sections.insert(format!("bx_{role}"), json!({"histories": hists.len(), "depth": depth, "alphabet": alphabet.iter().map(|s| s.short()).collect::<Vec<_>>(), "distinct_observations": distinct_obs.len()}));
        if distinct_obs.len() < 10 {
            rep.machinery(format!("vacuous BX ({role}): only {} distinct observations", distinct_obs.len()));
        }
    }
}

/// Reference model for histories that only touch stream 1 (server role):
/// SYN opens a new incarnation (ending the previous one), PSH delivers to the
/// current one if open, FIN ends it.
fn model_single(h: &[Sym]) -> Vec<StreamObs> {
    let mut incs: Vec<StreamObs> = vec![];
    let mut open = false;
    let mut k = 0usize;
    for s in h {
        match s {
            Sym::Syn(_) => {
                if let Some(l) = incs.last_mut()
                    && open
                {
                    l.eof = true;
                }
                incs.push(StreamObs::default());
                open = true;
            }
            Sym::Psh(_) => {
                if open {
                    incs.last_mut().unwrap().bytes.extend_from_slice(&payload(1, k));
                }
                k += 1;
            }
            Sym::Fin(_) => {
                if open {
                    incs.last_mut().unwrap().eof = true;
                    open = false;
                }
            }
            Sym::SynAck(_) | Sym::SynAckErr(_) | Sym::Close(_) | Sym::CallbackGone => {}
        }
    }
    incs
}

// ------------------------------------------------------------------ DX part

#[derive(Clone, Debug)]
pub struct SendParams {
    pub writers: usize,
    pub forward: bool,
    pub up: bool,
    pub scheme: &'static str,
    pub scheme_name: &'static str,
}

pub fn make_send(p: SendParams) -> ScenarioFn {
    scenario(move || {
        let p = p.clone();
        async move {
            let mut out = Outcome::default();
            let mut pair = match linked_pair(PipeCfg::new("c2s").menus(true, false), PipeCfg::new("s2c").menus(true, false), p.scheme, p.scheme, None).await {
                Ok(x) => x,
                Err(e) => {
                    out.viol("C02:start-failed", format!("{e}"));
                    return out;
                }
            };
            // concurrent opens: ids must be distinct
            let ids: Arc<Mutex<Vec<(usize, Arc<Stream>)>>> = Arc::new(Mutex::new(vec![]));
            let mut hs = vec![];
            for t in 0..p.writers {
                let c = pair.client.clone();
                let ids = ids.clone();
                hs.push(tokio::spawn(async move {
                    hpoint("h.c02.open").await;
                    if let Some(Ok((st, _rx))) = within(c.open_stream()).await {
                        c.disable_buffering();
                        let tag = vec![0xA0u8 + t as u8; 2];
                        let _ = within(c.write_data_frame(st.id(), Bytes::from(tag))).await;
                        ids.lock().unwrap().push((t, st));
                    }
                }));
            }
            for h in hs {
                let _ = h.await;
            }
            let opened = ids.lock().unwrap().clone();
            if opened.len() != p.writers {
                out.viol("C02:open-failed", format!("{} of {} opens succeeded", opened.len(), p.writers));
                return out;
            }
            let mut idset: Vec<u32> = opened.iter().map(|(_, s)| s.id()).collect();
            idset.sort();
            idset.dedup();
            if idset.len() != p.writers {
                out.viol("C02:duplicate-stream-id", format!("concurrent opens returned ids {:?}", opened.iter().map(|(_, s)| s.id()).collect::<Vec<_>>()));
            }
            // server side: accept all, map id -> stream
            let mut sstreams: HashMap<u32, Arc<Stream>> = HashMap::new();
            for _ in 0..p.writers {
                match within(pair.accepted.recv()).await {
                    Some(Some(st)) => {
                        sstreams.insert(st.id(), st);
                    }
                    _ => {
                        out.viol("C02:stream-missing", "server did not accept every opened stream");
                        return out;
                    }
                }
            }
            // writers: each writes 2 chunks whose every byte is its tag
            let mut ws = vec![];
            for (t, cst) in &opened {
                let id = cst.id();
                let (sess, st) = if p.up { (pair.client.clone(), cst.clone()) } else { (pair.server.clone(), sstreams[&id].clone()) };
                let fw = p.forward;
                let t = *t;
                ws.push(tokio::spawn(async move {
                    for k in 0..2usize {
                        let d = Bytes::from(vec![0x10u8 * (t as u8 + 1) + k as u8; 3 + t]);
                        if fw {
                            let _ = st.send_data(d);
                        } else {
                            let _ = within(sess.write_data_frame(st.id(), d)).await;
                        }
                    }
                }));
            }
            for w in ws {
                let _ = w.await;
            }
            tokio::time::sleep(Duration::from_secs(5)).await;
            // readers at the other end
            let mut obs = vec![];
            for (t, cst) in &opened {
                let id = cst.id();
                let rst = if p.up { sstreams[&id].clone() } else { cst.clone() };
                let (bytes, eof) = drain_stream(&rst).await;
                let mut want = vec![];
                if p.up {
                    want.extend_from_slice(&vec![0xA0u8 + *t as u8; 2]);
                }
                for k in 0..2usize {
                    want.extend_from_slice(&vec![0x10u8 * (*t as u8 + 1) + k as u8; 3 + *t]);
                }
                obs.push(format!("t{t}/id{id}:{}B eof={eof}", bytes.len()));
                if bytes != want {
                    let foreign = bytes.iter().any(|b| !want.contains(b));
                    out.viol(
                        if foreign { "C02:foreign-bytes" } else if bytes.len() < want.len() { "C02:bytes-disappeared" } else { "C02:stream-disturbed" },
                        format!("writer {t} (stream {id}): peer read {:02x?}, submitted {:02x?}", bytes, want),
                    );
                }
                if eof {
                    out.viol("C02:stream-ended", format!("stream {id} reached end-of-stream although nobody ended it"));
                }
            }
            // wire: every PSH frame's id owns the tag in its payload
            let wire = if p.up { pair.c2s.written() } else { pair.s2c.written() };
            let (frames, left) = parse_all(&wire);
            if left != 0 {
                out.viol("C02:wire-garbled", format!("{left} trailing bytes"));
            }
            for f in frames.iter().filter(|f| f.cmd == PSH) {
                let owner = opened.iter().find(|(_, s)| s.id() == f.id);
                match owner {
                    None => out.viol("C02:frame-for-unknown-stream", format!("PSH for id {} which no writer owns", f.id)),
                    Some((t, _)) => {
                        let ok = f.data.iter().all(|b| *b == 0xA0 + *t as u8 || (*b & 0xf0) == 0x10 * (*t as u8 + 1));
                        if !ok {
                            out.viol("C02:frame-carries-foreign-tag", format!("PSH id {} carries {:02x?}, its owner is writer {t}", f.id, f.data));
                        }
                    }
                }
            }
            out.obs = obs.join(" ");
            out
        }
    })
}

/// Inbound frames for *other* ids arrive while a local open is in flight.
#[derive(Clone, Debug)]
pub struct OpenRaceParams {
    /// frames the peer sends while the open runs: (cmd, id)
    pub noise: Vec<(u8, u32)>,
}

pub fn make_open_race(p: OpenRaceParams) -> ScenarioFn {
    scenario(move || {
        let p = p.clone();
        async move {
            let mut out = Outcome::default();
            let link = peer_link(PipeCfg::new("s2c"), PipeCfg::new("c2s"));
            let sess = match start_client_session(link.sess_r, link.sess_w, padding(STOP0), None, 0).await {
                Ok(s) => s,
                Err(e) => {
                    out.viol("C02:start-failed", format!("{e}"));
                    return out;
                }
            };
            let peer = link.peer;
            // pre-state: stream 1 is open and has received data
            let (s1, _rx1) = match sess.open_stream().await {
                Ok(x) => x,
                Err(e) => {
                    out.viol("C02:open-failed", format!("{e}"));
                    return out;
                }
            };
            sess.disable_buffering();
            let _ = sess.write_data_frame(s1.id(), Bytes::from_static(b"d")).await;
            peer.send(SERVER_SETTINGS, 0, b"v=2");
            peer.send(PSH, 1, &[0x11; 3]);
            settle().await;
            // the race: an open in flight, noise frames arriving
            let c = sess.clone();
            let opener = tokio::spawn(async move {
                hpoint("h.c02.race.open").await;
                within(c.open_stream()).await
            });
            for (cmd, id) in &p.noise {
                peer.send(*cmd, *id, if *cmd == PSH { &[0x33; 2] } else { b"" });
            }
            let (s2, _rx2) = match opener.await {
                Ok(Some(Ok(x))) => x,
                other => {
                    out.viol("C02:open-failed", format!("racing open: {:?}", other.map(|o| o.map(|r| r.map(|_| ()).map_err(|e| e.to_string())))));
                    return out;
                }
            };
            settle().await;
            // now the peer talks on the new stream and once more on the old one
            peer.send(PSH, s2.id(), &[0x22; 4]);
            let fin1 = p.noise.contains(&(FIN, 1));
            if !fin1 {
                peer.send(PSH, 1, &[0x11; 2]);
            }
            tokio::time::sleep(Duration::from_secs(1)).await;
            let (b2, eof2) = drain_stream(&s2).await;
            let (b1, eof1) = drain_stream(&s1).await;
            out.obs = format!("s1={}B eof={} s2={}B eof={}", b1.len(), eof1, b2.len(), eof2);
            if b2 != vec![0x22; 4] || eof2 {
                out.viol(
                    if b2.len() < 4 { "C02:bytes-disappeared" } else { "C02:stream-disturbed" },
                    format!("stream {} (opened while frames {:?} for other ids arrived) read {:02x?} eof={eof2}; the peer sent 4 bytes 0x22 and no FIN for it", s2.id(), p.noise, b2),
                );
            }
            let want1 = if fin1 { vec![0x11; 3] } else { vec![0x11; 5] };
            if b1 != want1 || eof1 != fin1 {
                out.viol("C02:stream-disturbed", format!("stream 1 read {:02x?} eof={eof1}, expected {:02x?} eof={fin1} (noise {:?})", b1, want1, p.noise));
            }
            if sess.is_closed() {
                out.viol("C02:session-died", "session closed");
            }
            drop(peer);
            out
        }
    })
}

/// Server side: SYN + data for a NEW stream arrive in one transport read while the handler of an OLDER stream (which
/// the peer may already have finished) is still sending — through the forwarding task or directly.
pub fn make_syn_during_output(older_finished: bool, via_forwarder: bool) -> ScenarioFn {
    scenario(move || async move {
        let mut out = Outcome::default();
        let link = peer_link(PipeCfg::new("c2s"), PipeCfg::new("s2c"));
        let mut side = start_server_session(link.sess_r, link.sess_w, padding(STOP0), None);
        let inj = link.peer.inj.clone();
        let wire = link.peer.out.clone();
        tokio::spawn(link.peer.sink());
        let mut first = enc(SETTINGS, 0, &client_settings("x"));
        first.extend_from_slice(&enc(SYN, 1, b""));
        first.extend_from_slice(&enc(PSH, 1, &[0x11; 3]));
        if older_finished {
            first.extend_from_slice(&enc(FIN, 1, b""));
        }
        inj.push(&first);
        let s1 = match within(side.streams.recv()).await {
            Some(Some(s)) => s,
            _ => {
                out.viol("C02:stream-not-accepted", "stream 1 never reached the stream callback");
                return out;
            }
        };
        settle().await;
        // the race
        let sess = side.sess.clone();
        let s1w = s1.clone();
        let handler1 = tokio::spawn(async move {
            hpoint("h.c02.older.handler").await;
            for k in 0..2u8 {
                let d = Bytes::from(vec![0x10 | k; 4]);
                if via_forwarder {
                    let _ = s1w.send_data(d);
                } else {
                    let _ = within(sess.write_data_frame(1, d)).await;
                }
                hpoint("h.c02.older.between").await;
            }
        });
        let mut second = enc(SYN, 2, b"");
        second.extend_from_slice(&enc(PSH, 2, &[0x21; 3]));
        second.extend_from_slice(&enc(PSH, 2, &[0x22; 2]));
        inj.push(&second);
        let s2 = match within(side.streams.recv()).await {
            Some(Some(s)) => s,
            _ => {
                out.viol("C02:stream-not-accepted", "stream 2 never reached the stream callback");
                return out;
            }
        };
        let _ = handler1.await;
        tokio::time::sleep(Duration::from_secs(1)).await;
        inj.push(&enc(PSH, 2, &[0x23; 1]));
        tokio::time::sleep(Duration::from_secs(1)).await;
        let (b2, eof2) = drain_stream(&s2).await;
        let (b1, eof1) = drain_stream(&s1).await;
        let want2: Vec<u8> = vec![0x21, 0x21, 0x21, 0x22, 0x22, 0x23];
        out.obs = format!("s1={:02x?} eof={eof1} s2={:02x?} eof={eof2}", b1, b2);
        if b2 != want2 || eof2 {
            out.viol(
                if b2.len() < want2.len() { "C02:bytes-disappeared" } else { "C02:stream-disturbed" },
                format!("stream 2 (SYN and first data in one read, while the handler of the {} stream 1 was sending {}) read {:02x?} eof={eof2}; the peer sent {:02x?} and no FIN", if older_finished { "already finished" } else { "open" }, if via_forwarder { "through the forwarding task" } else { "directly" }, b2, want2),
            );
        }
        if b1 != vec![0x11; 3] || eof1 != older_finished {
            out.viol("C02:stream-disturbed", format!("stream 1 read {:02x?} eof={eof1}, expected three bytes 0x11 and eof={older_finished}", b1));
        }
        // the older stream's output carries its own id and bytes, in order
        let (frames, left) = parse_all(&wire.written());
        let mine: Vec<u8> = frames.iter().filter(|f| f.cmd == PSH && f.id == 1).flat_map(|f| f.data.clone()).collect();
        let foreign = frames.iter().any(|f| f.cmd == PSH && f.id != 1);
        // (whether a stream the peer has finished may still send is C08's question: there only cross-talk counts)
        let complete = mine == vec![0x10, 0x10, 0x10, 0x10, 0x11, 0x11, 0x11, 0x11];
        let own_bytes_only = mine.iter().all(|b| *b == 0x10 || *b == 0x11);
        if left != 0 || foreign || !own_bytes_only || (!older_finished && !complete) {
            out.viol("C02:output-disturbed", format!("the handler of stream 1 sent 4 x 0x10 then 4 x 0x11; wire: {} (leftover {left})", fmt_frames(&frames)));
        }
        if side.sess.is_closed() {
            out.viol("C02:session-died", "session closed");
        }
        side.recv_task.abort();
        side.fwd_task.abort();
        out
    })
}

pub fn send_params_json(p: &SendParams) -> serde_json::Value {
    json!({"part": "send-side", "writers": p.writers, "forward": p.forward, "up": p.up, "scheme": p.scheme_name})
}

pub fn items(tier: Tier) -> Vec<DxItem> {
    let mut v = vec![];
    let b = if tier.is_thorough() { 3 } else { 2 };
    for (scheme, scheme_name) in [(STOP0, "stop0"), (TINY, "tiny")] {
        for (writers, forward, up) in [(2, false, true), (2, true, false), (2, true, true), (3, false, true), (3, true, false)] {
            let p = SendParams { writers, forward, up, scheme, scheme_name };
            let bound = if writers == 3 { b - 1 } else { b };
            v.push(DxItem::new(send_params_json(&p), make_send(p), bound));
        }
    }
    for noise in [vec![(FIN, 99u32)], vec![(FIN, 1)], vec![(PSH, 3)], vec![(SYNACK, 99)], vec![(PSH, 7), (FIN, 99)], vec![(FIN, 3), (PSH, 3), (SYNACK, 3)]] {
        let p = OpenRaceParams { noise: noise.clone() };
        let mut it = DxItem::new(json!({"part": "inbound-during-open", "noise": noise.iter().map(|(c, i)| format!("{}{}", cmd_name(*c), i)).collect::<Vec<_>>()}), make_open_race(p), b);
        it.exec.long_yield = 4;
        it.exec.quiesce = true;
        v.push(it);
    }
    for older_finished in [true, false] {
        for via_forwarder in [true, false] {
            let mut it = DxItem::new(json!({"part": "new-stream-during-older-streams-output", "older_stream_finished_by_peer": older_finished, "via_forwarder": via_forwarder}), make_syn_during_output(older_finished, via_forwarder), b);
            it.exec.long_yield = 4;
            it.exec.quiesce = true;
            v.push(it);
        }
    }
    v
}

pub fn run(tier: Tier) -> i32 {
    let mut rep = Report::new("C02", tier, "model_checking");
    rep.assumptions = vec![
        "ids {1,2,3} stand for all ids (dispatch is a map lookup; no arithmetic on ids)".into(),
        "receive side: frames are delivered one at a time with the session quiescent in between (schedule deviations are explored on the send side and in C01/C08)".into(),
    ];
    bx(&mut rep, tier);
    let cap = Duration::from_secs(if tier.is_thorough() { 1200 } else { 60 });
    run_items(&mut rep, "C02", tier, items(tier), DxOpts { time_cap: cap, det_replays: 4, max_violations: 2, vacuity_check: false });
    rep.finish("BX: every inbound frame history up to depth d over {SYN,PSH,FIN,(SYNACK)} x ids {1,2,3(never opened)} on a real server / client session, oracle = non-interference by projection (stream s observes the same as when only its own frames are delivered) + tag check + single-stream reference model; DX: 2-3 concurrent writers on distinct streams, both paths and directions, <= B deviations; non-trivial = history touching >= 2 ids / trace with >= 1 deviation")
}

pub fn replay(file: &str) -> i32 {
    crate::dxrun::replay(file, items)
}
