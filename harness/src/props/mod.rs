pub mod c11;
