pub mod c11;
pub mod c09;
