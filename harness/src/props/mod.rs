pub mod c11;
pub mod c09;
pub mod c01;
