pub mod c11;
pub mod c09;
pub mod c01;
pub mod c02;
pub mod c03;
pub mod pad;
