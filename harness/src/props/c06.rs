//! C06 — only holders of the password get a session.
//! IX at authenticate_client (every deviation family, every declared padding
//! length, every truncation, fragmentations), LX at Server::listen over TLS.

use crate::lx::*;
use crate::refmodel::*;
use crate::report::{Report, Tier};
use crate::semi::*;
use anytls_rs::padding::PaddingFactory;
use anytls_rs::util::auth::{authenticate_client, hash_password};
use serde_json::json;
use std::pin::Pin;
use std::sync::Arc;
use std::task::{Context, Poll};
use std::time::Duration;
use tokio::io::{AsyncRead, AsyncWriteExt, ReadBuf};

/// Delivers `data` in pieces ending at `cuts`; counts what was handed out.
struct PieceReader {
    data: Vec<u8>,
    cuts: Vec<usize>,
    pos: usize,
}

impl AsyncRead for PieceReader {
    fn poll_read(mut self: Pin<&mut Self>, _cx: &mut Context<'_>, buf: &mut ReadBuf<'_>) -> Poll<std::io::Result<()>> {
        let pos = self.pos;
        let next = self.cuts.iter().copied().find(|c| *c > pos).unwrap_or(self.data.len()).min(self.data.len());
        let n = (next - pos).min(buf.remaining());
        buf.put_slice(&self.data[pos..pos + n]);
        self.pos += n;
        Poll::Ready(Ok(()))
    }
}

/// (accepted, bytes consumed from the transport)
fn run_auth(rt: &tokio::runtime::Runtime, data: &[u8], cuts: &[usize], expected: &[u8; 32]) -> (bool, usize) {
    let f = Arc::new(PaddingFactory::new(b"stop=1\n0=30-30").unwrap());
    let mut r = PieceReader { data: data.to_vec(), cuts: cuts.to_vec(), pos: 0 };
    let ok = rt.block_on(async { authenticate_client(&mut r, expected, &f).await.is_ok() });
    (ok, r.pos)
}

const PW: &str = "correct horse battery staple";

fn preamble(hash: &[u8; 32], pad: usize) -> Vec<u8> {
    let mut v = hash.to_vec();
    v.extend_from_slice(&(pad as u16).to_be_bytes());
    v.extend(std::iter::repeat(0xEEu8).take(pad));
    v
}

fn ix(rep: &mut Report, thorough: bool) {
    // (time enabled and paused: subject code may use timers; the inputs here never stall, so no virtual time passes)
    let rt = tokio::runtime::Builder::new_current_thread().enable_time().start_paused(true).build().unwrap();
    let good = hash_password(PW);
    let sentinel = enc(SETTINGS, 0, b"v=2");
    let check = |rep: &mut Report, name: &str, bytes: &[u8], cuts: &[usize], want_ok: bool, want_consumed: Option<usize>| {
        rep.case(Some(name));
        let (ok, consumed) = run_auth(&rt, bytes, cuts, &good);
        if ok != want_ok {
            let key = if ok { "C06:wrong-preamble-accepted" } else { "C06:right-preamble-rejected" };
            rep.violation(key, &format!("{name}: authenticate_client returned {}", if ok { "Ok" } else { "Err" }), json!({"engine": "IX", "case": name}));
        } else if let Some(w) = want_consumed
            && ok
            && consumed != w
        {
            rep.violation("C06:padding-not-skipped-exactly", &format!("{name}: {consumed} bytes consumed, frame parsing must start at byte {w}"), json!({"engine": "IX", "case": name}));
        }
    };
    // the right hash
    let mut ok_stream = preamble(&good, 0);
    ok_stream.extend_from_slice(&sentinel);
    check(rep, "right hash, padding 0", &ok_stream, &[], true, Some(34));
    // every single-bit flip
    for bit in 0..256 {
        let mut h = good;
        h[bit / 8] ^= 1 << (bit % 8);
        let mut s = preamble(&h, 0);
        s.extend_from_slice(&sentinel);
        check(rep, &format!("bit flip {bit}"), &s, &[], false, None);
    }
    // every single-byte substitution
    for pos in 0..32 {
        for val in 0..=255u8 {
            if val == good[pos] {
                continue;
            }
            if !thorough && val % 5 != pos as u8 % 5 && val != good[pos].wrapping_add(1) && val != 0 && val != 255 {
                continue;
            }
            let mut h = good;
            h[pos] = val;
            let mut s = preamble(&h, 3);
            s.extend_from_slice(&sentinel);
            check(rep, &format!("byte {pos} = {val:#04x}"), &s, &[], false, None);
        }
    }
    // first k bytes right, rest wrong — and the mirror image
    for k in 0..32 {
        let mut h = [0xA5u8; 32];
        h[..k].copy_from_slice(&good[..k]);
        if h == good {
            continue;
        }
        let mut s = preamble(&h, 0);
        s.extend_from_slice(&sentinel);
        check(rep, &format!("first {k} bytes right"), &s, &[], false, None);
        let mut h = [0x5Au8; 32];
        h[32 - k..].copy_from_slice(&good[32 - k..]);
        if h == good {
            continue;
        }
        let mut s = preamble(&h, 0);
        s.extend_from_slice(&sentinel);
        check(rep, &format!("last {k} bytes right"), &s, &[], false, None);
    }
    // the expected hash IS the SHA-256 of the configured password, byte for byte, whatever its shape (independent implementation)
    {
        use sha2::{Digest, Sha256};
        let long = "p".repeat(1000);
        for pw in ["", " ", "a", "A", " a", "a ", "a\n", "a\0b", "a\tb", "päss wörd", "ＰＡＳＳ", "pass\u{301}", long.as_str(), "0123456789abcdef0123456789abcdef", "0123456789abcdef0123456789abcdefX", PW] {
            rep.case(Some(&format!("hash of configured password {:?}", if pw.len() > 40 { &pw[..40] } else { pw })));
            let want: [u8; 32] = Sha256::digest(pw.as_bytes()).into();
            let got = hash_password(pw);
            if got != want {
                rep.violation("C06:expected-hash-is-not-sha256-of-the-password", &format!("password {:?} ({} bytes): the hash the server expects / the client sends is {:02x?}…, SHA-256 of the password is {:02x?}…", if pw.len() > 40 { &pw[..40] } else { pw }, pw.len(), &got[..6], &want[..6]), json!({"engine": "IX", "password_len": pw.len()}));
            }
        }
    }
    // hashes of related passwords
    for pw in [PW.to_uppercase(), PW.to_lowercase().replace('c', "C"), format!("{PW} "), format!(" {PW}"), format!("{PW}\0"), format!("{PW}\n"), PW[..PW.len() - 1].to_string(), PW[1..].to_string(), String::new(), format!("{PW}{PW}"), PW.replace(' ', ""), PW.replace(' ', "  ")] {
        if pw == PW {
            continue;
        }
        let mut s = preamble(&hash_password(&pw), 0);
        s.extend_from_slice(&sentinel);
        check(rep, &format!("hash of related password {pw:?}"), &s, &[], false, None);
    }
    // the hex text of the hash, the hash reversed, all zero, all 0xff
    let mut rev = good;
    rev.reverse();
    for (n, h) in [("reversed", rev), ("zeros", [0u8; 32]), ("ones", [0xffu8; 32])] {
        let mut s = preamble(&h, 0);
        s.extend_from_slice(&sentinel);
        check(rep, n, &s, &[], false, None);
    }
    // every declared padding length: parsing resumes exactly after it
    for pad in 0..=65535usize {
        let mut s = preamble(&good, pad);
        s.extend_from_slice(&sentinel);
        rep.case(if pad % 256 == 0 { Some("pad") } else { None });
        rep.nontrivial.insert(0x5000_0000 + pad as u64);
        let (ok, consumed) = run_auth(&rt, &s, &[], &good);
        if !ok {
            rep.violation("C06:right-preamble-rejected", &format!("declared padding {pad}: rejected"), json!({"engine": "IX", "padding": pad}));
        } else if consumed != 34 + pad {
            rep.violation("C06:padding-not-skipped-exactly", &format!("declared padding {pad}: {consumed} bytes consumed, frames start at byte {}", 34 + pad), json!({"engine": "IX", "padding": pad}));
        }
    }
    // every truncation
    for pad in [0usize, 1, 30, 300] {
        let full = preamble(&good, pad);
        for cut in 0..full.len() {
            check(rep, &format!("padding {pad}, truncated to {cut} bytes"), &full[..cut], &[], false, None);
        }
        check(rep, &format!("padding {pad}, complete, nothing after"), &full, &[], true, Some(full.len()));
    }
    // fragmentation: every <= 2-cut pattern of the preamble (+ sentinel), and byte at a time
    for pad in [0usize, 5] {
        let mut s = preamble(&good, pad);
        let plen = s.len();
        s.extend_from_slice(&sentinel);
        for a in 1..s.len() {
            check(rep, &format!("pad {pad} cut {a}"), &s, &[a], true, Some(plen));
            if thorough || a % 3 == 1 {
                for b in a + 1..s.len() {
                    check(rep, &format!("pad {pad} cuts {a},{b}"), &s, &[a, b], true, Some(plen));
                }
            }
        }
        let all: Vec<usize> = (1..s.len()).collect();
        check(rep, &format!("pad {pad} byte at a time"), &s, &all, true, Some(plen));
        // a wrong hash in the same fragmentations
        let mut bad = good;
        bad[31] ^= 0x80;
        let mut sb = preamble(&bad, pad);
        sb.extend_from_slice(&sentinel);
        for a in 1..sb.len() {
            check(rep, &format!("wrong hash pad {pad} cut {a}"), &sb, &[a], false, None);
        }
    }
}

// ---------------------------------------------------------------- LX

#[derive(Clone, Debug)]
struct LxCase {
    name: String,
    preamble: Vec<u8>,
    good: bool,
    /// close our sending side right after the preamble (truncations)
    truncate: bool,
}

async fn lx_one(server: std::net::SocketAddr, target: &Target, c: LxCase, idx: usize) -> Vec<(String, String)> {
    let mut v = vec![];
    let cfg = anytls_rs::util::tls::create_client_config().unwrap();
    let connector = tokio_rustls::TlsConnector::from(cfg);
    let Ok(tcp) = tokio::net::TcpStream::connect(server).await else { return vec![("harness:connect".into(), c.name)] };
    let _ = tcp.set_nodelay(true);
    let Ok(mut tls) = connector.connect(tokio_rustls::rustls::pki_types::ServerName::try_from("localhost").unwrap(), tcp).await else {
        return vec![("harness:tls".into(), c.name)];
    };
    let marker = format!("marker-{idx}-").into_bytes();
    let mut bytes = c.preamble.clone();
    if !c.truncate {
        bytes.extend_from_slice(&enc(SETTINGS, 0, b"v=2\nclient=x\npadding-md5=0"));
        bytes.extend_from_slice(&enc(SYN, 1, b""));
        let mut dest = vec![1u8, 127, 0, 0, 1];
        dest.extend_from_slice(&target.addr.port().to_be_bytes());
        bytes.extend_from_slice(&enc(PSH, 1, &dest));
        bytes.extend_from_slice(&enc(PSH, 1, &marker));
    }
    let _ = tls.write_all(&bytes).await;
    let _ = tls.flush().await;
    if c.truncate {
        let _ = tls.shutdown().await;
    }
    if c.good {
        // the data must reach the target
        let t0 = tokio::time::Instant::now();
        let mut seen = false;
        while t0.elapsed().as_millis() < 5000 {
            if target.conns.lock().unwrap().iter().any(|k| k.lock().unwrap().received.starts_with(&marker)) {
                seen = true;
                break;
            }
            tokio::time::sleep(Duration::from_millis(3)).await;
        }
        if !seen {
            v.push(("C06:right-preamble-rejected".into(), format!("{}: the stream's data never reached the target", c.name)));
        }
        return v;
    }
    // bad preamble: no application byte comes back and the server ends the connection
    let (got, closed) = read_all_or_idle(&mut tls, 5000).await;
    if !got.is_empty() {
        v.push(("C06:protocol-reply-to-unauthenticated-peer".into(), format!("{}: the server sent {} application bytes: {:02x?}", c.name, got.len(), &got[..got.len().min(24)])));
    }
    if !closed {
        v.push(("C06:connection-kept-after-bad-preamble".into(), format!("{}: the server did not close the connection within 5 s", c.name)));
    }
    if target.conns.lock().unwrap().iter().any(|k| k.lock().unwrap().received.starts_with(&marker)) {
        v.push(("C06:wrong-preamble-accepted".into(), format!("{}: the target received the stream's data", c.name)));
    }
    v
}

fn lx(rep: &mut Report, thorough: bool) {
    let good = hash_password(PW);
    let mut cases: Vec<LxCase> = vec![];
    for pad in [0usize, 1, 30, 65535] {
        cases.push(LxCase { name: format!("right hash, padding {pad}"), preamble: preamble(&good, pad), good: true, truncate: false });
    }
    for bit in 0..256 {
        if !thorough && bit % 2 == 1 {
            continue;
        }
        let mut h = good;
        h[bit / 8] ^= 1 << (bit % 8);
        cases.push(LxCase { name: format!("bit flip {bit}"), preamble: preamble(&h, 0), good: false, truncate: false });
    }
    for k in 0..32 {
        let mut h = [0xA5u8; 32];
        h[..k].copy_from_slice(&good[..k]);
        cases.push(LxCase { name: format!("first {k} bytes right"), preamble: preamble(&h, 30), good: false, truncate: false });
    }
    for pad in [0usize, 30] {
        let full = preamble(&good, pad);
        for cut in 0..full.len() {
            if !thorough && cut % 2 == 1 && cut < 30 {
                continue;
            }
            cases.push(LxCase { name: format!("padding {pad} truncated to {cut}"), preamble: full[..cut].to_vec(), good: false, truncate: true });
        }
    }
    let rt = rt_multi();
    let res: Result<Vec<Vec<(String, String)>>, String> = rt.block_on(async {
        let lx = start_lx(PW, PW, pool_cfg(3600, 3600, 1), false, false).await?;
        let target = Arc::new(start_target("127.0.0.1", TargetMode::Sink, vec![]).await);
        let mut out = vec![];
        // batches of 32 concurrent connections
        for (bi, batch) in cases.chunks(32).enumerate() {
            let mut hs = vec![];
            for (i, c) in batch.iter().enumerate() {
                let t = target.clone();
                let c = c.clone();
                let addr = lx.server_addr;
                hs.push(tokio::spawn(async move { lx_one(addr, &t, c, bi * 32 + i).await }));
            }
            for h in hs {
                out.push(h.await.unwrap_or_else(|e| vec![("panic:task".into(), e.to_string())]));
            }
        }
        // nothing but the good connections may have reached the target
        let accepted = target.accepted();
        let goods = cases.iter().filter(|c| c.good).count();
        if accepted != goods {
            out.push(vec![("C06:outbound-connection-for-unauthenticated-peer".into(), format!("the target accepted {accepted} connections, {goods} authenticated sessions asked for one"))]);
        }
        Ok(out)
    });
    drop(rt);
    // ---- an incomplete preamble, a long silence (connection kept open), then frames: still no session.
    //      Current-thread runtime whose clock is jumped during the silence.
    let gap_res: Result<Vec<(String, Vec<(String, String)>)>, String> = tokio::runtime::Builder::new_current_thread().enable_all().build().unwrap().block_on(async {
        let lx = start_lx(PW, PW, pool_cfg(3600, 3600, 1), false, false).await?;
        let target = start_target("127.0.0.1", TargetMode::Sink, vec![]).await;
        let mut out = vec![];
        let mut idx = 0usize;
        for gap in if thorough { vec![11u64, 31, 61, 301, 3601] } else { vec![11u64, 31, 301] } {
            for k in [0usize, 1, 16, 31] {
                idx += 1;
                let name = format!("first {k} bytes of the right hash, {gap} s of silence on the open connection, then Settings+SYN+destination+data");
                let mut v = vec![];
                let cfg = anytls_rs::util::tls::create_client_config().unwrap();
                let connector = tokio_rustls::TlsConnector::from(cfg);
                let Ok(tcp) = tokio::net::TcpStream::connect(lx.server_addr).await else { continue };
                let _ = tcp.set_nodelay(true);
                let Ok(mut tls) = connector.connect(tokio_rustls::rustls::pki_types::ServerName::try_from("localhost").unwrap(), tcp).await else { continue };
                let _ = tls.write_all(&good[..k]).await;
                let _ = tls.flush().await;
                crate::lx::clock_jump(gap).await;
                let marker = format!("gapmarker-{idx}-").into_bytes();
                let mut bytes = vec![];
                bytes.extend_from_slice(&enc(SETTINGS, 0, b"v=2\nclient=x\npadding-md5=0"));
                bytes.extend_from_slice(&enc(SYN, 1, b""));
                let mut dest = vec![1u8, 127, 0, 0, 1];
                dest.extend_from_slice(&target.addr.port().to_be_bytes());
                bytes.extend_from_slice(&enc(PSH, 1, &dest));
                bytes.extend_from_slice(&enc(PSH, 1, &marker));
                bytes.extend_from_slice(&enc(HEART_REQ, 0, b""));
                let _ = tls.write_all(&bytes).await;
                let _ = tls.flush().await;
                let (got, _closed) = read_all_or_idle(&mut tls, 700).await;
                if !got.is_empty() {
                    v.push(("C06:protocol-reply-to-unauthenticated-peer".to_string(), format!("{name}: the server sent {} application bytes: {:02x?}", got.len(), &got[..got.len().min(24)])));
                }
                if target.conns.lock().unwrap().iter().any(|c| c.lock().unwrap().received.starts_with(&marker)) {
                    v.push(("C06:wrong-preamble-accepted".to_string(), format!("{name}: the target received the stream's data")));
                }
                out.push((name, v));
            }
        }
        if target.accepted() != 0 {
            out.push(("gap cases, target".to_string(), vec![("C06:outbound-connection-for-unauthenticated-peer".to_string(), format!("the target accepted {} connection(s) although no peer authenticated", target.accepted()))]));
        }
        Ok(out)
    });
    match gap_res {
        Err(e) => rep.machinery(format!("LX (gaps) start failed: {e}")),
        Ok(all) => {
            for (name, v) in all {
                rep.case(Some(&format!("lx {name}")));
                for (k, d) in v {
                    rep.violation(&k, &d, json!({"engine": "LX", "case": name}));
                }
            }
        }
    }
    match res {
        Err(e) => rep.machinery(format!("LX start failed: {e}")),
        Ok(all) => {
            for (i, v) in all.iter().enumerate() {
                if let Some(c) = cases.get(i) {
                    rep.case(Some(&format!("lx {}", c.name)));
                }
                for (k, d) in v {
                    rep.violation(k, d, json!({"engine": "LX", "case": cases.get(i).map(|c| c.name.clone())}));
                }
            }
            rep.sections.insert("lx_tls_connections".into(), json!(cases.len()));
        }
    }
}

pub fn run(tier: Tier) -> i32 {
    let mut rep = Report::new("C06", tier, "exploration");
    let thorough = tier.is_thorough();
    rep.assumptions = vec![
        "the other 2^256 preambles are represented by the deviation families (bit flips, byte substitutions, prefixes/suffixes, related passwords); timing side channels are out of scope".into(),
        "LX: 'no reply and nothing dialled' is concluded from the positive event 'the server closed the connection'".into(),
    ];
    ix(&mut rep, thorough);
    lx(&mut rep, thorough);
    rep.sample(json!({"case": "bit flip 17 of the right hash, padding 0, followed by valid Settings+SYN+destination+data"}));
    rep.finish("IX at authenticate_client over a byte-counting reader: right hash; all 256 bit flips; single-byte substitutions (thorough: all 32x255); k-byte prefixes/suffixes; 12 related passwords; hash_password against an independent SHA-256 for 16 password shapes; every declared padding length 0..=65535 followed by a sentinel frame; every truncation for padding {0,1,30,300}; every 1-cut (and 2-cut) fragmentation and byte-at-a-time; LX: the same families as real TLS connections to the real Server (bad: zero reply bytes, connection closed by the server, target never contacted; good: data reaches the target), plus incomplete preambles followed by 11 s .. 301 s of silence on the open connection and then frames; non-trivial = distinct case")
}
