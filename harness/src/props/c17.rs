//! C17 — the HTTP proxy forwards each request to its authority, unchanged in substance.
//! IX on the real parsing/rewriting functions (H8) against an independent
//! reference; LX through the real front-end for header-size boundaries,
//! CONNECT ordering and early bytes.

use crate::lx::*;
use crate::report::{Report, Tier};
use crate::semi::*;
use crate::sess::pat_vec;
use anytls_rs::client::verif_parse_and_rewrite;
use serde_json::json;
use std::net::IpAddr;
use std::time::Duration;
use tokio::io::{AsyncReadExt, AsyncWriteExt};

// ---------------------------------------------------------------- reference

#[derive(Clone, Debug, PartialEq)]
struct Authority {
    host: String,
    port: u16,
}

fn norm_host(h: &str) -> String {
    let t = h.trim().trim_start_matches('[').trim_end_matches(']');
    match t.parse::<IpAddr>() {
        Ok(ip) => ip.to_string(),
        Err(_) => t.to_ascii_lowercase(),
    }
}

/// host[:port] with bracketed IPv6 literals; None if it cannot be read as an authority.
fn parse_authority(a: &str, default_port: u16) -> Option<Authority> {
    let a = a.trim();
    if a.is_empty() {
        return None;
    }
    if let Some(rest) = a.strip_prefix('[') {
        let end = rest.find(']')?;
        let host = &rest[..end];
        host.parse::<std::net::Ipv6Addr>().ok()?;
        let after = &rest[end + 1..];
        let port = if after.is_empty() { default_port } else { after.strip_prefix(':')?.parse::<u16>().ok()? };
        return Some(Authority { host: norm_host(host), port });
    }
    // a bare IPv6 literal (no brackets) cannot carry a port
    if a.matches(':').count() >= 2 {
        return a.parse::<std::net::Ipv6Addr>().ok().map(|ip| Authority { host: ip.to_string(), port: default_port });
    }
    match a.rsplit_once(':') {
        Some((h, p)) => Some(Authority { host: norm_host(h), port: p.parse::<u16>().ok()? }),
        None => Some(Authority { host: norm_host(a), port: default_port }),
    }
}

struct RefResult {
    authority: Authority,
    connect: bool,
    path: String,
    /// default port of the scheme the forwarded Host header is read in
    host_defaults: Vec<u16>,
}

fn reference(method: &str, target: &str, headers: &[String]) -> Option<RefResult> {
    if method == "CONNECT" {
        return Some(RefResult { authority: parse_authority(target, 443)?, connect: true, path: String::new(), host_defaults: vec![] });
    }
    for (scheme, dp) in [("http://", 80u16), ("https://", 443)] {
        if let Some(rest) = target.strip_prefix(scheme) {
            let (auth, path) = match rest.find('/') {
                Some(i) => (&rest[..i], rest[i..].to_string()),
                None => (rest, "/".to_string()),
            };
            return Some(RefResult { authority: parse_authority(auth, dp)?, connect: false, path, host_defaults: if dp == 80 { vec![80] } else { vec![80, 443] } });
        }
    }
    // origin-form or '*': the Host header names the authority (field names are case-insensitive)
    let hv = headers.iter().find_map(|h| {
        let (n, v) = h.split_once(':')?;
        if n.eq_ignore_ascii_case("host") { Some(v.trim().to_string()) } else { None }
    })?;
    Some(RefResult { authority: parse_authority(&hv, 80)?, connect: false, path: target.to_string(), host_defaults: vec![80] })
}

fn check_forward(fwd: &[u8], method: &str, version: &str, headers: &[String], r: &RefResult) -> Result<(), String> {
    let text = String::from_utf8(fwd.to_vec()).map_err(|_| "forward request is not UTF-8".to_string())?;
    let Some(head) = text.strip_suffix("\r\n\r\n") else { return Err("forward request does not end with a blank line".into()) };
    let mut lines = head.split("\r\n");
    let rl = lines.next().unwrap_or("");
    let want_rl = format!("{} {} {}", method, r.path, version);
    if rl != want_rl {
        return Err(format!("request line {rl:?}, expected {want_rl:?}"));
    }
    let got: Vec<&str> = lines.collect();
    let is_host = |l: &str| l.split_once(':').map(|(n, _)| n.eq_ignore_ascii_case("host")).unwrap_or(false);
    // other header lines, in order, unchanged
    let want_other: Vec<&str> = headers.iter().map(|s| s.as_str()).filter(|l| !is_host(l)).collect();
    let got_other: Vec<&str> = got.iter().copied().filter(|l| !is_host(l)).collect();
    if got_other != want_other {
        return Err(format!("header lines {got_other:?}, expected {want_other:?}"));
    }
    let hosts: Vec<&str> = got.iter().copied().filter(|l| is_host(l)).collect();
    if hosts.len() != 1 {
        return Err(format!("{} Host lines in the forwarded request: {hosts:?}", hosts.len()));
    }
    let value = hosts[0].split_once(':').unwrap().1.trim();
    let ok = r.host_defaults.iter().any(|dp| parse_authority(value, *dp).as_ref() == Some(&r.authority));
    if !ok {
        return Err(format!("Host value {value:?} does not denote {}:{}", r.authority.host, r.authority.port));
    }
    // position: where the original Host line was, or appended last
    let orig_pos = headers.iter().position(|l| is_host(l));
    let got_pos = got.iter().position(|l| is_host(l)).unwrap();
    match orig_pos {
        Some(p) if headers.iter().filter(|l| is_host(l)).count() == 1 => {
            if got_pos != p {
                return Err(format!("Host line moved from position {p} to {got_pos}"));
            }
        }
        None => {
            if got_pos != got.len() - 1 {
                return Err("missing Host line was not appended last".into());
            }
        }
        _ => {}
    }
    Ok(())
}

fn ix(rep: &mut Report, thorough: bool) {
    let hosts = ["example.com", "EXAMPLE.com", "127.0.0.1", "[::1]", "[2001:db8::80]"];
    let ports: [Option<u16>; 5] = [None, Some(80), Some(443), Some(8080), Some(65535)];
    let methods = ["GET", "POST", "PUT", "OPTIONS", "CONNECT"];
    let host_names = ["Host", "host", "HOST", "hOsT"];
    let others: Vec<Vec<&str>> = vec![vec![], vec!["Accept: */*"], vec!["Hostile: yes", "X-A: 1"], vec!["X-A: 1", "X-A: 1"], vec!["Proxy-Connection: keep-alive", "User-Agent: u"],
        // lines without a colon (obsolete folding, a bare token), an empty value, hop-by-hop / proxy headers
        vec!["Cookie: a=1;", "\tb=2"], vec!["X-Bare", "X-Empty:"], vec!["X-F: 1", " folded: with colon"], vec!["Proxy-Authorization: Basic eDp5", "Connection: close"]];
    let bodies: Vec<Vec<u8>> = vec![vec![], vec![b'x'], pat_vec(1, 0, 0, 1024)];
    let mut n = 0u64;
    for method in methods {
        for h in hosts {
            for p in ports {
                let auth = match p {
                    Some(p) => format!("{h}:{p}"),
                    None => h.to_string(),
                };
                let targets: Vec<String> = if method == "CONNECT" {
                    vec![auth.clone()]
                } else {
                    vec!["/".into(), "/p?q=1".into(), "*".into(), format!("http://{auth}"), format!("http://{auth}/"), format!("http://{auth}/p?q"), format!("https://{auth}/p")]
                };
                for target in &targets {
                    // Host header variants: absent, each spelling with the same authority, and one differing from the URI
                    let mut host_lines: Vec<Option<String>> = vec![None];
                    for hn in host_names {
                        host_lines.push(Some(format!("{hn}: {auth}")));
                        host_lines.push(Some(format!("{hn}:{auth}")));
                    }
                    host_lines.push(Some("Host: other.example:81".to_string()));
                    for hl in &host_lines {
                        for other in &others {
                            if !thorough && other.len() == 2 && other[0] == "X-A: 1" && hl.is_some() && !hl.as_ref().unwrap().starts_with("Host: ") {
                                continue;
                            }
                            // the Host line goes first, in the middle or last
                            let positions: Vec<usize> = if hl.is_some() { (0..=other.len()).collect() } else { vec![0] };
                            for pos in positions {
                                let mut headers: Vec<String> = other.iter().map(|s| s.to_string()).collect();
                                if let Some(l) = hl {
                                    headers.insert(pos, l.clone());
                                }
                                for version in ["HTTP/1.1", "HTTP/1.0"] {
                                    for (bi, body) in bodies.iter().enumerate() {
                                        if (bi > 0 || version == "HTTP/1.0") && !thorough && (pos != 0 || !other.is_empty()) {
                                            continue;
                                        }
                                        let Some(r) = reference(method, target, &headers) else { continue };
                                        // a Host header that differs from the URI/CONNECT authority is only meaningful with an absolute target
                                        if hl.as_deref() == Some("Host: other.example:81") && !(target.starts_with("http") || method == "CONNECT") {
                                            // origin-form: this Host header IS the authority
                                        }
                                        n += 1;
                                        let mut block = format!("{method} {target} {version}\r\n");
                                        for l in &headers {
                                            block.push_str(l);
                                            block.push_str("\r\n");
                                        }
                                        block.push_str("\r\n");
                                        let case = json!({"request": block, "body_len": body.len()});
                                        let key = format!("{method} {target} {:?} {:?} {version} {}", hl, other, body.len());
                                        rep.case(Some(&key));
                                        match verif_parse_and_rewrite(&block, body.clone()) {
                                            Err(e) => rep.violation("C17:well-formed-request-rejected", &format!("{:?}: {e}", block), json!({"engine": "IX", "case": case})),
                                            Ok((host, port, is_connect, fwd, out_body)) => {
                                                let got = Authority { host: norm_host(&host), port };
                                                if got != r.authority || is_connect != r.connect {
                                                    let k = if got.host != r.authority.host { "C17:wrong-host" } else if got.port != r.authority.port { "C17:wrong-port" } else { "C17:wrong-mode" };
                                                    rep.violation(k, &format!("{:?}: tunnel to {}:{} (connect={is_connect}), the request names {}:{} (connect={})", block, host, port, r.authority.host, r.authority.port, r.connect), json!({"engine": "IX", "case": case}));
                                                    continue;
                                                }
                                                if out_body != *body {
                                                    rep.violation("C17:body-prefix-altered", &format!("{:?}: {} body bytes in, {} out", block, body.len(), out_body.len()), json!({"engine": "IX", "case": case}));
                                                }
                                                if !r.connect
                                                    && let Err(e) = check_forward(&fwd, method, version, &headers, &r)
                                                {
                                                    let k = if e.contains("Host") { "C17:forwarded-host-header" } else { "C17:forwarded-request-altered" };
                                                    rep.violation(k, &format!("{:?} forwarded as {:?}: {e}", block, String::from_utf8_lossy(&fwd)), json!({"engine": "IX", "case": case}));
                                                }
                                            }
                                        }
                                    }
                                }
                            }
                        }
                    }
                }
            }
        }
    }
    rep.sections.insert("ix_requests".into(), json!(n));
    rep.sample(json!({"request": "GET http://[2001:db8::80]:8080/p?q HTTP/1.1\r\nHOST: [2001:db8::80]:8080\r\nAccept: */*\r\n\r\n"}));
}

// ---------------------------------------------------------------- LX

async fn http_exchange(proxy: std::net::SocketAddr, req: &[u8], cuts: &[usize], read_ms: u64) -> (Vec<u8>, bool) {
    let Ok(mut s) = tokio::net::TcpStream::connect(proxy).await else { return (vec![], true) };
    let _ = s.set_nodelay(true);
    let _ = send_fragmented(&mut s, req, cuts).await;
    read_all_or_idle(&mut s, read_ms).await
}

async fn lx_part(rep: &mut Report, thorough: bool) -> Result<(), String> {
    let lx = start_lx("pw", "pw", pool_cfg(3600, 3600, 1), false, true).await?;
    let proxy = lx.http.unwrap();
    // ---- header blocks near the 64 KiB limit, with and without body bytes in the same segment
    let sizes: Vec<usize> = if thorough { vec![1000, 65_000, 65_535, 65_536, 65_537] } else { vec![65_000, 65_536, 65_537] };
    for total in sizes {
        for (body_len, one_segment, first_cut) in [(0usize, true, 0usize), (600, true, 0), (600, false, 0), (3000, true, 0), (600, true, 100), (0, true, 1), (900, true, 513)] {
            let origin = start_target("127.0.0.1", TargetMode::Sink, vec![]).await;
            let first = format!("GET http://{}/big HTTP/1.1\r\nHost: {}\r\nX-Fill: ", origin.addr, origin.addr);
            let fill = total.saturating_sub(first.len() + 4);
            let mut req = first.into_bytes();
            req.extend(std::iter::repeat(b'f').take(fill));
            req.extend_from_slice(b"\r\n\r\n");
            let hlen = req.len();
            let body = pat_vec(7, 0, 0, body_len);
            req.extend_from_slice(&body);
            let name = format!("header block {hlen} bytes + {body_len} body bytes, {}{}", if one_segment { "sent in one go" } else { "body in a later segment" }, if first_cut > 0 { format!(", first TCP segment {first_cut} bytes") } else { String::new() });
            rep.case(Some(&name));
            let mut cuts = if one_segment { vec![] } else { vec![hlen] };
            if first_cut > 0 {
                cuts.insert(0, first_cut);
            }
            let (resp, _closed) = http_exchange(proxy, &req, &cuts, 80).await;
            let got = origin.wait(0, 1500, |t| t.received.ends_with(&body) && t.received.len() >= hlen.min(100) + body_len).await;
            let legal = hlen <= 65_536;
            if legal {
                match got {
                    None => rep.violation("C17:legal-header-refused", &format!("{name}: the origin was never contacted (proxy answered {:?})", String::from_utf8_lossy(&resp[..resp.len().min(60)])), json!({"engine": "LX", "case": name})),
                    Some(t) => {
                        let Some(pos) = t.received.windows(4).position(|w| w == b"\r\n\r\n") else {
                            rep.violation("C17:forwarded-request-altered", &format!("{name}: origin received {} bytes without a header terminator", t.received.len()), json!({"engine": "LX", "case": name}));
                            continue;
                        };
                        let b = &t.received[pos + 4..];
                        if b != &body[..] {
                            rep.violation("C17:body-bytes-not-forwarded-exactly-once", &format!("{name}: origin received {} body bytes, {} were sent", b.len(), body.len()), json!({"engine": "LX", "case": name}));
                        }
                        let head = String::from_utf8_lossy(&t.received[..pos]).to_string();
                        if !head.starts_with("GET /big HTTP/1.1\r\n") || head.matches("X-Fill: ").count() != 1 || head.len() + 40 < hlen.saturating_sub(40) {
                            rep.violation("C17:forwarded-request-altered", &format!("{name}: origin received header {:?}…", &head[..head.len().min(80)]), json!({"engine": "LX", "case": name}));
                        }
                    }
                }
            }
        }
    }
    // ---- header blocks whose terminator straddles the front-end's read boundaries: every size in windows
    //      around multiples of 1024, and a forced TCP cut 1..4 bytes before the end of an ordinary header
    {
        let mut shapes: Vec<(usize, Vec<usize>)> = vec![];
        let windows: Vec<std::ops::RangeInclusive<usize>> = if thorough { vec![1018..=1032, 2042..=2056, 3066..=3080, 65_528..=65_536] } else { vec![1021..=1029, 2046..=2052, 65_533..=65_536] };
        for w in windows {
            for n in w {
                shapes.push((n, vec![]));
            }
        }
        for back in 1..=5usize {
            shapes.push((300, vec![300 - back]));
            shapes.push((1500, vec![1500 - back]));
            shapes.push((1500, vec![700, 1500 - back]));
        }
        let mut hs = vec![];
        for (total, cuts) in shapes {
            let proxy2 = proxy;
            hs.push(tokio::spawn(async move {
                let origin = start_target("127.0.0.1", TargetMode::Sink, vec![]).await;
                let first = format!("POST http://{}/s HTTP/1.1\r\nHost: {}\r\nContent-Length: 9\r\nX-Fill: ", origin.addr, origin.addr);
                let fill = total.saturating_sub(first.len() + 4);
                let mut req = first.into_bytes();
                req.extend(std::iter::repeat(b'g').take(fill));
                req.extend_from_slice(b"\r\n\r\n");
                let hlen = req.len();
                req.extend_from_slice(b"body\r\n\r\n!");
                let (_resp, _) = http_exchange(proxy2, &req, &cuts, 80).await;
                let got = origin.wait(0, 1500, |t| t.received.ends_with(b"body\r\n\r\n!")).await;
                let name = format!("header block {hlen} bytes sent with cuts {:?}, body contains a blank line", cuts);
                let verdict = match got {
                    None => Some(("C17:legal-header-refused", format!("{name}: the origin was never contacted"))),
                    Some(t) => {
                        let want_tail = b"\r\n\r\nbody\r\n\r\n!";
                        if !t.received.ends_with(want_tail) || !t.received.starts_with(b"POST /s HTTP/1.1\r\n") || t.received.len() + 60 < hlen {
                            Some(("C17:forwarded-request-altered", format!("{name}: origin received {} bytes ending {:?}", t.received.len(), String::from_utf8_lossy(&t.received[t.received.len().saturating_sub(24)..]))))
                        } else {
                            None
                        }
                    }
                };
                (name, verdict)
            }));
        }
        for h in hs {
            if let Ok((name, verdict)) = h.await {
                rep.case(Some(&name));
                if let Some((k, d)) = verdict {
                    rep.violation(k, &d, json!({"engine": "LX", "case": name}));
                }
            }
        }
    }
    // ---- CONNECT: 200 only after the tunnel exists; bytes sent with the CONNECT header reach the origin exactly once
    for early in [0usize, 1, 700] {
        for one_segment in [true, false] {
            if early == 0 && !one_segment {
                continue;
            }
            let origin = start_target("127.0.0.1", TargetMode::Echo, vec![]).await;
            let name = format!("CONNECT with {early} early bytes, {}", if one_segment { "same segment" } else { "separate segment" });
            rep.case(Some(&name));
            let mut req = format!("CONNECT {} HTTP/1.1\r\nHost: {}\r\n\r\n", origin.addr, origin.addr).into_bytes();
            let hlen = req.len();
            let data = pat_vec(8, 0, 0, early);
            req.extend_from_slice(&data);
            let Ok(mut s) = tokio::net::TcpStream::connect(proxy).await else { continue };
            let _ = s.set_nodelay(true);
            let _ = send_fragmented(&mut s, &req, &if one_segment { vec![] } else { vec![hlen] }).await;
            let mut acc = vec![];
            let mut b = [0u8; 1];
            while !acc.ends_with(b"\r\n\r\n") {
                match tokio::time::timeout(Duration::from_secs(5), s.read(&mut b)).await {
                    Ok(Ok(1)) => acc.push(b[0]),
                    _ => break,
                }
            }
            if !acc.starts_with(b"HTTP/1.1 200") {
                rep.violation("C17:connect-refused", &format!("{name}: reply {:?}", String::from_utf8_lossy(&acc)), json!({"engine": "LX", "case": name}));
                continue;
            }
            // 200 was sent: the tunnel must exist (the origin has a connection)
            if origin.wait(0, 2000, |_| true).await.is_none() {
                rep.violation("C17:connect-200-without-tunnel", &name, json!({"engine": "LX", "case": name}));
            }
            let _ = s.write_all(b"|later").await;
            let mut want = data.clone();
            want.extend_from_slice(b"|later");
            let t = origin.wait(0, 2000, |t| t.received.len() >= want.len()).await;
            let got = t.map(|t| t.received).unwrap_or_default();
            if got != want {
                let k = if got.len() < want.len() { "C17:connect-early-bytes-dropped" } else { "C17:connect-bytes-duplicated" };
                rep.violation(k, &format!("{name}: the origin received {} bytes ({:?}…), the client sent {} after the header", got.len(), String::from_utf8_lossy(&got[..got.len().min(12)]), want.len()), json!({"engine": "LX", "case": name}));
            }
        }
    }
    // ---- non-CONNECT requests with bodies of every interesting size arriving in many writes, against an ECHOING origin:
    //      the origin receives the body exactly, and everything the origin sends back reaches the client exactly
    {
        let origin = start_target("127.0.0.1", TargetMode::Echo, vec![]).await;
        let mut sizes: Vec<(usize, bool)> = (if thorough { vec![0usize, 1, 1023, 1024, 1025, 8191, 8192, 8193, 65535, 65536, 65537, 300_000, 1_000_000] } else { vec![0usize, 1, 1024, 8192, 8193, 65536, 300_000] }).into_iter().map(|n| (n, false)).collect();
        // the client closes its sending side once the request is out and waits for the answer (HTTP/1.0 style clients)
        sizes.extend([(0usize, true), (1024, true), (65536, true), (300_000, true)]);
        for (ci, (n, half_close)) in sizes.into_iter().enumerate() {
            let name = format!("POST with a {n}-byte body in 1000-byte writes to an echoing origin{}", if half_close { ", client half-closes after the request" } else { "" });
            rep.case(Some(&name));
            let head = format!("POST http://{}/b HTTP/1.1\r\nHost: {}\r\nContent-Length: {n}\r\n\r\n", origin.addr, origin.addr);
            let body = pat_vec(90 + ci as u8, 0, 0, n);
            let Ok(mut s) = tokio::net::TcpStream::connect(proxy).await else { continue };
            let _ = s.set_nodelay(true);
            let (mut rd, mut wr) = s.split();
            let idx = origin.accepted();
            let writer = async {
                let _ = wr.write_all(head.as_bytes()).await;
                for ch in body.chunks(1000) {
                    let _ = wr.write_all(ch).await;
                }
                let _ = wr.flush().await;
                if half_close {
                    let _ = wr.shutdown().await;
                }
            };
            let reader = async {
                let mut got: Vec<u8> = vec![];
                let mut buf = vec![0u8; 65536];
                loop {
                    let done = got.windows(4).position(|w| w == b"\r\n\r\n").map(|p| got.len() - (p + 4) >= n).unwrap_or(false);
                    if done {
                        break;
                    }
                    match tokio::time::timeout(Duration::from_secs(5), rd.read(&mut buf)).await {
                        Ok(Ok(k)) if k > 0 => got.extend_from_slice(&buf[..k]),
                        _ => break,
                    }
                }
                got
            };
            let (_, echoed) = tokio::join!(writer, reader);
            let at_origin = origin.wait(idx, 3000, |t| t.received.windows(4).position(|w| w == b"\r\n\r\n").map(|p| t.received.len() - (p + 4) >= n).unwrap_or(false)).await.map(|t| t.received).unwrap_or_default();
            let split = |v: &[u8]| -> Option<(Vec<u8>, Vec<u8>)> { v.windows(4).position(|w| w == b"\r\n\r\n").map(|p| (v[..p + 4].to_vec(), v[p + 4..].to_vec())) };
            match split(&at_origin) {
                None => rep.violation("C17:forwarded-request-altered", &format!("{name}: the origin received {} bytes without a header terminator", at_origin.len()), json!({"engine": "LX", "case": name})),
                Some((h, b)) => {
                    if b != body {
                        let first_bad = b.iter().zip(body.iter()).position(|(x, y)| x != y).unwrap_or(b.len().min(body.len()));
                        rep.violation("C17:body-bytes-not-forwarded-exactly-once", &format!("{name}: the origin received {} body bytes, first difference at offset {first_bad}", b.len()), json!({"engine": "LX", "case": name}));
                    }
                    if !h.starts_with(b"POST /b HTTP/1.1\r\n") {
                        rep.violation("C17:forwarded-request-altered", &format!("{name}: forwarded header starts {:?}", String::from_utf8_lossy(&h[..h.len().min(40)])), json!({"engine": "LX", "case": name}));
                    }
                    if echoed != at_origin {
                        let first_bad = echoed.iter().zip(at_origin.iter()).position(|(x, y)| x != y).unwrap_or(echoed.len().min(at_origin.len()));
                        rep.violation("C17:response-bytes-altered", &format!("{name}: the origin sent back {} bytes, the client received {}, first difference at offset {first_bad}", at_origin.len(), echoed.len()), json!({"engine": "LX", "case": name}));
                    }
                }
            }
        }
    }
    // CONNECT that cannot succeed (refusing port, unresolvable name) x {no early bytes, early bytes in the same segment,
    // early bytes in a later segment}: never a 200, and the early bytes go nowhere
    {
        let (port, _g) = refusing_port("127.0.0.1");
        for (tname, authority) in [("a refusing port", format!("127.0.0.1:{port}")), ("an unresolvable name", "nonexistent.invalid:80".to_string())] {
            for (ename, early, one_segment) in [("no early bytes", 0usize, true), ("5 early bytes in the same segment", 5, true), ("700 early bytes in the same segment", 700, true), ("700 early bytes in a later segment", 700, false)] {
                let name = format!("CONNECT to {tname}, {ename}");
                rep.case(Some(&name));
                let mut req = format!("CONNECT {authority} HTTP/1.1\r\nHost: {authority}\r\n\r\n").into_bytes();
                let hlen = req.len();
                req.extend(std::iter::repeat(b'E').take(early));
                let cuts = if one_segment || early == 0 { vec![] } else { vec![hlen] };
                let (resp, _) = http_exchange(proxy, &req, &cuts, 35_000).await;
                if resp.starts_with(b"HTTP/1.1 200") || resp.windows(12).any(|w| w == b"HTTP/1.1 200") {
                    rep.violation("C17:connect-200-without-tunnel", &format!("{name}: {:?}", String::from_utf8_lossy(&resp[..resp.len().min(80)])), json!({"engine": "LX", "case": name}));
                }
            }
        }
    }
    // CONNECT to a refusing port: no 200
    {
        let (port, _g) = refusing_port("127.0.0.1");
        let name = "CONNECT to a refusing port";
        rep.case(Some(name));
        let req = format!("CONNECT 127.0.0.1:{port} HTTP/1.1\r\nHost: 127.0.0.1:{port}\r\n\r\n");
        let (resp, _) = http_exchange(proxy, req.as_bytes(), &[], 35_000).await;
        if resp.starts_with(b"HTTP/1.1 200") {
            rep.violation("C17:connect-200-without-tunnel", &format!("{name}: {:?}", String::from_utf8_lossy(&resp[..resp.len().min(40)])), json!({"engine": "LX", "case": name}));
        }
    }
    // ---- plain forwarding end to end for each host spelling of the Host header
    for hn in ["Host", "host", "HOST"] {
        let origin = start_target("127.0.0.1", TargetMode::Sink, vec![]).await;
        let name = format!("origin-form request with '{hn}:' header");
        rep.case(Some(&name));
        let req = format!("POST /submit?x=1 HTTP/1.1\r\n{hn}: {}\r\nContent-Length: 5\r\n\r\nhello", origin.addr);
        let (_resp, _) = http_exchange(proxy, req.as_bytes(), &[], 80).await;
        match origin.wait(0, 1500, |t| t.received.ends_with(b"hello")).await {
            Some(t) if t.received.starts_with(b"POST /submit?x=1 HTTP/1.1\r\n") && t.received.ends_with(b"\r\n\r\nhello") => {}
            other => rep.violation("C17:request-not-forwarded-to-host-header-authority", &format!("{name}: origin received {:?}", other.map(|t| String::from_utf8_lossy(&t.received).to_string())), json!({"engine": "LX", "case": name})),
        }
    }
    Ok(())
}

/// Requests that arrive in two pieces with a long silence between them (current-thread runtime, clock jumped).
async fn lx_gaps(rep: &mut Report, thorough: bool) -> Result<(), String> {
    let lx = start_lx("pw", "pw", pool_cfg(3600, 3600, 1), false, true).await?;
    let proxy = lx.http.unwrap();
    let echo = start_target("127.0.0.1", TargetMode::Echo, vec![]).await;
    for gap in if thorough { vec![31u64, 61, 301] } else { vec![31u64, 301] } {
        // ---- a POST with a body: cuts inside the request line, inside the terminator, between header and body, inside the body
        let origin = start_target("127.0.0.1", TargetMode::Sink, vec![]).await;
        let head = format!("POST http://{}/g HTTP/1.1\r\nHost: {}\r\nContent-Length: 9\r\n\r\n", origin.addr, origin.addr);
        let hlen = head.len();
        let body = b"123456789";
        let mut req = head.into_bytes();
        req.extend_from_slice(body);
        for (ci, cut) in [1usize, 5, 30, hlen - 3, hlen - 1, hlen, hlen + 4].into_iter().enumerate() {
            let name = format!("POST ({hlen}-byte header + 9 body bytes) cut at {cut} with {gap} s of silence");
            rep.case(Some(&name));
            let before = origin.accepted();
            let Ok(mut s) = tokio::net::TcpStream::connect(proxy).await else { continue };
            let _ = s.set_nodelay(true);
            let _ = send_fragmented_gap(&mut s, &req, &[cut], gap).await;
            let idx = before;
            let got = origin.wait(idx, 1500, |t| t.received.ends_with(body)).await;
            let _ = ci;
            match got {
                None => rep.violation("C17:request-broken-by-pause-between-fragments", &format!("{name}: the origin was never contacted"), json!({"engine": "LX", "case": name})),
                Some(t) => {
                    let text = String::from_utf8_lossy(&t.received).to_string();
                    let ok_head = text.starts_with("POST /g HTTP/1.1\r\n") && text.contains("Content-Length: 9\r\n");
                    let b = t.received.windows(4).position(|w| w == b"\r\n\r\n").map(|p| t.received[p + 4..].to_vec());
                    if !ok_head || b.as_deref() != Some(&body[..]) {
                        rep.violation("C17:request-broken-by-pause-between-fragments", &format!("{name}: origin received {:?}", &text[..text.len().min(120)]), json!({"engine": "LX", "case": name}));
                    }
                }
            }
        }
        // ---- CONNECT: cut inside the header, then the tunnel must work
        let creq = format!("CONNECT {} HTTP/1.1\r\nHost: {}\r\n\r\n", echo.addr, echo.addr).into_bytes();
        for cut in [3usize, creq.len() - 2] {
            let name = format!("CONNECT cut at {cut} with {gap} s of silence");
            rep.case(Some(&name));
            let Ok(mut s) = tokio::net::TcpStream::connect(proxy).await else { continue };
            let _ = s.set_nodelay(true);
            let _ = send_fragmented_gap(&mut s, &creq, &[cut], gap).await;
            let mut resp = vec![];
            let mut buf = [0u8; 256];
            while !resp.windows(4).any(|w| w == b"\r\n\r\n") {
                match tokio::time::timeout(Duration::from_millis(3000), s.read(&mut buf)).await {
                    Ok(Ok(n)) if n > 0 => resp.extend_from_slice(&buf[..n]),
                    _ => break,
                }
            }
            let ok200 = resp.starts_with(b"HTTP/1.1 200");
            let _ = s.write_all(b"ping-after-gap").await;
            let mut echo_back = vec![];
            while echo_back.len() < 14 {
                match tokio::time::timeout(Duration::from_millis(2000), s.read(&mut buf)).await {
                    Ok(Ok(n)) if n > 0 => echo_back.extend_from_slice(&buf[..n]),
                    _ => break,
                }
            }
            if !ok200 || echo_back != b"ping-after-gap" {
                rep.violation("C17:request-broken-by-pause-between-fragments", &format!("{name}: answer {:?}, echo through the tunnel {:?}", String::from_utf8_lossy(&resp[..resp.len().min(40)]), String::from_utf8_lossy(&echo_back)), json!({"engine": "LX", "case": name}));
            }
        }
    }
    Ok(())
}

pub fn run(tier: Tier) -> i32 {
    let mut rep = Report::new("C17", tier, "exploration");
    let thorough = tier.is_thorough();
    rep.assumptions = vec![
        "reference resolver/rewriter written from RFC 7230 section 5 (CONNECT authority; absolute-URI authority; otherwise the Host header, field names case-insensitive; default ports 80/443; bracketed IPv6); hosts compare ASCII-case-insensitively, IP literals as addresses".into(),
        "the forwarded Host value may be spelled freely as long as it denotes the same authority (for an https:// absolute URI either default port is accepted)".into(),
        "requests without a version and lower-case 'connect' are not well-formed proxy requests (C20 inputs)".into(),
    ];
    ix(&mut rep, thorough);
    let rt = rt_multi();
    if let Err(e) = rt.block_on(lx_part(&mut rep, thorough)) {
        rep.machinery(format!("LX: {e}"));
    }
    drop(rt);
    if let Err(e) = tokio::runtime::Builder::new_current_thread().enable_all().build().unwrap().block_on(lx_gaps(&mut rep, thorough)) {
        rep.machinery(format!("LX (gaps): {e}"));
    }
    crate::lx::speaks_first_pass(&mut rep, "C17", "http", tier.is_thorough());
    crate::cworld::front_end_fault_pass(&mut rep, "C17", "http", "CONNECT");
    crate::cworld::front_end_fault_pass(&mut rep, "C17", "http", "POST");
    rep.finish("IX on the real parse/rewrite functions vs an independent reference: {GET,POST,PUT,OPTIONS,CONNECT} x target forms {origin, '*', absolute http/https with and without path, authority} x 5 host spellings (names, IPv4, bracketed IPv6) x ports {none,80,443,8080,65535} x Host header {absent, 4 case spellings with/without space, differing from the URI} at every position among 0-2 other headers (duplicates, a name starting with 'host') x versions x body prefixes; LX: header blocks of 65000/65536/65537 bytes with body bytes in the same or a later segment, CONNECT ordering and early bytes, refusing target, origin-form requests per Host spelling, requests arriving in two pieces with 31 / 301 s of silence between them, bodies of 0..300 000 (1 000 000) bytes in many writes to an echoing origin (body at the origin and response at the client byte-identical); non-trivial = distinct case")
}
