//! C10 — opening a stream reports the server's verdict exactly once.
//! DX on the real Client::create_proxy_stream with a pool-injected in-memory
//! session and a scripted server (virtual time); SEMI for the server half
//! (real TcpProxyHandler dialling loopback targets).

use crate::ctl::{Outcome, ScenarioFn, hpoint, scenario};
use crate::dxrun::{DxItem, DxOpts, run_items};
use crate::refmodel::*;
use crate::report::{Report, Tier};
use crate::sess::*;
use crate::vpipe::{PipeCfg, ReadFault};
use anytls_rs::client::{Client, SessionPoolConfig};
use serde_json::json;
use std::collections::HashMap;
use std::sync::{Arc, Mutex};
use std::time::Duration;
use tokio_rustls::rustls::pki_types::ServerName;

#[derive(Clone, Debug, PartialEq)]
pub enum Beh {
    Ok,
    Err(&'static str),
    Nothing,
    /// two answers for the same id, the second 10 ms later
    Dup(bool, bool),
    /// an answer for an id nobody opened, then silence
    UnknownId,
    /// an answer (ok) for the *other* racing stream's id only
    DeathEof,
    DeathReset,
    DeathAlert,
    /// the session's owner (pool housekeeping, liveness monitor, application) calls close()
    OwnerClose,
}

#[derive(Clone, Debug)]
pub struct Params {
    /// behaviour per requested port (1001, 1002)
    pub beh: Vec<Beh>,
    pub at_ms: Vec<u64>,
    pub racing: bool,
    pub server_settings: bool,
    /// once the open request is on the wire the client-to-server direction stalls: the peer stops
    /// reading and the transport accepts no more bytes (no error either) — a black-holed uplink
    pub stall_uplink: bool,
    /// with `stall_uplink`: 500 ms after the request another task writes on the session and parks inside the
    /// transport write (holding the session's writer) because nothing is accepted any more
    pub parked_writer: bool,
}

pub fn make_client(p: Params) -> anytls_rs::Result<Arc<Client>> {
    let cfg = anytls_rs::util::tls::create_client_config()?;
    let connector = Arc::new(tokio_rustls::TlsConnector::from(cfg));
    let pool = SessionPoolConfig {
        check_interval: Duration::from_secs(36000),
        idle_timeout: Duration::from_secs(36000),
        min_idle_sessions: 1,
    };
    let _ = p;
    Ok(Arc::new(Client::with_pool_config(
        "pw",
        "127.0.0.1:1".to_string(),
        ServerName::try_from("localhost").unwrap(),
        connector,
        padding(STOP0),
        pool,
    )))
}

fn classify(r: &anytls_rs::Result<()>) -> (String, String) {
    match r {
        Ok(()) => ("ok".into(), String::new()),
        Err(e) => {
            let m = e.to_string();
            let c = if m.contains("timeout") { "timeout" } else if m.contains("Server error") || m.contains("no-route") { "server-error" } else { "error" };
            (c.into(), m)
        }
    }
}

pub fn make(p: Params) -> ScenarioFn {
    scenario(move || {
        let p = p.clone();
        async move {
            let mut out = Outcome::default();
            let t0 = tokio::time::Instant::now();
            // a request that finds its session already dead falls back to dialling a new connection: there is no
            // network here, the dial is refused (H12 seam; the runtime has no I/O driver)
            let _ = anytls_rs::verif::install_dialer(Some(std::rc::Rc::new(|_addr: &str| Some(Err(std::io::Error::new(std::io::ErrorKind::ConnectionRefused, "no network in this scenario"))))));
            let mut link = peer_link(PipeCfg::new("s2c"), PipeCfg::new("c2s"));
            let inj = link.peer.inj.clone();
            let sess = match start_client_session(link.sess_r, link.sess_w, padding(STOP0), None, 1).await {
                Ok(s) => s,
                Err(e) => {
                    out.viol("C10:start-failed", format!("{e}"));
                    return out;
                }
            };
            let client = match make_client(p.clone()) {
                Ok(c) => c,
                Err(e) => {
                    out.viol("harness:client", format!("{e}"));
                    return out;
                }
            };
            // scripted server
            let pp = p.clone();
            let sess_for_peer = sess.clone();
            let peer_task = tokio::spawn(async move {
                let mut seen: HashMap<u32, bool> = HashMap::new();
                let mut pending = vec![];
                loop {
                    let Some(f) = link.peer.next_frame().await else {
                        link.peer.close_write();
                        break;
                    };
                    match f.cmd {
                        SETTINGS => {
                            if pp.server_settings {
                                link.peer.send(SERVER_SETTINGS, 0, b"v=2");
                            }
                        }
                        PSH if !seen.contains_key(&f.id) => {
                            seen.insert(f.id, true);
                            if f.data.len() < 2 {
                                continue;
                            }
                            let port = u16::from_be_bytes([f.data[f.data.len() - 2], f.data[f.data.len() - 1]]);
                            let idx = (port as usize).saturating_sub(1001).min(pp.beh.len() - 1);
                            let beh = pp.beh[idx].clone();
                            let at = pp.at_ms[idx];
                            let inj = link.peer.inj.clone();
                            let id = f.id;
                            let stall_now = pp.stall_uplink;
                            let sess_c = sess_for_peer.clone();
                            if pp.parked_writer {
                                let sess_w = sess_for_peer.clone();
                                pending.push(tokio::spawn(async move {
                                    tokio::time::sleep(Duration::from_millis(500)).await;
                                    let _ = sess_w.write_control_frame(anytls_rs::protocol::Frame::control(anytls_rs::protocol::Command::HeartRequest, 0)).await;
                                }));
                            }
                            pending.push(tokio::spawn(async move {
                                if at == u64::MAX {
                                    return;
                                }
                                tokio::time::sleep(Duration::from_millis(at)).await;
                                match beh {
                                    Beh::Ok => inj.push(&enc(SYNACK, id, b"")),
                                    Beh::Err(t) => inj.push(&enc(SYNACK, id, t.as_bytes())),
                                    Beh::Nothing => {}
                                    Beh::Dup(a, b) => {
                                        inj.push(&enc(SYNACK, id, if a { b"" } else { b"no-route first" }));
                                        tokio::time::sleep(Duration::from_millis(10)).await;
                                        inj.push(&enc(SYNACK, id, if b { b"" } else { b"no-route second" }));
                                    }
                                    Beh::UnknownId => inj.push(&enc(SYNACK, id + 100, b"")),
                                    Beh::DeathEof => inj.close_write(),
                                    Beh::DeathReset => inj.set_read_fault(0, ReadFault::Reset),
                                    Beh::DeathAlert => inj.push(&enc(ALERT, 0, b"bye")),
                                    Beh::OwnerClose => {
                                        let _ = sess_c.close().await;
                                    }
                                }
                            }));
                            if stall_now {
                                link.peer.out.set_capacity(1);
                                break;
                            }
                        }
                        _ => {}
                    }
                }
                std::future::pending::<()>().await;
            });
            let _ = inj;
            // openers
            let results: Arc<Mutex<Vec<Option<(u64, String, String, Option<u32>)>>>> = Arc::new(Mutex::new(vec![None; 2]));
            let n = if p.racing { 2 } else { 1 };
            let mut hs = vec![];
            for t in 0..n {
                let client = client.clone();
                let sess = sess.clone();
                let results = results.clone();
                hs.push(tokio::spawn(async move {
                    hpoint("h.c10.start").await;
                    // the state client.rs creates: the session sits in the pool while its creator uses it
                    client.verif_session_pool().add_idle_session(sess.clone()).await;
                    let started = tokio::time::Instant::now();
                    let r = tokio::time::timeout(Duration::from_secs(7200), client.create_proxy_stream(("example.com".to_string(), 1001 + t as u16))).await;
                    let el = started.elapsed().as_millis() as u64;
                    match r {
                        Err(_) => {
                            results.lock().unwrap()[t] = Some((el, "blocked".into(), String::new(), None));
                        }
                        Ok(r) => {
                            let id = r.as_ref().ok().map(|(st, _)| st.id());
                            let (c, m) = classify(&r.map(|_| ()));
                            results.lock().unwrap()[t] = Some((el, c, m, id));
                        }
                    }
                }));
            }
            for h in hs {
                let _ = h.await;
            }
            let _ = t0;
            peer_task.abort();
            // ---- oracle
            let res = results.lock().unwrap().clone();
            let mut obs = vec![];
            for t in 0..n {
                let Some((el, class, msg, _id)) = res[t].clone() else {
                    out.viol("C10:open-never-returned", format!("opener {t} produced no result"));
                    continue;
                };
                obs.push(format!("t{t}:{class}@{el}"));
                let beh = &p.beh[t.min(p.beh.len() - 1)];
                let at = p.at_ms[t.min(p.at_ms.len() - 1)];
                if class == "blocked" {
                    out.viol("C10:open-blocks", format!("opener {t}: create_proxy_stream did not return within 2 h of virtual time ({beh:?} at {at} ms)"));
                    continue;
                }
                // a session death caused by the *other* opener's behaviour also ends this open
                let other_death = p.racing
                    && p.beh.iter().enumerate().any(|(i, b)| i != t && matches!(b, Beh::DeathEof | Beh::DeathReset | Beh::DeathAlert | Beh::OwnerClose) && p.at_ms[i] <= 30_000);
                let mut allowed: Vec<&str> = vec![];
                let before = at < 30_000;
                let tie = at == 30_000 || (at == 29_990 && matches!(beh, Beh::Dup(..)));
                match beh {
                    Beh::Ok => {
                        if before || tie { allowed.push("ok"); }
                        if !before || tie { allowed.push("timeout"); }
                    }
                    Beh::Err(_) => {
                        if before || tie { allowed.push("server-error"); }
                        if !before || tie { allowed.push("timeout"); }
                    }
                    Beh::Nothing | Beh::UnknownId => allowed.push("timeout"),
                    Beh::Dup(a, _) => {
                        if before || tie { allowed.push(if *a { "ok" } else { "server-error" }); }
                        if !before || tie { allowed.push("timeout"); }
                    }
                    Beh::DeathEof | Beh::DeathReset | Beh::DeathAlert | Beh::OwnerClose => {
                        if before || tie { allowed.push("error"); allowed.push("server-error"); }
                        if !before || tie { allowed.push("timeout"); }
                    }
                }
                if other_death {
                    allowed.push("error");
                    allowed.push("server-error");
                }
                if !allowed.contains(&class.as_str()) {
                    let key = match (class.as_str(), beh) {
                        ("ok", _) => "C10:success-without-server-ok",
                        ("timeout", _) => "C10:verdict-lost",
                        (_, Beh::Ok) | (_, Beh::Dup(true, _)) => "C10:success-reported-as-failure",
                        _ => "C10:wrong-verdict",
                    };
                    out.viol(key, format!("opener {t} (port {}): server behaviour {beh:?} at {at} ms, create_proxy_stream returned {class} ({msg}) after {el} ms; allowed {allowed:?}", 1001 + t));
                    continue;
                }
                // the server's reason is reported
                if class == "server-error" {
                    let want = match beh {
                        Beh::Err(t) => Some(*t),
                        Beh::Dup(false, _) => Some("no-route first"),
                        _ => None,
                    };
                    if let Some(w) = want
                        && !msg.contains(w)
                    {
                        out.viol("C10:server-reason-lost", format!("opener {t}: server said {w:?}, caller got {msg:?}"));
                    }
                }
                // timing: a timeout is reported at 30 s; any other verdict no later than the event deciding it
                if class == "timeout" {
                    if !(29_999..=30_100).contains(&el) {
                        out.viol("C10:timeout-at-wrong-time", format!("opener {t}: timeout reported after {el} ms"));
                    }
                } else if el > 30_100 || (!other_death && el > at.saturating_add(200)) {
                    out.viol("C10:verdict-late", format!("opener {t}: verdict {class} decided at {at} ms but reported after {el} ms"));
                }
            }
            out.obs = obs.join(" ");
            out
        }
    })
}

pub fn params_json(p: &Params) -> serde_json::Value {
    json!({"beh": p.beh.iter().map(|b| format!("{b:?}")).collect::<Vec<_>>(), "at_ms": p.at_ms.iter().map(|a| if *a == u64::MAX { -1 } else { *a as i64 }).collect::<Vec<_>>(), "racing": p.racing, "server_settings": p.server_settings, "stall_uplink": p.stall_uplink, "parked_writer": p.parked_writer})
}

pub fn all_params(tier: Tier) -> Vec<(Params, usize)> {
    let thorough = tier.is_thorough();
    let mut v = vec![];
    let behs = vec![
        Beh::Ok,
        Beh::Err("no-route to host"),
        Beh::Nothing,
        Beh::Dup(true, true),
        Beh::Dup(true, false),
        Beh::Dup(false, true),
        Beh::UnknownId,
        Beh::DeathEof,
        Beh::DeathReset,
        Beh::DeathAlert,
        Beh::OwnerClose,
    ];
    let times = [0u64, 1000, 29_999, 30_000, 30_001, u64::MAX];
    // single opener: full timing grid
    for b in &behs {
        for t in times {
            if *b == Beh::Nothing && t != 0 {
                continue;
            }
            for ss in [true, false] {
                if !ss && !(t == 0 || t == 1000) {
                    continue;
                }
                let bound = if t <= 1000 { if thorough { 2 } else { 1 } } else { 0 };
                let t = if matches!(b, Beh::Dup(..)) && t == 29_999 { 29_990 } else { t };
                v.push((Params { beh: vec![b.clone()], at_ms: vec![t], racing: false, server_settings: ss, stall_uplink: false, parked_writer: false }, bound));
            }
        }
    }
    // black-holed uplink once the request is out: the verdict (or the timeout) must still be reported
    for (b, t) in [(Beh::Nothing, 0u64), (Beh::Ok, 1000), (Beh::Err("no-route to host"), 1000), (Beh::Ok, 29_999), (Beh::Ok, 30_001), (Beh::UnknownId, 0), (Beh::Dup(true, false), 1000)] {
        v.push((Params { beh: vec![b.clone()], at_ms: vec![t], racing: false, server_settings: true, stall_uplink: true, parked_writer: false }, if t <= 1000 { 1 } else { 0 }));
    }
    // the session dies (for every cause) while the uplink is black-holed, without and with another task parked inside
    // the transport write: the waiting open must be told at once
    for b in [Beh::OwnerClose, Beh::DeathEof, Beh::DeathReset, Beh::DeathAlert] {
        for pw in [false, true] {
            v.push((Params { beh: vec![b.clone()], at_ms: vec![1000], racing: false, server_settings: true, stall_uplink: true, parked_writer: pw }, 1));
        }
    }
    // two racing opens on the same session
    for a in &behs {
        for b in &behs {
            for (ta, tb) in [(0u64, 0u64), (1000, 0), (0, 1000)] {
                if !thorough && (ta, tb) != (0, 0) && !(matches!(a, Beh::Ok) || matches!(b, Beh::Ok)) {
                    continue;
                }
                v.push((Params { beh: vec![a.clone(), b.clone()], at_ms: vec![ta, tb], racing: true, server_settings: true, stall_uplink: false, parked_writer: false }, if thorough { 2 } else { 1 }));
            }
        }
    }
    v
}

pub fn items(tier: Tier) -> Vec<DxItem> {
    all_params(tier).into_iter().map(|(p, b)| DxItem::new(params_json(&p), make(p), b)).collect()
}

pub fn run(tier: Tier) -> i32 {
    let mut rep = Report::new("C10", tier, "model_checking");
    rep.assumptions = vec![
        "client half: the real Client::create_proxy_stream runs on a session placed in the client's pool through the H4 accessor (no TCP/TLS); the scripted server is a v2 peer".into(),
        "reference model: the first of {answer for this id, session death, 30 s} wins; an answer at exactly 30 000 ms may go either way".into(),
        "server half (SEMI): real time, real loopback sockets, one schedule per case, timing-independent oracle".into(),
    ];
    let cap = Duration::from_secs(if tier.is_thorough() { 1200 } else { 60 });
    run_items(&mut rep, "C10", tier, items(tier), DxOpts { time_cap: cap, det_replays: 1, max_violations: 2, vacuity_check: false });
    crate::props::c10semi::server_half(&mut rep, tier);
    rep.finish("DX: {10 server behaviours} x {answer at 0, 1 s, 29.999 s, 30 s, 30.001 s, never} x {1 opener, 2 racing openers with every pair of behaviours} (+ a black-holed uplink once the request is out) with <= B scheduling deviations on the real create_proxy_stream; SEMI: real TcpProxyHandler against accepting / refusing targets for peer versions {none,1,2}; non-trivial = distinct trace with >= 1 deviation / distinct SEMI case")
}

pub fn replay(file: &str) -> i32 {
    crate::dxrun::replay(file, items)
}
