//! C18 — certificate hot-reload is all-or-nothing.
//! BX / fault enumeration on the real CertReloader with real files, real
//! in-memory TLS handshakes against the current acceptor after every step.

use crate::par::par_map;
use crate::report::{Report, Tier, verif_dir};
use anytls_rs::util::{CertReloader, CertReloaderConfig};
use serde_json::json;
use std::cell::RefCell;
use std::path::{Path, PathBuf};
use std::sync::{Arc, Mutex};
use std::time::Duration;
use tokio::io::{AsyncReadExt, AsyncWriteExt};
use tokio_rustls::rustls;

#[derive(Clone)]
pub struct Material {
    name: &'static str,
    cert_pem: String,
    key_pem: String,
    der: Vec<u8>,
    serial_hex: String,
    expired: bool,
    /// what get_cert_info() must report for this certificate: serial | not-after (unix seconds) | subject CN
    info_key: String,
}

fn make_material(name: &'static str, serial: u64, not_before_days: i64, not_after_days: i64) -> Material {
    make_material_with(name, serial, not_before_days, not_after_days, None)
}

/// `key_of`: re-use the key of an existing material (a renewal that keeps the key)
fn make_material_with(name: &'static str, serial: u64, not_before_days: i64, not_after_days: i64, key_of: Option<&Material>) -> Material {
    let mut params = rcgen::CertificateParams::new(vec!["localhost".to_string()]).expect("params");
    let now = time::OffsetDateTime::now_utc();
    params.not_before = now + time::Duration::days(not_before_days);
    params.not_after = now + time::Duration::days(not_after_days);
    params.serial_number = Some(rcgen::SerialNumber::from(serial));
    params.distinguished_name = rcgen::DistinguishedName::new();
    params.distinguished_name.push(rcgen::DnType::CommonName, format!("cn-{name}"));
    let info_key = format!("{:x}|{}|cn-{name}", serial, params.not_after.unix_timestamp());
    let key = match key_of {
        Some(m) => rcgen::KeyPair::from_pem(&m.key_pem).expect("key from pem"),
        None => rcgen::KeyPair::generate().expect("key"),
    };
    let cert = params.self_signed(&key).expect("cert");
    Material {
        name,
        cert_pem: cert.pem(),
        key_pem: match key_of {
            Some(m) => m.key_pem.clone(),
            None => key.serialize_pem(),
        },
        der: cert.der().to_vec(),
        serial_hex: format!("{:x}", serial),
        expired: not_after_days < 0,
        info_key,
    }
}

// ---------------------------------------------------------------- handshake probe

#[derive(Debug)]
struct Recorder(Mutex<Option<Vec<u8>>>);

impl rustls::client::danger::ServerCertVerifier for Recorder {
    fn verify_server_cert(&self, end_entity: &rustls::pki_types::CertificateDer<'_>, _i: &[rustls::pki_types::CertificateDer<'_>], _n: &rustls::pki_types::ServerName<'_>, _o: &[u8], _t: rustls::pki_types::UnixTime) -> Result<rustls::client::danger::ServerCertVerified, rustls::Error> {
        *self.0.lock().unwrap() = Some(end_entity.as_ref().to_vec());
        Ok(rustls::client::danger::ServerCertVerified::assertion())
    }
    fn verify_tls12_signature(&self, m: &[u8], c: &rustls::pki_types::CertificateDer<'_>, d: &rustls::DigitallySignedStruct) -> Result<rustls::client::danger::HandshakeSignatureValid, rustls::Error> {
        rustls::crypto::verify_tls12_signature(m, c, d, &rustls::crypto::aws_lc_rs::default_provider().signature_verification_algorithms)
    }
    fn verify_tls13_signature(&self, m: &[u8], c: &rustls::pki_types::CertificateDer<'_>, d: &rustls::DigitallySignedStruct) -> Result<rustls::client::danger::HandshakeSignatureValid, rustls::Error> {
        rustls::crypto::verify_tls13_signature(m, c, d, &rustls::crypto::aws_lc_rs::default_provider().signature_verification_algorithms)
    }
    fn supported_verify_schemes(&self) -> Vec<rustls::SignatureScheme> {
        rustls::crypto::aws_lc_rs::default_provider().signature_verification_algorithms.supported_schemes()
    }
}

type TlsPair = (tokio_rustls::client::TlsStream<tokio::io::DuplexStream>, tokio_rustls::server::TlsStream<tokio::io::DuplexStream>);

/// Handshake against the reloader's current acceptor; returns the presented leaf (and the live connection).
async fn handshake(reloader: &CertReloader) -> Result<(Vec<u8>, TlsPair), String> {
    let rec = Arc::new(Recorder(Mutex::new(None)));
    let cfg = rustls::ClientConfig::builder().dangerous().with_custom_certificate_verifier(rec.clone()).with_no_client_auth();
    let connector = tokio_rustls::TlsConnector::from(Arc::new(cfg));
    let acceptor = reloader.get_acceptor();
    let (a, b) = tokio::io::duplex(16384);
    let srv = tokio::spawn(async move { acceptor.accept(b).await });
    let cli = connector.connect(rustls::pki_types::ServerName::try_from("localhost").unwrap(), a).await.map_err(|e| format!("client handshake: {e}"))?;
    let srv = srv.await.map_err(|e| e.to_string())?.map_err(|e| format!("server handshake: {e}"))?;
    let leaf = rec.0.lock().unwrap().clone().ok_or("no certificate presented")?;
    Ok((leaf, (cli, srv)))
}

async fn probe(conn: &mut TlsPair) -> bool {
    let (c, s) = conn;
    if c.write_all(b"ping").await.is_err() || c.flush().await.is_err() {
        return false;
    }
    let mut b = [0u8; 4];
    matches!(tokio::time::timeout(std::time::Duration::from_secs(2), s.read_exact(&mut b)).await, Ok(Ok(_))) && &b == b"ping"
}

// ---------------------------------------------------------------- operations

#[derive(Clone, Copy, Debug, PartialEq, Eq, Hash)]
pub enum Op {
    WriteCert(usize),
    WriteKey(usize),
    /// truncate the cert / key file to `permille` of its current length
    TruncCert(u16),
    TruncKey(u16),
    GarbageCert,
    GarbageKey,
    DeleteCert,
    DeleteKey,
    /// the path is a DIRECTORY (reading it fails with an I/O error that is not 'not found')
    CertIsDir,
    KeyIsDir,
    Reload,
    /// certificate file and key file of one material written together
    WritePair(usize),
}

fn op_str(o: &Op, mats: &[Material]) -> String {
    match o {
        Op::WriteCert(i) => format!("write-cert({})", mats[*i].name),
        Op::WriteKey(i) => format!("write-key({})", mats[*i].name),
        Op::WritePair(i) => format!("write-cert+key({})", mats[*i].name),
        Op::TruncCert(p) => format!("truncate-cert({}‰)", p),
        Op::TruncKey(p) => format!("truncate-key({}‰)", p),
        Op::GarbageCert => "garbage-cert".into(),
        Op::GarbageKey => "garbage-key".into(),
        Op::DeleteCert => "delete-cert".into(),
        Op::DeleteKey => "delete-key".into(),
        Op::CertIsDir => "cert-path-is-a-directory".into(),
        Op::KeyIsDir => "key-path-is-a-directory".into(),
        Op::Reload => "reload".into(),
    }
}

thread_local! {
    /// (sync point name, action) — runs once when the reload on this thread reaches the point
    static MID: RefCell<Option<(&'static str, Box<dyn FnOnce()>)>> = const { RefCell::new(None) };
    /// how many more times the named point is passed before the action runs (0 = at the first arrival)
    static MID_SKIP: std::cell::Cell<usize> = const { std::cell::Cell::new(0) };
}

pub fn install_sync_hook() {
    anytls_rs::verif::install_sync(Some(Arc::new(|name: &'static str| {
        let act = MID.with(|m| {
            let mut g = m.borrow_mut();
            if g.as_ref().map(|x| x.0 == name).unwrap_or(false) {
                let skip = MID_SKIP.with(|c| c.get());
                if skip > 0 {
                    MID_SKIP.with(|c| c.set(skip - 1));
                    None
                } else {
                    g.take()
                }
            } else {
                None
            }
        });
        if let Some((_, f)) = act {
            f();
        }
    })));
}

struct State {
    dir: PathBuf,
    cert: PathBuf,
    key: PathBuf,
}

/// which material does the file content denote (complete PEM of X), if any?
fn denotes(content: &[u8], mats: &[Material], key: bool) -> Option<usize> {
    let text = String::from_utf8_lossy(content);
    // the complete file of a material
    for (i, m) in mats.iter().enumerate() {
        let pem = if key { &m.key_pem } else { &m.cert_pem };
        if text.trim() == pem.trim() {
            return Some(i);
        }
    }
    if key {
        for (i, m) in mats.iter().enumerate() {
            if text.trim_start().starts_with(m.key_pem.trim_end()) {
                return Some(i);
            }
        }
        return None;
    }
    // a certificate file whose first complete block is the leaf of a material (what follows — a truncated or complete
    // further block — does not change which certificate the file presents)
    const END: &str = "-----END CERTIFICATE-----";
    let first_block = |t: &str| -> Option<String> { t.find(END).map(|p| t[..p + END.len()].trim().to_string()) };
    let fb = first_block(&text)?;
    for (i, m) in mats.iter().enumerate() {
        let Some(mb) = first_block(&m.cert_pem) else { continue };
        // only materials whose first block IS their leaf
        let leaf_first = pem_block_der(&mb).map(|d| d == m.der).unwrap_or(false);
        if leaf_first && mb == fb {
            return Some(i);
        }
    }
    None
}

fn pem_block_der(block: &str) -> Option<Vec<u8>> {
    let b64: String = block.lines().filter(|l| !l.starts_with("-----")).collect::<Vec<_>>().join("");
    // minimal base64 decoder (standard alphabet, padding)
    let mut out = vec![];
    let mut acc = 0u32;
    let mut bits = 0u32;
    for c in b64.bytes() {
        let v = match c {
            b'A'..=b'Z' => c - b'A',
            b'a'..=b'z' => c - b'a' + 26,
            b'0'..=b'9' => c - b'0' + 52,
            b'+' => 62,
            b'/' => 63,
            b'=' => break,
            _ => continue,
        } as u32;
        acc = (acc << 6) | v;
        bits += 6;
        if bits >= 8 {
            bits -= 8;
            out.push((acc >> bits) as u8);
            acc &= (1 << bits) - 1;
        }
    }
    Some(out)
}

#[derive(Clone, Debug, PartialEq)]
struct Snapshot {
    leaf: Vec<u8>,
    info_serial: Option<String>,
    count: u64,
    last: Option<std::time::Instant>,
}

async fn snapshot(r: &CertReloader) -> Result<(Snapshot, TlsPair), String> {
    let (leaf, conn) = handshake(r).await?;
    Ok((Snapshot { leaf, info_serial: r.get_cert_info().map(|i| {
        let serial = i.serial_number.to_lowercase().replace(':', "").trim_start_matches('0').to_string();
        let not_after = i.not_after.duration_since(std::time::UNIX_EPOCH).map(|d| d.as_secs() as i64).unwrap_or(-1);
        let cn = i.subject.split("CN=").nth(1).map(|r| r.split(',').next().unwrap_or("").trim().to_string()).unwrap_or_else(|| i.subject.clone());
        format!("{serial}|{not_after}|{cn}")
    }), count: r.get_reload_count(), last: r.get_last_reload() }, conn))
}

fn apply_disk(op: &Op, st: &State, mats: &[Material]) {
    // a path that was turned into a directory becomes a file again with the next write
    for p in [&st.cert, &st.key] {
        let touches = match op {
            Op::WriteCert(_) | Op::TruncCert(_) | Op::GarbageCert | Op::DeleteCert | Op::CertIsDir => p == &st.cert,
            Op::WriteKey(_) | Op::TruncKey(_) | Op::GarbageKey | Op::DeleteKey | Op::KeyIsDir => p == &st.key,
            Op::WritePair(_) => true,
            Op::Reload => false,
        };
        if touches && p.is_dir() {
            let _ = std::fs::remove_dir_all(p);
        }
    }
    match op {
        Op::WriteCert(i) => std::fs::write(&st.cert, &mats[*i].cert_pem).unwrap(),
        Op::WriteKey(i) => std::fs::write(&st.key, &mats[*i].key_pem).unwrap(),
        Op::WritePair(i) => {
            std::fs::write(&st.cert, &mats[*i].cert_pem).unwrap();
            std::fs::write(&st.key, &mats[*i].key_pem).unwrap();
        }
        Op::TruncCert(p) | Op::TruncKey(p) => {
            let path = if matches!(op, Op::TruncCert(_)) { &st.cert } else { &st.key };
            if let Ok(c) = std::fs::read(path) {
                let n = c.len() * (*p as usize) / 1000;
                std::fs::write(path, &c[..n]).unwrap();
            }
        }
        Op::GarbageCert => std::fs::write(&st.cert, b"-----BEGIN CERTIFICATE-----\nnot base64 \xff\xfe!!\n-----END CERTIFICATE-----\n").unwrap(),
        Op::GarbageKey => std::fs::write(&st.key, b"\xff\xfe\x00garbage").unwrap(),
        Op::DeleteCert => {
            let _ = std::fs::remove_file(&st.cert);
        }
        Op::DeleteKey => {
            let _ = std::fs::remove_file(&st.key);
        }
        Op::CertIsDir => {
            let _ = std::fs::remove_file(&st.cert);
            let _ = std::fs::create_dir_all(&st.cert);
        }
        Op::KeyIsDir => {
            let _ = std::fs::remove_file(&st.key);
            let _ = std::fs::create_dir_all(&st.key);
        }
        Op::Reload => {}
    }
}

/// Run one history; `mid`: optional (sync point, disk op) landing inside the LAST reload of the history.
async fn run_history(dir: &Path, mats: &[Material], h: &[Op], mid: Option<(&'static str, Op)>) -> Vec<(String, String)> {
    let mut v = vec![];
    let _ = std::fs::remove_dir_all(dir);
    std::fs::create_dir_all(dir).unwrap();
    let st = State { dir: dir.to_path_buf(), cert: dir.join("cert.pem"), key: dir.join("key.pem") };
    std::fs::write(&st.cert, &mats[0].cert_pem).unwrap();
    std::fs::write(&st.key, &mats[0].key_pem).unwrap();
    let hs = h.iter().map(|o| op_str(o, mats)).collect::<Vec<_>>().join(",");
    let label = match &mid {
        Some((p, o)) => format!("[{hs}] with {} landing at {p} inside the last reload", op_str(o, mats)),
        None => format!("[{hs}]"),
    };
    let reloader = match CertReloader::new(CertReloaderConfig { cert_path: st.cert.clone(), key_path: st.key.clone(), watch_enabled: false, debounce_ms: 0, check_expiry: true, expiry_warning_days: 30 }) {
        Ok(r) => r,
        Err(e) => return vec![("harness:reloader".into(), format!("{e}"))],
    };
    let (mut prev, mut first_conn) = match snapshot(&reloader).await {
        Ok(x) => x,
        Err(e) => return vec![("C18:handshake-fails".into(), format!("{label}: initial handshake: {e}"))],
    };
    // every leaf that was ever on disk together with its key at a successful load
    let mut loaded_pairs: Vec<Vec<u8>> = vec![mats[0].der.clone()];
    let last_reload_idx = h.iter().rposition(|o| *o == Op::Reload);
    for (step, op) in h.iter().enumerate() {
        let what = format!("{label} step {step} ({})", op_str(op, mats));
        if *op != Op::Reload {
            apply_disk(op, &st, mats);
        } else {
            // model of the disk state at the time of the reload
            let cert_before = std::fs::read(&st.cert).ok().and_then(|c| denotes(&c, mats, false));
            let key_before = std::fs::read(&st.key).ok().and_then(|c| denotes(&c, mats, true));
            let mut mid_applied = None;
            if let Some((point, mop)) = &mid
                && Some(step) == last_reload_idx
            {
                let st2 = State { dir: st.dir.clone(), cert: st.cert.clone(), key: st.key.clone() };
                let mats2 = mats.to_vec();
                let mop2 = *mop;
                // "2nd:<point>": the action runs when the point is reached for the SECOND time within this reload (a
                // reload that reads its files again after a failed read)
                let (pname, skip): (&'static str, usize) = match point.strip_prefix("2nd:") {
                    Some(rest) => (rest, 1),
                    None => (*point, 0),
                };
                MID_SKIP.with(|c| c.set(skip));
                MID.with(|m| *m.borrow_mut() = Some((pname, Box::new(move || apply_disk(&mop2, &st2, &mats2)))));
                mid_applied = Some(*mop);
            }
            let res = reloader.reload();
            // an action that was armed but never ran (the point was not reached that often) changed nothing
            if MID.with(|m| m.borrow_mut().take()).is_some() {
                mid_applied = None;
            }
            MID_SKIP.with(|c| c.set(0));
            let cert_after = std::fs::read(&st.cert).ok().and_then(|c| denotes(&c, mats, false));
            let key_after = std::fs::read(&st.key).ok().and_then(|c| denotes(&c, mats, true));
            let (now, _conn) = match snapshot(&reloader).await {
                Ok(x) => x,
                Err(e) => {
                    v.push(("C18:handshake-fails".into(), format!("{what}: after reload() = {:?} new connections cannot be served: {e}", res.as_ref().map_err(|e| e.to_string()))));
                    return v;
                }
            };
            match res {
                Err(e) => {
                    if now != prev {
                        let mut diff = vec![];
                        if now.leaf != prev.leaf { diff.push("presented certificate"); }
                        if now.info_serial != prev.info_serial { diff.push("certificate info"); }
                        if now.count != prev.count { diff.push("reload count"); }
                        if now.last != prev.last { diff.push("last-reload time"); }
                        v.push(("C18:failed-reload-changed-state".into(), format!("{what}: reload() failed ({e}) but changed: {}", diff.join(", "))));
                    }
                }
                Ok(()) => {
                    // candidates: the pair on disk before, or (with a mid-reload write) after
                    let mut cands: Vec<usize> = vec![];
                    // a certificate and a key form a pair when the key is the certificate's (materials may share a key)
                    let pair = |c: usize, k: usize| mats[c].key_pem == mats[k].key_pem;
                    if let (Some(c), Some(k)) = (cert_before, key_before) && pair(c, k) { cands.push(c); }
                    if mid_applied.is_some() && let (Some(c), Some(k)) = (cert_after, key_after) && pair(c, k) { cands.push(c); }
                    // mixed states during a mid-reload write: cert from one side, key from the other
                    if mid_applied.is_some() {
                        for c in [cert_before, cert_after].into_iter().flatten() {
                            for k in [key_before, key_after].into_iter().flatten() {
                                if pair(c, k) && !cands.contains(&c) { cands.push(c); }
                            }
                        }
                    }
                    let served = mats.iter().position(|m| m.der == now.leaf);
                    match served {
                        None => v.push(("C18:unknown-certificate-served".into(), what.clone())),
                        Some(x) => {
                            if !cands.contains(&x) && now.leaf == prev.leaf && !cands.is_empty() {
                                v.push(("C18:successful-reload-not-used".into(), format!("{what}: reload() succeeded with {} / key of {} on disk, but new handshakes are still served {}", cert_before.map(|i| mats[i].name).unwrap_or("?"), key_before.map(|i| mats[i].name).unwrap_or("?"), mats[x].name)));
                            } else if !cands.contains(&x) {
                                v.push(("C18:reload-accepted-inconsistent-disk-state".into(), format!("{what}: reload() succeeded and now serves {} although cert/key on disk were {:?}/{:?} (after: {:?}/{:?})", mats[x].name, cert_before.map(|i| mats[i].name), key_before.map(|i| mats[i].name), cert_after.map(|i| mats[i].name), key_after.map(|i| mats[i].name))));
                            }
                            if mats[x].expired {
                                v.push(("C18:expired-certificate-activated".into(), format!("{what}: a certificate that expired long ago is now served")));
                            }
                            let want_serial = mats[x].info_key.trim_start_matches('0').to_string();
                            if now.info_serial.as_deref() != Some(want_serial.as_str()) {
                                v.push(("C18:reported-info-not-of-active-certificate".into(), format!("{what}: the active certificate is {} (serial | not-after | CN = {}), get_cert_info() reports {:?}", mats[x].name, want_serial, now.info_serial)));
                            }
                            loaded_pairs.push(now.leaf.clone());
                        }
                    }
                    if now.count != prev.count + 1 {
                        v.push(("C18:reload-count".into(), format!("{what}: count {} -> {} after a successful reload", prev.count, now.count)));
                    }
                    if now.last == prev.last {
                        v.push(("C18:last-reload-not-updated".into(), what.clone()));
                    }
                }
            }
            prev = now;
        }
        // between reloads nothing may change, whatever happens on disk
        if *op != Op::Reload {
            match snapshot(&reloader).await {
                Ok((now, _)) => {
                    if now != prev {
                        v.push(("C18:state-changed-without-reload".into(), what.clone()));
                    }
                }
                Err(e) => {
                    v.push(("C18:handshake-fails".into(), format!("{what}: {e}")));
                    return v;
                }
            }
        }
        if !loaded_pairs.contains(&prev.leaf) {
            v.push(("C18:served-certificate-never-loaded-as-pair".into(), what.clone()));
        }
    }
    // sessions established before the reloads continue undisturbed
    if !probe(&mut first_conn).await {
        v.push(("C18:established-connection-disturbed".into(), format!("{label}: the TLS connection made before the history no longer carries data")));
    }
    let _ = std::fs::remove_dir_all(dir);
    v
}

/// Server level: a real `Server` built the way bin/server.rs builds it (new_with_reloadable_tls on the reloader's
/// shared acceptor) listens on loopback; after every step of a reload history a fresh TCP+TLS connection must be served
/// the certificate the reloader has active, and connections made earlier keep working.
async fn server_level(rep: &mut Report, mats: &[Material], base: &Path) {
    use anytls_rs::server::Server;
    let dir = base.join("server-level");
    let _ = std::fs::create_dir_all(&dir);
    let st = State { dir: dir.clone(), cert: dir.join("cert.pem"), key: dir.join("key.pem") };
    std::fs::write(&st.cert, &mats[0].cert_pem).unwrap();
    std::fs::write(&st.key, &mats[0].key_pem).unwrap();
    let reloader = match CertReloader::new(CertReloaderConfig { cert_path: st.cert.clone(), key_path: st.key.clone(), watch_enabled: false, debounce_ms: 0, check_expiry: true, expiry_warning_days: 30 }) {
        Ok(r) => r,
        Err(e) => {
            rep.machinery(format!("server-level reloader: {e}"));
            return;
        }
    };
    let port = crate::semi::free_port("127.0.0.1");
    let addr = format!("127.0.0.1:{port}");
    let server = Server::new_with_reloadable_tls("pw", reloader.get_acceptor_ref(), anytls_rs::padding::PaddingFactory::default(), None);
    let addr2 = addr.clone();
    let srv_task = tokio::spawn(async move {
        let _ = server.listen(&addr2).await;
    });
    tokio::time::sleep(std::time::Duration::from_millis(150)).await;
    let connect = |addr: String| async move {
        let rec = Arc::new(Recorder(Mutex::new(None)));
        let cfg = rustls::ClientConfig::builder().dangerous().with_custom_certificate_verifier(rec.clone()).with_no_client_auth();
        let connector = tokio_rustls::TlsConnector::from(Arc::new(cfg));
        let tcp = tokio::net::TcpStream::connect(&addr).await.map_err(|e| format!("connect: {e}"))?;
        let tls = tokio::time::timeout(std::time::Duration::from_secs(5), connector.connect(rustls::pki_types::ServerName::try_from("localhost").unwrap(), tcp)).await.map_err(|_| "handshake timed out".to_string())?.map_err(|e| format!("handshake: {e}"))?;
        let leaf = rec.0.lock().unwrap().clone().ok_or("no certificate presented".to_string())?;
        Ok::<_, String>((leaf, tls))
    };
    let name_of = |leaf: &[u8]| mats.iter().find(|m| m.der == leaf).map(|m| m.name).unwrap_or("an unknown certificate");
    // (disk operations, expected active material afterwards; None = the reload must fail and change nothing)
    let history: Vec<(Vec<Op>, Option<usize>)> = vec![
        (vec![], Some(0)),
        (vec![Op::WriteCert(1), Op::WriteKey(1), Op::Reload], Some(1)),
        (vec![Op::GarbageCert, Op::Reload], None),
        (vec![Op::WriteCert(2), Op::WriteKey(2), Op::Reload], Some(2)),
        (vec![Op::WriteCert(3), Op::WriteKey(3), Op::Reload], None),
        (vec![Op::WriteCert(0), Op::WriteKey(0), Op::Reload], Some(0)),
        (vec![Op::WriteCert(4), Op::Reload], Some(4)),
        (vec![Op::WriteCert(1), Op::WriteKey(1), Op::Reload], Some(1)),
        (vec![Op::WriteCert(5), Op::WriteKey(5), Op::Reload], Some(5)),
    ];
    let mut active = 0usize;
    let mut kept: Vec<(usize, tokio_rustls::client::TlsStream<tokio::net::TcpStream>)> = vec![];
    let mut done: Vec<String> = vec![];
    for (ops, expect) in history {
        let mut res = Ok(());
        for op in &ops {
            if *op == Op::Reload {
                res = reloader.reload().map_err(|e| e.to_string());
            } else {
                apply_disk(op, &st, mats);
            }
        }
        done.push(ops.iter().map(|o| op_str(o, mats)).collect::<Vec<_>>().join(","));
        let what = format!("server level, after [{}]", done.join(" | "));
        rep.case(Some(&what));
        match (expect, &res) {
            (Some(x), Ok(())) => active = x,
            (None, Err(_)) => {}
            (Some(_), Err(e)) => {
                rep.violation("C18:valid-pair-refused", &format!("{what}: reload() failed: {e}"), json!({"engine": "LX", "history": done}));
                break;
            }
            (None, Ok(())) => {
                rep.violation("C18:reload-accepted-inconsistent-disk-state", &format!("{what}: reload() succeeded"), json!({"engine": "LX", "history": done}));
                break;
            }
        }
        match connect(addr.clone()).await {
            Err(e) => {
                rep.violation("C18:handshake-fails", &format!("{what}: a new connection to the server cannot be established: {e}"), json!({"engine": "LX", "history": done}));
                break;
            }
            Ok((leaf, tls)) => {
                if leaf != mats[active].der {
                    let key = if res.is_err() { "C18:failed-reload-changed-state" } else { "C18:successful-reload-not-used" };
                    rep.violation(key, &format!("{what}: a connection accepted by the server now is served {}, the active certificate is {}", name_of(&leaf), mats[active].name), json!({"engine": "LX", "history": done}));
                    break;
                }
                kept.push((active, tls));
            }
        }
    }
    // connections established before the reloads still carry data (the server waits for the preamble: a write succeeds
    // and the connection is not closed under us)
    for (i, (_, tls)) in kept.iter_mut().enumerate() {
        let alive = tls.write_all(&[0u8; 1]).await.is_ok() && tls.flush().await.is_ok();
        let mut b = [0u8; 1];
        let closed = matches!(tokio::time::timeout(std::time::Duration::from_millis(30), tls.read(&mut b)).await, Ok(Ok(0)) | Ok(Err(_)));
        if !alive || closed {
            rep.violation("C18:established-connection-disturbed", &format!("server level: connection #{i}, established before later reloads, was closed"), json!({"engine": "LX"}));
            break;
        }
    }
    srv_task.abort();
    let _ = std::fs::remove_dir_all(&dir);
}

/// Automatic path: the file watcher (start_watching, debounce 0) decides when reload() runs — and whether (that is not
/// part of the property). After every update of the files on disk and whatever reloads it triggered: the served
/// certificate changes only together with a successful reload, to a pair that was on disk during the update, and the
/// reported information is that of the served certificate.
async fn watcher_level(rep: &mut Report, mats: &[Material], base: &Path) {
    let dir = base.join("watcher-level");
    let _ = std::fs::create_dir_all(&dir);
    let st = State { dir: dir.clone(), cert: dir.join("cert.pem"), key: dir.join("key.pem") };
    std::fs::write(&st.cert, &mats[0].cert_pem).unwrap();
    std::fs::write(&st.key, &mats[0].key_pem).unwrap();
    let reloader = match CertReloader::new(CertReloaderConfig { cert_path: st.cert.clone(), key_path: st.key.clone(), watch_enabled: true, debounce_ms: 0, check_expiry: true, expiry_warning_days: 30 }) {
        Ok(r) => Arc::new(r),
        Err(e) => {
            rep.machinery(format!("watcher-level reloader: {e}"));
            return;
        }
    };
    if let Err(e) = reloader.clone().start_watching() {
        rep.machinery(format!("watcher-level: start_watching failed: {e}"));
        return;
    }
    tokio::time::sleep(std::time::Duration::from_millis(200)).await;
    // (disk operations of one update, material expected to be active once things settle; None = nothing valid on disk: unchanged)
    let history: Vec<(Vec<Op>, Option<usize>)> = vec![
        (vec![Op::WriteCert(1), Op::WriteKey(1)], Some(1)),
        (vec![Op::GarbageCert], None),
        (vec![Op::WriteKey(2), Op::WriteCert(2)], Some(2)),
        (vec![Op::TruncKey(500)], None),
        (vec![Op::WritePair(3)], None),
        (vec![Op::WritePair(0)], Some(0)),
        (vec![Op::DeleteCert], None),
        (vec![Op::WritePair(6)], Some(6)),
        (vec![Op::WriteCert(1)], None),
        (vec![Op::WriteKey(1)], Some(1)),
        // a manual reload() (the operator's signal) landing inside the watcher's settle delay, then the files go bad
        // before the watcher's own reload runs: the manual reload's result stays
        (vec![Op::WritePair(2), Op::Reload, Op::GarbageCert], Some(2)),
        (vec![Op::WritePair(0), Op::Reload, Op::DeleteKey], Some(0)),
        (vec![Op::WritePair(1)], Some(1)),
    ];
    let mut done: Vec<String> = vec![];
    let Ok((mut prev, _)) = snapshot(&reloader).await else {
        rep.machinery("watcher-level: initial handshake failed".to_string());
        return;
    };
    for (ops, _expect) in history {
        let count_before = reloader.get_reload_count();
        let manual = ops.contains(&Op::Reload);
        // pairs (certificate material, key material) that were on disk together at some moment of this step
        let on_disk = |st: &State| -> Option<(usize, usize)> {
            let c = std::fs::read(&st.cert).ok().and_then(|c| denotes(&c, mats, false))?;
            let k = std::fs::read(&st.key).ok().and_then(|c| denotes(&c, mats, true))?;
            Some((c, k))
        };
        let mut seen_pairs: Vec<(usize, usize)> = on_disk(&st).into_iter().collect();
        for op in &ops {
            if *op == Op::Reload {
                let _ = reloader.reload();
            } else {
                apply_disk(op, &st, mats);
            }
            seen_pairs.extend(on_disk(&st));
            tokio::time::sleep(std::time::Duration::from_millis(if manual { 15 } else { 30 })).await;
        }
        done.push(ops.iter().map(|o| op_str(o, mats)).collect::<Vec<_>>().join(","));
        let what = format!("watcher level, after [{}]", done.join(" | "));
        rep.case(Some(&what));
        // settle: whatever reloads the update triggers (none is demanded: when the watcher reloads is its own business)
        let t0 = std::time::Instant::now();
        loop {
            let waited = t0.elapsed().as_millis();
            if (reloader.get_reload_count() > count_before && waited > 700) || waited > 1200 {
                break;
            }
            tokio::time::sleep(std::time::Duration::from_millis(20)).await;
        }
        match snapshot(&reloader).await {
            Err(e) => {
                rep.violation("C18:handshake-fails", &format!("{what}: {e}"), json!({"engine": "LX-watcher", "history": done}));
                break;
            }
            Ok((now, _)) => {
                let Some(x) = mats.iter().position(|m| m.der == now.leaf) else {
                    rep.violation("C18:unknown-certificate-served", &what, json!({"engine": "LX-watcher", "history": done}));
                    break;
                };
                if now.count == prev.count && now.leaf != prev.leaf {
                    rep.violation("C18:failed-reload-changed-state", &format!("{what}: no reload succeeded (count stays {}), yet handshakes are now served {} instead of {}", now.count, mats[x].name, mats.iter().find(|m| m.der == prev.leaf).map(|m| m.name).unwrap_or("?")), json!({"engine": "LX-watcher", "history": done}));
                    break;
                }
                if now.count > prev.count && now.leaf != prev.leaf && !seen_pairs.iter().any(|(c, k)| *c == x && mats[*c].key_pem == mats[*k].key_pem) {
                    rep.violation("C18:reload-accepted-inconsistent-disk-state", &format!("{what}: a reload succeeded and handshakes are now served {}, which was not on disk with its key during this update (pairs seen on disk: {:?})", mats[x].name, seen_pairs.iter().map(|(c, k)| (mats[*c].name, mats[*k].name)).collect::<Vec<_>>()), json!({"engine": "LX-watcher", "history": done}));
                    break;
                }
                if mats[x].expired {
                    rep.violation("C18:expired-certificate-activated", &format!("{what}: a certificate that expired long ago is served"), json!({"engine": "LX-watcher", "history": done}));
                    break;
                }
                let want_serial = mats[x].info_key.trim_start_matches('0').to_string();
                if now.info_serial.as_deref() != Some(want_serial.as_str()) {
                    rep.violation("C18:reported-info-not-of-active-certificate", &format!("{what}: handshakes are served {} (serial | not-after | CN = {want_serial}), get_cert_info() reports {:?} (reload count {})", mats[x].name, now.info_serial, now.count), json!({"engine": "LX-watcher", "history": done}));
                    break;
                }
                prev = now;
            }
        }
    }
    let _ = std::fs::remove_dir_all(&dir);
}

/// Two reloads overlap (in the server binary: the file watcher's task and the SIGHUP handler's task on a multi-threaded
/// runtime). Reload A is parked at each synchronous point with the pair `first` on disk; the files change to the valid
/// pair `second`; reload B runs on another thread (it may finish, or wait for A); A resumes. Afterwards: the served
/// certificate and the reported information belong together, and — B having started after the last disk change and
/// succeeded — new handshakes are served the pair that is on disk.
fn overlapping_reloads(rep: &mut Report, mats: &[Material], base: &Path) {
    let points: [&'static str; 5] = ["tls.before_cert_read", "tls.between_cert_and_key", "tls.after_key_read", "reload.before_info_read", "reload.before_swap"];
    let rt = tokio::runtime::Builder::new_current_thread().enable_all().build().unwrap();
    for p in points {
        for (first, second) in [(1usize, 2usize), (2, 1), (1, 6), (6, 2)] {
            let name = format!("overlapping reloads: A parked at {p} holding {}, disk changes to {}, reload B", mats[first].name, mats[second].name);
            rep.case(Some(&name));
            let dir = base.join(format!("ov-{}-{first}-{second}", p.replace('.', "_")));
            let _ = std::fs::remove_dir_all(&dir);
            std::fs::create_dir_all(&dir).unwrap();
            let st = State { dir: dir.clone(), cert: dir.join("cert.pem"), key: dir.join("key.pem") };
            std::fs::write(&st.cert, &mats[0].cert_pem).unwrap();
            std::fs::write(&st.key, &mats[0].key_pem).unwrap();
            let reloader = match CertReloader::new(CertReloaderConfig { cert_path: st.cert.clone(), key_path: st.key.clone(), watch_enabled: false, debounce_ms: 0, check_expiry: true, expiry_warning_days: 30 }) {
                Ok(r) => Arc::new(r),
                Err(e) => {
                    rep.machinery(format!("{name}: reloader: {e}"));
                    continue;
                }
            };
            apply_disk(&Op::WritePair(first), &st, mats);
            let b_slot: Arc<Mutex<Option<std::sync::mpsc::Receiver<Result<(), String>>>>> = Arc::new(Mutex::new(None));
            let b_done_early: Arc<Mutex<Option<Result<(), String>>>> = Arc::new(Mutex::new(None));
            {
                let st2 = State { dir: st.dir.clone(), cert: st.cert.clone(), key: st.key.clone() };
                let mats2 = mats.to_vec();
                let r2 = reloader.clone();
                let b_slot = b_slot.clone();
                let b_done_early = b_done_early.clone();
                MID.with(|m| {
                    *m.borrow_mut() = Some((
                        p,
                        Box::new(move || {
                            apply_disk(&Op::WritePair(second), &st2, &mats2);
                            let (tx, rx) = std::sync::mpsc::channel();
                            std::thread::spawn(move || {
                                let _ = tx.send(r2.reload().map_err(|e| e.to_string()));
                            });
                            // B either finishes while A is parked, or waits for A (serialised reloads)
                            match rx.recv_timeout(Duration::from_millis(300)) {
                                Ok(r) => *b_done_early.lock().unwrap() = Some(r),
                                Err(_) => *b_slot.lock().unwrap() = Some(rx),
                            }
                        }),
                    ))
                });
            }
            let ra = reloader.reload().map_err(|e| e.to_string());
            MID.with(|m| *m.borrow_mut() = None);
            let rb = match b_done_early.lock().unwrap().take() {
                Some(r) => Some(r),
                None => match b_slot.lock().unwrap().take() {
                    Some(rx) => rx.recv_timeout(Duration::from_secs(10)).ok(),
                    None => None,
                },
            };
            let Some(rb) = rb else {
                rep.violation("C18:reload-blocks", &format!("{name}: reload B did not return within 10 s after reload A had finished"), json!({"engine": "BX", "case": name}));
                continue;
            };
            let now = match rt.block_on(snapshot(&reloader)) {
                Ok((s, _)) => s,
                Err(e) => {
                    rep.violation("C18:handshake-fails", &format!("{name}: {e}"), json!({"engine": "BX", "case": name}));
                    continue;
                }
            };
            let served = mats.iter().position(|m| m.der == now.leaf);
            let ctx = format!("{name}: reload A -> {:?}, reload B -> {:?}", ra.as_ref().map(|_| "ok"), rb.as_ref().map(|_| "ok"));
            match served {
                None => rep.violation("C18:unknown-certificate-served", &ctx, json!({"engine": "BX", "case": name})),
                Some(x) => {
                    let want = mats[x].info_key.trim_start_matches('0').to_string();
                    if now.info_serial.as_deref() != Some(want.as_str()) {
                        rep.violation("C18:reported-info-not-of-active-certificate", &format!("{ctx}: the active certificate is {} ({want}), get_cert_info() reports {:?}", mats[x].name, now.info_serial), json!({"engine": "BX", "case": name}));
                    }
                    if rb.is_ok() && x != second {
                        rep.violation("C18:successful-reload-not-used:overlapping-reloads", &format!("{ctx}: reload B started after the files had changed to {} and succeeded, yet new handshakes are served {} (the reload that started earlier, with the older files, finished last and put them back)", mats[second].name, mats[x].name), json!({"engine": "BX", "case": name}));
                    }
                    if x != first && x != second {
                        rep.violation("C18:served-certificate-never-loaded-as-pair", &ctx, json!({"engine": "BX", "case": name}));
                    }
                }
            }
            let ok_n = ra.is_ok() as u64 + rb.is_ok() as u64;
            if now.count != ok_n {
                rep.violation("C18:reload-count", &format!("{ctx}: count {} after {ok_n} successful reload(s)", now.count), json!({"engine": "BX", "case": name}));
            }
            let _ = std::fs::remove_dir_all(&dir);
        }
    }
}

pub fn run(tier: Tier) -> i32 {
    let mut rep = Report::new("C18", tier, "fault_enumeration");
    let thorough = tier.is_thorough();
    rep.assumptions = vec![
        "real files in a scratch directory, rcgen-made pairs A (initial), B, C, D (expired 400 days ago), A2 (A's key and serial, new validity), B2 (new key under B's serial), and CA-issued leaves in chain files (leaf first, CA first, expired leaf behind a valid CA); reload() is called directly (the file watcher only decides when it is called)".into(),
        "which certificates count as expired is not fixed by the property (day granularity is an observation, not a violation); D is far beyond any granularity".into(),
        "mid-reload disk changes are injected through the H10 synchronous points between the reload's file reads".into(),
    ];
    install_sync_hook();
    let mats = vec![make_material("A", 0xA1, -1, 365), make_material("B", 0xB2, -1, 366), make_material("C", 0xC3, -1, 200), make_material("D-expired", 0xD4, -800, -400)];
    // materials that share attributes with others, as renewals do: A2 keeps A's key and serial (new validity),
    // B2 is a new key under B's serial and subject
    let mut mats = mats;
    let a2 = make_material_with("A2-renewed-same-key-and-serial", 0xA1, -1, 500, Some(&mats[0]));
    mats.push(a2);
    mats.push(make_material("B2-rekeyed-same-serial", 0xB2, -1, 367));
    // certificate files that hold a chain: leaf first (the usual bundle), the CA first (a mis-ordered bundle: the
    // first block is what gets reported and, for rustls, what must match the key), and an expired leaf behind a valid CA
    let (ca_pem, ca_params, ca_key) = {
        let mut p = rcgen::CertificateParams::new(vec![]).expect("params");
        p.is_ca = rcgen::IsCa::Ca(rcgen::BasicConstraints::Unconstrained);
        p.distinguished_name.push(rcgen::DnType::CommonName, "harness CA");
        p.serial_number = Some(rcgen::SerialNumber::from(0xCA00u64));
        let now = time::OffsetDateTime::now_utc();
        p.not_before = now - time::Duration::days(1);
        p.not_after = now + time::Duration::days(3650);
        let k = rcgen::KeyPair::generate().expect("key");
        let c = p.self_signed(&k).expect("ca");
        (c.pem(), p, k)
    };
    let issued = |name: &'static str, serial: u64, not_after_days: i64, ca_first: bool| -> Material {
        let mut p = rcgen::CertificateParams::new(vec!["localhost".to_string()]).expect("params");
        let now = time::OffsetDateTime::now_utc();
        p.not_before = now - time::Duration::days(if not_after_days < 0 { 800 } else { 1 });
        p.not_after = now + time::Duration::days(not_after_days);
        p.serial_number = Some(rcgen::SerialNumber::from(serial));
        p.distinguished_name = rcgen::DistinguishedName::new();
        p.distinguished_name.push(rcgen::DnType::CommonName, format!("cn-{name}"));
        let info_key = format!("{:x}|{}|cn-{name}", serial, p.not_after.unix_timestamp());
        let key = rcgen::KeyPair::generate().expect("key");
        let issuer = rcgen::Issuer::from_params(&ca_params, &ca_key);
        let cert = p.signed_by(&key, &issuer).expect("leaf");
        let file = if ca_first { format!("{}{}", ca_pem, cert.pem()) } else { format!("{}{}", cert.pem(), ca_pem) };
        Material { name, cert_pem: file, key_pem: key.serialize_pem(), der: cert.der().to_vec(), serial_hex: format!("{:x}", serial), expired: not_after_days < 0, info_key }
    };
    mats.push(issued("L1-chain-leaf-first", 0xE1, 368, false));
    mats.push(issued("L2-chain-CA-first", 0xE2, 369, true));
    mats.push(issued("L3-expired-leaf-behind-valid-CA", 0xE3, -400, true));
    let base = PathBuf::from(format!("{}/scratch/c18-{}", verif_dir(), std::process::id()));
    let _ = std::fs::create_dir_all(&base);
    // ---- alphabet and histories
    let disk_ops = vec![Op::WriteCert(1), Op::WriteKey(1), Op::WriteCert(2), Op::WriteKey(2), Op::WriteCert(3), Op::WriteKey(3), Op::WriteCert(4), Op::WriteKey(0), Op::WriteCert(5), Op::WriteKey(5), Op::WritePair(6), Op::WritePair(7), Op::WritePair(8), Op::TruncCert(500), Op::TruncKey(500), Op::GarbageCert, Op::GarbageKey, Op::DeleteCert, Op::DeleteKey, Op::CertIsDir, Op::KeyIsDir];
    let mut alphabet = disk_ops.clone();
    alphabet.push(Op::Reload);
    let depth = if thorough { 4 } else { 3 };
    let mut jobs: Vec<(Vec<Op>, Option<(&'static str, Op)>)> = vec![];
    let mut frontier: Vec<Vec<Op>> = vec![vec![]];
    for _ in 0..depth {
        let mut next = vec![];
        for h in &frontier {
            for a in &alphabet {
                let mut n = h.clone();
                n.push(*a);
                next.push(n);
            }
        }
        frontier = next;
    }
    // maximal histories followed by a final reload (every prefix is checked step by step)
    for h in frontier {
        let mut h2 = h.clone();
        if h2.last() != Some(&Op::Reload) {
            h2.push(Op::Reload);
        }
        jobs.push((h2, None));
    }
    // ---- single-step family: every byte prefix of the cert and of the key of pair B, then reload
    let clen = mats[1].cert_pem.len();
    let klen = mats[1].key_pem.len();
    for n in 0..=clen {
        jobs.push((vec![Op::WriteKey(1), Op::WriteCert(1), Op::TruncCert((n * 1000 / clen) as u16), Op::Reload], None));
    }
    for n in 0..=klen {
        jobs.push((vec![Op::WriteCert(1), Op::WriteKey(1), Op::TruncKey((n * 1000 / klen) as u16), Op::Reload], None));
    }
    // ---- a disk operation landing inside a reload, at every sync point, for every two-file update order
    let points: [&'static str; 5] = ["tls.before_cert_read", "tls.between_cert_and_key", "tls.after_key_read", "reload.before_info_read", "reload.before_swap"];
    for pre in [vec![], vec![Op::WriteCert(1)], vec![Op::WriteKey(1)], vec![Op::WriteCert(1), Op::WriteKey(1)], vec![Op::WriteCert(1), Op::WriteKey(1), Op::Reload, Op::WriteCert(2)], vec![Op::WriteCert(1), Op::WriteKey(1), Op::Reload, Op::WriteKey(2)]] {
        for p in points {
            for mop in &disk_ops {
                let mut h = pre.clone();
                h.push(Op::Reload);
                jobs.push((h, Some((p, *mop))));
            }
        }
    }
    // ---- a reload that meets an I/O error on its first read of a file and (if it retries) reads again: the disk changes
    // to a complete other pair when a read point is reached for the second time
    for pre in [vec![Op::KeyIsDir], vec![Op::CertIsDir], vec![Op::DeleteKey], vec![Op::WriteCert(1), Op::KeyIsDir]] {
        for p in ["2nd:tls.before_cert_read", "2nd:tls.between_cert_and_key", "2nd:tls.after_key_read"] {
            for mop in [Op::WritePair(1), Op::WritePair(2), Op::WritePair(3)] {
                let mut h = pre.clone();
                h.push(Op::Reload);
                jobs.push((h, Some((p, mop))));
            }
        }
    }
    let n_jobs = jobs.len();
    let jobs = Arc::new(jobs);
    let mats_a = Arc::new(mats.clone());
    let j2 = jobs.clone();
    let base2 = base.clone();
    let res: Vec<Vec<(String, String)>> = par_map(n_jobs, 16, move |i| {
        install_sync_hook();
        let rt = tokio::runtime::Builder::new_current_thread().enable_all().build().unwrap();
        let dir = base2.join(format!("h{i}"));
        rt.block_on(run_history(&dir, &mats_a, &j2[i].0, j2[i].1))
    });
    for (i, v) in res.into_iter().enumerate() {
        let (h, mid) = &jobs[i];
        let hs = h.iter().map(|o| op_str(o, &mats)).collect::<Vec<_>>().join(",");
        rep.case(Some(&format!("{hs}|{:?}", mid.map(|m| (m.0, op_str(&m.1, &mats))))));
        if i % 397 == 11 {
            rep.sample(json!({"history": hs, "mid_reload": mid.map(|m| format!("{} at {}", op_str(&m.1, &mats), m.0))}));
        }
        let mut seen = std::collections::HashSet::new();
        for (k, d) in v {
            if seen.insert(k.clone()) {
                rep.violation(&k, &d, json!({"engine": "BX", "history": hs, "mid_reload": mid.map(|m| format!("{} at {}", op_str(&m.1, &mats), m.0))}));
            }
        }
    }
    overlapping_reloads(&mut rep, &mats, &base);
    {
        let rt = tokio::runtime::Builder::new_multi_thread().worker_threads(2).enable_all().build().unwrap();
        rt.block_on(server_level(&mut rep, &mats, &base));
        rt.block_on(watcher_level(&mut rep, &mats, &base));
    }
    let _ = std::fs::remove_dir_all(&base);
    rep.sections.insert("jobs".into(), json!({"histories": n_jobs, "depth": depth, "alphabet": alphabet.iter().map(|o| op_str(o, &mats)).collect::<Vec<_>>(), "truncation_prefixes": clen + klen + 2, "sync_points": points}));
    rep.finish("BX: every history of depth d (+ a final reload) over {write cert/key of pairs B, C, expired D, A2 (same key and serial as A), B2 (same serial as B) (each file alone), truncate cert/key, garbage, delete, reload}; every byte prefix of cert and key; a disk operation landing at each of 5 points inside a reload for 6 pre-states; after every step a real TLS handshake against the current acceptor, get_cert_info / count / last_reload compared with the previous snapshot; plus a real Server (new_with_reloadable_tls on the reloader's shared acceptor, as bin/server.rs builds it) on loopback whose fresh TCP+TLS connections are checked after every step of a 9-step reload history; plus the automatic path (file watcher, debounce 0) through a 13-step update history in real time (incl. manual reloads landing inside the watcher's settle delay); non-trivial = distinct history")
}
