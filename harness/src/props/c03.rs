//! C03 — frame encoding is a faithful, chunking-independent bijection (IX).

use crate::par::par_map;
use crate::refmodel::*;
use crate::report::{Report, Tier};
use anytls_rs::protocol::{Command, Frame, FrameCodec};
use bytes::{Bytes, BytesMut};
use serde_json::json;
use tokio_util::codec::{Decoder, Encoder};

fn cmd_of(b: u8) -> Command {
    // the total map described by the protocol: 0..=10 are commands, everything else is inert padding
    match b {
        0 => Command::Waste,
        1 => Command::Syn,
        2 => Command::Push,
        3 => Command::Fin,
        4 => Command::Settings,
        5 => Command::Alert,
        6 => Command::UpdatePaddingScheme,
        7 => Command::SynAck,
        8 => Command::HeartRequest,
        9 => Command::HeartResponse,
        10 => Command::ServerSettings,
        _ => Command::Waste,
    }
}

fn body(len: usize, salt: u32) -> Vec<u8> {
    (0..len).map(|i| ((i as u32).wrapping_mul(2654435761).wrapping_add(salt) >> 11) as u8).collect()
}

type V = (String, String, serde_json::Value);

/// Decode a byte string delivered in `pieces`; compare with the reference parse of the whole.
fn decode_pieces(whole: &[u8], cuts: &[usize]) -> Result<(), String> {
    match std::panic::catch_unwind(|| decode_pieces_inner(whole, cuts)) {
        Ok(r) => r,
        Err(p) => {
            let msg = p.downcast_ref::<String>().cloned().or_else(|| p.downcast_ref::<&str>().map(|s| s.to_string())).unwrap_or_default();
            Err(format!("decoder panicked: {msg}"))
        }
    }
}

fn decode_pieces_inner(whole: &[u8], cuts: &[usize]) -> Result<(), String> {
    let (want, want_left) = parse_all(whole);
    let mut codec = FrameCodec;
    let mut buf = BytesMut::new();
    let mut got: Vec<RFrame> = vec![];
    let mut prev = 0usize;
    let mut bounds: Vec<usize> = cuts.to_vec();
    bounds.push(whole.len());
    for b in bounds {
        buf.extend_from_slice(&whole[prev..b]);
        prev = b;
        loop {
            let before = buf.len();
            let snapshot = buf.clone();
            match codec.decode(&mut buf) {
                Err(e) => return Err(format!("decode returned an error: {e}")),
                Ok(None) => {
                    if buf.len() != before || buf[..] != snapshot[..] {
                        return Err(format!("decode returned None but consumed/changed the buffer ({} -> {} bytes)", before, buf.len()));
                    }
                    break;
                }
                Ok(Some(f)) => {
                    let consumed = before - buf.len();
                    if consumed != 7 + f.data.len() {
                        return Err(format!("decode consumed {consumed} bytes for a frame with {} payload bytes", f.data.len()));
                    }
                    got.push(RFrame { cmd: u8::from(f.cmd), id: f.stream_id, data: f.data.to_vec() });
                }
            }
        }
    }
    let want_mapped: Vec<RFrame> = want.iter().map(|f| RFrame { cmd: u8::from(cmd_of(f.cmd)), id: f.id, data: f.data.clone() }).collect();
    if got != want_mapped {
        return Err(format!("frames differ: got [{}], reference [{}]", fmt_frames(&got), fmt_frames(&want_mapped)));
    }
    if buf.len() != want_left {
        return Err(format!("{} bytes left in the buffer, reference says {}", buf.len(), want_left));
    }
    Ok(())
}

/// The session's own frame reader: a server `Session` is fed `whole` cut at `cuts` (one transport read per piece: the
/// paused clock only advances when every task is idle) and must answer every HeartRequest in it, in order.
fn session_reader(rt: &tokio::runtime::Runtime, whole: &[u8], cuts: &[usize], expect: &[u32]) -> Result<(), String> {
    use tokio::io::{AsyncReadExt, AsyncWriteExt};
    let whole = whole.to_vec();
    let cuts = cuts.to_vec();
    let got: Result<Vec<u32>, String> = rt.block_on(async move {
        let (mut peer, server_io) = tokio::io::duplex(1 << 16);
        let (sr, sw) = tokio::io::split(server_io);
        let padding = std::sync::Arc::new(anytls_rs::padding::PaddingFactory::new(anytls_rs::padding::DEFAULT_PADDING_SCHEME.as_bytes()).map_err(|e| e.to_string())?);
        let server = std::sync::Arc::new(anytls_rs::session::Session::new_server(sr, sw, padding));
        let s2 = server.clone();
        let h = tokio::spawn(async move {
            let _ = s2.recv_loop().await;
        });
        let mut bounds = cuts.clone();
        bounds.push(whole.len());
        let mut at = 0usize;
        for b in bounds {
            peer.write_all(&whole[at..b]).await.map_err(|e| e.to_string())?;
            at = b;
            tokio::time::sleep(std::time::Duration::from_millis(5)).await;
        }
        let mut buf = Vec::new();
        let mut tmp = [0u8; 256];
        while let Ok(Ok(n)) = tokio::time::timeout(std::time::Duration::from_millis(50), peer.read(&mut tmp)).await {
            if n == 0 {
                break;
            }
            buf.extend_from_slice(&tmp[..n]);
        }
        h.abort();
        let (frames, _rest) = parse_all(&buf);
        Ok(frames.iter().filter(|f| f.cmd == Command::HeartResponse as u8).map(|f| f.id).collect())
    });
    let got = got?;
    if got != expect {
        return Err(format!("the session answered heartbeats {got:?}, fed whole it answers {expect:?}"));
    }
    Ok(())
}

pub fn run(tier: Tier) -> i32 {
    let mut rep = Report::new("C03", tier, "exploration");
    let thorough = tier.is_thorough();
    let ids: Vec<u32> = {
        let mut v = vec![0u32, 1, 2, 0x7fff_ffff, 0x8000_0000, 0xffff_fffe, 0xffff_ffff];
        for b in 0..32 {
            v.push(1u32 << b);
        }
        v.sort();
        v.dedup();
        v
    };

    // ---- 1a. every payload length 0..=65535 (cmd and id cycle with the length)
    let ids2 = ids.clone();
    let res: Vec<Vec<V>> = par_map(65536, 16, move |len| {
        let mut viols = vec![];
        let cmdb = (len % 256) as u8;
        let id = ids2[len % ids2.len()];
        let data = body(len, id);
        let wire = enc(cmdb, id, &data);
        if let Err(e) = decode_pieces(&wire, &[]) {
            viols.push(("C03:decode-mismatch".to_string(), format!("cmd={cmdb} id={id:#x} len={len}: {e}"), json!({"cmd": cmdb, "id": id, "len": len})));
        }
        // the same frame delivered in two pieces: header | payload, all but the last byte | last byte;
        // near every power of two and at both ends of the length range also every cut in the last 8 bytes and the header
        let total = wire.len();
        let mut cutset: Vec<usize> = vec![7.min(total - 1), total - 1];
        let near_boundary = len <= 64 || len >= 65_500 || (3..16).any(|k| (len as i64 - (1i64 << k)).abs() <= 8);
        if near_boundary {
            for k in 1..=9usize {
                if total > k {
                    cutset.push(total - k);
                }
            }
            for k in 1..7usize {
                if total > k {
                    cutset.push(k);
                }
            }
        }
        cutset.sort_unstable();
        cutset.dedup();
        for c in cutset {
            if c == 0 || c >= total {
                continue;
            }
            if let Err(e) = decode_pieces(&wire, &[c]) {
                viols.push(("C03:chunking-dependent".to_string(), format!("cmd={cmdb} id={id:#x} len={len} delivered as {c} + {} bytes: {e}", total - c), json!({"cmd": cmdb, "id": id, "len": len, "cut": c})));
                break;
            }
        }
        // encode of the corresponding Command variant
        let c = cmd_of(cmdb);
        let mut out = BytesMut::new();
        match FrameCodec.encode(Frame::with_data(c, id, Bytes::from(data.clone())), &mut out) {
            Err(e) => viols.push(("C03:encode-failed".to_string(), format!("encode of a legal frame (len {len}) failed: {e}"), json!({"len": len}))),
            Ok(()) => {
                let want = enc(u8::from(c), id, &data);
                if out[..] != want[..] {
                    viols.push(("C03:encode-mismatch".to_string(), format!("cmd={:?} id={id:#x} len={len}: encoder output differs from the reference encoding", c), json!({"len": len})));
                }
            }
        }
        viols
    });
    for (len, v) in res.into_iter().enumerate() {
        rep.case(Some(&format!("len{len}")));
        for (k, d, r) in v {
            rep.violation(&k, &d, json!({"engine": "IX", "case": r}));
        }
    }
    rep.sample(json!({"part": "length sweep", "len": 65535, "cmd": 255, "id": "cycled"}));

    // ---- 1b. every command byte x every id x boundary lengths
    let lens = [0usize, 1, 6, 7, 8, 255, 256, 65535];
    for cmdb in 0..=255u8 {
        for id in &ids {
            for len in lens {
                if len == 65535 && *id > 2 && !thorough {
                    continue;
                }
                let data = body(len, *id ^ cmdb as u32);
                let wire = enc(cmdb, *id, &data);
                rep.case(Some(&format!("cmd{cmdb} id{id} len{len}")));
                if let Err(e) = decode_pieces(&wire, &[]) {
                    rep.violation("C03:decode-mismatch", &format!("cmd={cmdb} id={id:#x} len={len}: {e}"), json!({"engine": "IX", "cmd": cmdb, "id": id, "len": len}));
                }
                if cmdb <= 10 {
                    let mut out = BytesMut::new();
                    let r = FrameCodec.encode(Frame::with_data(cmd_of(cmdb), *id, Bytes::from(data.clone())), &mut out);
                    if r.is_err() || out[..] != wire[..] {
                        rep.violation("C03:encode-mismatch", &format!("cmd={cmdb} id={id:#x} len={len}"), json!({"engine": "IX", "cmd": cmdb, "id": id, "len": len}));
                    } else {
                        // round trip through the implementation's own decoder
                        let mut b2 = BytesMut::from(&out[..]);
                        match FrameCodec.decode(&mut b2) {
                            Ok(Some(f)) if u8::from(f.cmd) == cmdb && f.stream_id == *id && f.data[..] == data[..] && b2.is_empty() => {}
                            other => rep.violation("C03:roundtrip", &format!("cmd={cmdb} id={id:#x} len={len}: {:?}", other.map(|o| o.map(|f| (f.cmd, f.stream_id, f.data.len())))), json!({"engine": "IX", "cmd": cmdb, "id": id, "len": len})),
                        }
                    }
                }
            }
        }
    }

    // ---- 2. attempted lengths above 65535: error, or frames whose headers agree with their payloads
    for len in [65536usize, 65537, 70000, 131071, 131072, 200000] {
        rep.case(Some(&format!("over{len}")));
        let data = body(len, 77);
        let mut out = BytesMut::new();
        match FrameCodec.encode(Frame::with_data(Command::Push, 9, Bytes::from(data.clone())), &mut out) {
            Err(_) => {}
            Ok(()) => {
                let (frames, left) = parse_all(&out);
                let cat: Vec<u8> = frames.iter().flat_map(|f| f.data.clone()).collect();
                if left != 0 || cat != data || frames.iter().any(|f| f.cmd != PSH || f.id != 9) {
                    rep.violation(
                        "C03:encoder-header-disagrees-with-payload",
                        &format!("encoding a {len}-byte payload succeeded, but the output does not parse into frames carrying that payload (first header says {} bytes, {} bytes follow)", u16::from_be_bytes([out[5], out[6]]), out.len() - 7),
                        json!({"engine": "IX", "payload_len": len}),
                    );
                }
            }
        }
    }

    // ---- 2b. encoding into a buffer that is kept: frames appended one after the other, refused encodes in between.
    //          The buffer must hold exactly the encodings of the accepted frames (a refusal emits nothing).
    {
        let seqs: Vec<Vec<usize>> = vec![vec![5, 70000, 3], vec![70000, 4], vec![0, 65536, 0], vec![65535, 65536, 1], vec![1, 2, 3], vec![200000, 200000, 7]];
        for seq in seqs {
            rep.case(Some(&format!("appended {:?}", seq)));
            let mut out = BytesMut::new();
            let mut want: Vec<u8> = vec![];
            let mut refused = vec![];
            for (i, len) in seq.iter().enumerate() {
                let data = body(*len, 30 + i as u32);
                let cmd = if i % 2 == 0 { Command::Push } else { Command::Waste };
                let before = out.len();
                match FrameCodec.encode(Frame::with_data(cmd, 100 + i as u32, Bytes::from(data.clone())), &mut out) {
                    Ok(()) => {
                        if *len <= 65535 {
                            want.extend_from_slice(&enc(if i % 2 == 0 { PSH } else { WASTE }, 100 + i as u32, &data));
                        } else {
                            // an encoder that splits instead of refusing: whatever it appended must parse into frames carrying the data
                            let (frames, left) = parse_all(&out[before..]);
                            let cat: Vec<u8> = frames.iter().flat_map(|f| f.data.clone()).collect();
                            if left != 0 || cat != data {
                                rep.violation("C03:encoder-header-disagrees-with-payload", &format!("appending a {len}-byte frame succeeded but the appended bytes do not parse into frames carrying it"), json!({"engine": "IX", "appended": seq}));
                            }
                            want.extend_from_slice(&out[before..]);
                        }
                    }
                    Err(_) => refused.push(*len),
                }
            }
            if out[..] != want[..] {
                rep.violation("C03:refused-encode-leaves-bytes-in-the-buffer", &format!("frames of payload lengths {:?} encoded one after the other into one buffer ({:?} refused): the buffer holds {} bytes, the accepted frames encode to {} bytes", seq, refused, out.len(), want.len()), json!({"engine": "IX", "appended": seq}));
            }
        }
    }

    // ---- 3. chunking independence
    let alphabet: Vec<Vec<u8>> = vec![
        enc(0, 0, b""),
        enc(2, 1, b"a"),
        enc(2, 2, b"bbbbbb"),
        enc(2, 1, b"ccccccc"),
        enc(2, 3, b"dddddddd"),
        enc(0x7f, 5, b"ee"),
        enc(3, 0xffff_ffff, b""),
        enc(4, 0, b"v=2"),
        enc(7, 1, b"x"),
    ];
    let mut streams: Vec<(Vec<u8>, usize)> = vec![]; // (bytes, number of frames in sequence)
    for a in &alphabet {
        streams.push((a.clone(), 1));
        for b in &alphabet {
            let mut s = a.clone();
            s.extend_from_slice(b);
            streams.push((s.clone(), 2));
            for c in &alphabet {
                let mut t = s.clone();
                t.extend_from_slice(c);
                streams.push((t, 3));
            }
        }
    }
    let all_cut_max = if thorough { 20 } else { 16 };
    let max_cuts_small = if thorough { 3 } else { 2 };
    let streams = std::sync::Arc::new(streams);
    let st2 = streams.clone();
    let res: Vec<(u64, Vec<V>)> = par_map(streams.len(), 16, move |si| {
        let (whole, nframes) = &st2[si];
        let mut viols: Vec<V> = vec![];
        let mut n = 0u64;
        let mut check = |bytes: &[u8], cuts: &[usize], viols: &mut Vec<V>| {
            if let Err(e) = decode_pieces(bytes, cuts) {
                if viols.len() < 3 {
                    viols.push(("C03:chunking-dependent".to_string(), format!("stream {:02x?} cut at {:?}: {e}", bytes, cuts), json!({"bytes": bytes, "cuts": cuts})));
                }
            }
        };
        // prefixes (incomplete tails) only for sequences of <= 2 frames
        let prefix_lens: Vec<usize> = if *nframes <= 2 { (1..=whole.len()).collect() } else { vec![whole.len()] };
        for pl in prefix_lens {
            let bytes = &whole[..pl];
            if pl <= all_cut_max {
                // every cut pattern
                for mask in 0u32..(1u32 << (pl - 1)) {
                    let cuts: Vec<usize> = (1..pl).filter(|i| mask >> (i - 1) & 1 == 1).collect();
                    check(bytes, &cuts, &mut viols);
                    n += 1;
                }
            } else {
                check(bytes, &[], &mut viols);
                n += 1;
                for a in 1..pl {
                    check(bytes, &[a], &mut viols);
                    n += 1;
                    for b in a + 1..pl {
                        check(bytes, &[a, b], &mut viols);
                        n += 1;
                        if max_cuts_small >= 3 && *nframes <= 2 {
                            for c in b + 1..pl {
                                check(bytes, &[a, b, c], &mut viols);
                                n += 1;
                            }
                        }
                    }
                }
            }
        }
        // byte-at-a-time
        let cuts: Vec<usize> = (1..whole.len()).collect();
        check(whole, &cuts, &mut viols);
        n += 1;
        (n, viols)
    });
    let mut chunk_cases = 0u64;
    for (si, (n, v)) in res.into_iter().enumerate() {
        chunk_cases += n;
        rep.evaluations += n;
        rep.nontrivial.insert(0x1000_0000 + si as u64);
        for (k, d, r) in v {
            rep.violation(&k, &d, json!({"engine": "IX", "case": r}));
        }
    }
    rep.sample(json!({"part": "chunking", "stream_hex": format!("{:02x?}", &streams[100].0), "all cut patterns up to bytes": all_cut_max}));

    // ---- 4. arbitrary bytes: each header byte swept through 256 values in several contexts; all 65536 length fields against short buffers
    let contexts: Vec<Vec<u8>> = vec![
        { let mut v = enc(2, 1, &body(5, 1)); v.extend_from_slice(&enc(3, 1, b"")); v },
        { let mut v = enc(4, 0, &body(300, 2)); v.extend_from_slice(&[1, 2, 3]); v },
        vec![0xff; 14],
        enc(9, 0, b""),
    ];
    let mut arb = 0u64;
    for ctx in &contexts {
        for pos in 0..7.min(ctx.len()) {
            for val in 0..=255u8 {
                let mut b = ctx.clone();
                b[pos] = val;
                arb += 1;
                rep.case(Some(&format!("arb{arb}")));
                for cuts in [vec![], vec![pos.max(1)], vec![7.min(b.len() - 1)]] {
                    if let Err(e) = decode_pieces(&b, &cuts) {
                        rep.violation("C03:arbitrary-bytes", &format!("bytes {:02x?} cuts {:?}: {e}", &b[..b.len().min(24)], cuts), json!({"engine": "IX", "bytes": b, "cuts": cuts}));
                    }
                }
            }
        }
    }
    for lenfield in 0..=65535u32 {
        let mut b = vec![2u8, 0, 0, 0, 1, (lenfield >> 8) as u8, lenfield as u8];
        b.extend_from_slice(&body(20, lenfield));
        rep.case(None);
        if let Err(e) = decode_pieces(&b, &[]) {
            rep.violation("C03:arbitrary-bytes", &format!("length field {lenfield} with 20 bytes following: {e}"), json!({"engine": "IX", "length_field": lenfield}));
        }
    }
    // all byte strings of length <= 2 and all 3-byte strings with a fixed last byte: never a frame, never an error
    for a in 0..=255u8 {
        for b in 0..=255u8 {
            rep.case(None);
            if decode_pieces(&[a, b], &[1]).is_err() || decode_pieces(&[a, b, 7], &[]).is_err() {
                rep.violation("C03:arbitrary-bytes", &format!("short string {a:#x} {b:#x}"), json!({"engine": "IX"}));
            }
        }
    }

    // ---- 5. the same question at the session's own reader (Session::recv_loop owns the buffer between transport reads):
    // short frame sequences fed to a real server session under every pattern of <= 3 (4) cuts; the answers to the
    // HeartRequests in them are the observable frame sequence
    let hr = Command::HeartRequest as u8;
    let sstreams: Vec<(Vec<u8>, Vec<u32>)> = vec![
        ([enc(hr, 1, b""), enc(hr, 2, b""), enc(hr, 3, b"")].concat(), vec![1, 2, 3]),
        ([enc(0, 0, &[0; 5]), enc(hr, 1, b""), enc(hr, 2, b"")].concat(), vec![1, 2]),
        ([enc(hr, 1, b""), enc(0, 0, &[0; 9]), enc(hr, 2, b"")].concat(), vec![1, 2]),
        ([enc(0, 0, &[0; 1]), enc(hr, 1, b""), enc(0, 0, &[0; 3]), enc(hr, 2, b"")].concat(), vec![1, 2]),
    ];
    let max_scuts = if thorough { 4 } else { 3 };
    let nstreams = sstreams.len();
    let sres: Vec<(u64, Vec<V>)> = par_map(nstreams * 31, 16, move |job| {
        let (bytes, expect) = &sstreams[job % nstreams];
        let first = job / nstreams + 1; // first cut position (0 cuts handled with first == 1)
        let rt = tokio::runtime::Builder::new_current_thread().enable_time().start_paused(true).build().unwrap();
        let mut viols: Vec<V> = vec![];
        let mut n = 0u64;
        let l = bytes.len();
        if first >= l {
            return (0, viols);
        }
        let mut stack: Vec<Vec<usize>> = vec![vec![first]];
        if first == 1 {
            stack.push(vec![]);
        }
        while let Some(cuts) = stack.pop() {
            n += 1;
            if let Err(e) = session_reader(&rt, bytes, &cuts, expect) {
                if viols.len() < 3 {
                    viols.push(("C03:session-reader-chunking-dependent".to_string(), format!("stream {:02x?} delivered to a server session cut at {:?}: {e}", bytes, cuts), json!({"engine": "IX", "part": "session-reader", "bytes": bytes, "cuts": cuts})));
                }
            }
            if !cuts.is_empty() && cuts.len() < max_scuts {
                for c in cuts[cuts.len() - 1] + 1..l {
                    let mut k = cuts.clone();
                    k.push(c);
                    stack.push(k);
                }
            }
        }
        (n, viols)
    });
    let mut session_cases = 0u64;
    for (n, viols) in sres {
        session_cases += n;
        for _ in 0..n {
            rep.case(None);
        }
        for (k, d, r) in viols {
            rep.violation(&k, &d, r);
        }
    }
    rep.sample(json!({"part": "session-reader", "streams": nstreams, "max_cuts": max_scuts, "cases": session_cases}));
    rep.sections.insert("parts".into(), json!({"length_sweep": 65536, "cmd_x_id_x_boundary_len": 256 * ids.len() * lens.len(), "chunking_streams": streams.len(), "chunking_cases": chunk_cases, "arbitrary_header_bytes": arb, "length_fields": 65536, "session_reader_cases": session_cases}));
    rep.finish("IX against an independent reference codec: all 65536 payload lengths; all 256 command bytes x 39 ids x 8 boundary lengths; over-long payloads (also appended to a kept buffer between accepted frames); every sequence of <=3 frames over a 9-frame alphabet (+ every proper prefix for <=2 frames) under every cut pattern (<=16/20 bytes) or every <=2/3-cut pattern, and byte-at-a-time; every value of each header byte in 4 contexts; all 65536 length fields against a short buffer; 4 frame sequences fed to a real server Session (recv_loop) under every pattern of <=3/4 cuts, answers to the heartbeats compared with whole delivery; non-trivial = distinct (length | cmd,id,len | stream) case")
}
