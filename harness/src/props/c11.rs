//! C11 — concurrent writers cannot scramble the wire (DX).

use crate::ctl::{Outcome, hpoint, scenario};
use crate::dxrun::{DxItem, DxOpts, run_items};
use crate::refmodel::*;
use crate::report::{Report, Tier};
use crate::sess::*;
use crate::vpipe::PipeCfg;
use anytls_rs::protocol::{Command, Frame};
use bytes::Bytes;
use serde_json::json;
use std::sync::{Arc, Mutex};
use std::time::Duration;

#[derive(Clone, Debug)]
pub struct Params {
    pub scheme: &'static str,
    pub scheme_name: &'static str,
    /// openers that run the real open sequence concurrently
    pub openers: usize,
    /// opener index whose later chunks go through Stream::send_data (forwarding task); usize::MAX = none
    pub forwarder_of: usize,
    pub heartbeat_writer: bool,
    /// a complete open+write happens before the race (non-initial state)
    pub pre_packets: usize,
    pub write_menu: bool,
    pub chunks: usize,
    /// the first chunk of every task is larger than one frame can carry (70 000 bytes): the session splits it
    pub big_first_chunk: bool,
    /// > 0: the transport holds 10 bytes and the peer takes them once every this many seconds of virtual time
    /// (40 rounds, then everything): every write is cut in mid-frame by long stalls
    pub stall_s: u64,
    /// Some(k): the transport holds 16 bytes (writes complete partially) and its k-th write call returns
    /// ErrorKind::Interrupted once. The session may end because of it; whatever reached the transport must be whole
    /// frames, each task's in its order, with at most ONE torn frame — at the very end
    pub interrupt_call: Option<usize>,
    /// with `interrupt_call`: the call accepts 0 bytes (Ok(0)) instead of returning Interrupted
    pub zero_instead: bool,
}

#[derive(Clone, Debug, PartialEq)]
enum Sub {
    Syn(u32),
    Psh(u32, Vec<u8>),
    Hreq,
}

pub fn make(p: Params) -> crate::ctl::ScenarioFn {
    scenario(move || {
        let p = p.clone();
        async move {
            let mut out = Outcome::default();
            let scenario_start = tokio::time::Instant::now();
            let link = peer_link(
                PipeCfg::new("s2c"),
                if p.stall_s > 0 { PipeCfg::new("c2s").menus(false, p.write_menu).capacity(10) } else if p.interrupt_call.is_some() { PipeCfg::new("c2s").menus(false, p.write_menu).capacity(16) } else { PipeCfg::new("c2s").menus(false, p.write_menu) },
            );
            if let Some(k) = p.interrupt_call {
                if p.zero_instead { link.peer.out.set_write_zero_call(k) } else { link.peer.out.set_write_interrupt_call(k) }
            }
            let wire = link.peer.out.clone();
            let sess = match start_client_session(
                link.sess_r,
                link.sess_w,
                padding(p.scheme),
                None,
                0,
            )
            .await
            {
                Ok(s) => s,
                Err(e) => {
                    out.viol("C11:start-failed", format!("start_client failed: {e}"));
                    return out;
                }
            };
            {
                let stall = p.stall_s;
                let peer = link.peer;
                tokio::spawn(async move {
                    let mut peer = peer;
                    if stall > 0 {
                        // a trickle: 10 bytes are taken every `stall` seconds for 40 rounds, then everything
                        for _ in 0..40 {
                            tokio::time::sleep(Duration::from_secs(stall)).await;
                            if !peer.read_some().await {
                                break;
                            }
                        }
                        peer.out.set_capacity(usize::MAX);
                    }
                    peer.sink().await
                });
            }
            // per-task submission logs (only submissions that returned Ok)
            let logs: Arc<Mutex<Vec<Vec<Sub>>>> =
                Arc::new(Mutex::new(vec![vec![]; p.openers + 2]));
            let errs: Arc<Mutex<Vec<String>>> = Arc::new(Mutex::new(vec![]));
            // every submission that was STARTED, in order (a frame can be on the wire although its submission returned an
            // error — the error came with a later record of the same packet or with the flush)
            let attempts: Arc<Mutex<Vec<Vec<Sub>>>> = Arc::new(Mutex::new(vec![vec![]; p.openers + 2]));

            // non-initial state: one complete open + write before the race
            for k in 0..p.pre_packets {
                let tag = 200 + k as u8;
                match sess.open_stream().await {
                    Ok((st, _rx)) => {
                        let id = st.id();
                        logs.lock().unwrap()[p.openers + 1].push(Sub::Syn(id));
                        sess.disable_buffering();
                        let d = pat_vec(tag, 0, 0, 9);
                        if sess.write_data_frame(id, Bytes::from(d.clone())).await.is_ok() {
                            logs.lock().unwrap()[p.openers + 1].push(Sub::Psh(id, d));
                        }
                    }
                    Err(e) => errs.lock().unwrap().push(format!("pre open: {e}")),
                }
            }

            let mut handles = vec![];
            if p.heartbeat_writer {
                let sess = sess.clone();
                let logs = logs.clone();
                let errs = errs.clone();
                let slot = p.openers;
                let attempts = attempts.clone();
                handles.push(tokio::spawn(async move {
                    hpoint("h.hb.start").await;
                    attempts.lock().unwrap()[slot].push(Sub::Hreq);
                    match within(sess.write_control_frame(Frame::control(Command::HeartRequest, 0)))
                        .await
                    {
                        Some(Ok(())) => logs.lock().unwrap()[slot].push(Sub::Hreq),
                        Some(Err(e)) => errs.lock().unwrap().push(format!("heartbeat write: {e}")),
                        None => errs.lock().unwrap().push("heartbeat write: blocked forever".into()),
                    }
                }));
            }
            for t in 0..p.openers {
                let sess = sess.clone();
                let logs = logs.clone();
                let errs = errs.clone();
                let p = p.clone();
                let attempts = attempts.clone();
                handles.push(tokio::spawn(async move {
                    let tag = t as u8 + 1;
                    hpoint("h.opener.start").await;
                    let (st, _rx) = match within(sess.open_stream()).await {
                        Some(Ok(x)) => x,
                        Some(Err(e)) => {
                            errs.lock().unwrap().push(format!("open_stream task {t}: {e}"));
                            return;
                        }
                        None => {
                            errs.lock().unwrap().push(format!("open_stream task {t}: blocked forever"));
                            return;
                        }
                    };
                    let id = st.id();
                    logs.lock().unwrap()[t].push(Sub::Syn(id));
                    attempts.lock().unwrap()[t].push(Sub::Syn(id));
                    sess.disable_buffering();
                    let dest = pat_vec(tag, 0, 0, 9);
                    attempts.lock().unwrap()[t].push(Sub::Psh(id, dest.clone()));
                    match within(sess.write_data_frame(id, Bytes::from(dest.clone()))).await {
                        Some(Ok(())) => logs.lock().unwrap()[t].push(Sub::Psh(id, dest)),
                        Some(Err(e)) => {
                            errs.lock().unwrap().push(format!("write dest task {t}: {e}"));
                            return;
                        }
                        None => {
                            errs.lock().unwrap().push(format!("write dest task {t}: blocked forever"));
                            return;
                        }
                    }
                    for c in 0..p.chunks {
                        let d = pat_vec(tag, 0, 100 * (c + 1), if p.big_first_chunk && c == 0 { 70_000 } else { 5 + c });
                        attempts.lock().unwrap()[t].push(Sub::Psh(id, d.clone()));
                        if p.forwarder_of == t {
                            // the path handler.rs / udp code use: queue to the forwarding task
                            if st.send_data(Bytes::from(d.clone())).is_ok() {
                                logs.lock().unwrap()[t].push(Sub::Psh(id, d));
                            } else {
                                errs.lock().unwrap().push(format!("send_data task {t} failed"));
                            }
                        } else {
                            match within(sess.write_data_frame(id, Bytes::from(d.clone()))).await {
                                Some(Ok(())) => logs.lock().unwrap()[t].push(Sub::Psh(id, d)),
                                Some(Err(e)) => {
                                    errs.lock().unwrap().push(format!("write task {t}: {e}"))
                                }
                                None => errs
                                    .lock().unwrap()
                                    .push(format!("write task {t}: blocked forever")),
                            }
                        }
                    }
                    drop(st);
                }));
            }
            for h in handles {
                let _ = h.await;
            }
            // quiescence: let the forwarding task drain
            tokio::time::sleep_until(scenario_start + Duration::from_secs(5 + 41 * p.stall_s)).await;
            tokio::time::sleep(Duration::from_secs(5)).await;

            // ---- oracle on the decoded wire
            let bytes = wire.written();
            let (frames, leftover) = parse_all(&bytes);
            let real: Vec<RFrame> = frames.iter().filter(|f| f.cmd != WASTE).cloned().collect();
            out.obs = format!(
                "wire=[{}] leftover={} errs={:?}",
                fmt_frames(&real),
                leftover,
                errs.lock().unwrap()
            );
            let faulty = p.interrupt_call.is_some();
            if !faulty && !errs.lock().unwrap().is_empty() {
                out.viol(
                    "C11:write-failed-on-healthy-transport",
                    format!("{:?}", errs.lock().unwrap()),
                );
            }
            // (after an injected fault one torn frame may end the wire: `parse_all` stops at it, and any frame written
            // BEHIND a torn one shows as garbage commands or as frames nobody submitted)
            if leftover != 0 && (!faulty || frames.iter().any(|f| f.cmd > SERVER_SETTINGS)) {
                out.viol(
                    "C11:wire-not-whole-frames",
                    format!("{} trailing bytes do not form a frame; frames: {}", leftover, fmt_frames(&frames)),
                );
            }
            for f in &frames {
                if f.cmd == WASTE && f.data.iter().any(|b| *b != 0) {
                    out.viol(
                        "C11:frame-not-contiguous",
                        "padding frame carries non-zero bytes (payload spliced into padding)",
                    );
                }
            }
            if real.first().map(|f| f.cmd) != Some(SETTINGS) && !(faulty && real.is_empty()) {
                out.viol(
                    "C11:settings-not-first",
                    format!("first frame on the wire is not the settings frame: {}", fmt_frames(&real)),
                );
            }
            if real.iter().filter(|f| f.cmd == SETTINGS).count() != 1 && !(faulty && real.is_empty()) {
                out.viol("C11:settings-count", format!("wire: {}", fmt_frames(&real)));
            }
            let logs = logs.lock().unwrap();
            let attempts = attempts.lock().unwrap();
            let mut accounted = if faulty { real.iter().filter(|f| f.cmd == SETTINGS).count().min(1) } else { 1usize }; // settings
            for (t, log) in logs.iter().enumerate() {
                // after an injected fault the reference is what was started, not what returned Ok
                let log = if faulty { &attempts[t] } else { log };
                if log.is_empty() {
                    continue;
                }
                // frames of this task on the wire, in wire order
                let ids: Vec<u32> = log
                    .iter()
                    .filter_map(|s| match s {
                        Sub::Syn(i) | Sub::Psh(i, _) => Some(*i),
                        _ => None,
                    })
                    .collect();
                let on_wire: Vec<Sub> = real
                    .iter()
                    .filter_map(|f| match f.cmd {
                        SYN if ids.contains(&f.id) => Some(Sub::Syn(f.id)),
                        PSH if ids.contains(&f.id) => Some(Sub::Psh(f.id, f.data.clone())),
                        HEART_REQ if log.contains(&Sub::Hreq) => Some(Sub::Hreq),
                        _ => None,
                    })
                    .collect();
                accounted += on_wire.len();
                // a chunk larger than a frame is split by the session: compare the per-stream byte sequences
                // (runs of data frames of one stream merged) instead of frame by frame
                let (on_wire, log_owned) = if p.big_first_chunk { (merge_runs(&on_wire), merge_runs(log)) } else { (on_wire, log.clone()) };
                let log = &log_owned;
                // after an injected fault the session may have ended: what is on the wire is a prefix of what the task
                // submitted (buffered or queued frames may never have been written)
                if faulty && log.starts_with(&on_wire) {
                    continue;
                }
                if on_wire != *log {
                    // classify
                    let mut sorted_w: Vec<String> = on_wire.iter().map(|s| format!("{s:?}")).collect();
                    let mut sorted_l: Vec<String> = log.iter().map(|s| format!("{s:?}")).collect();
                    sorted_w.sort();
                    sorted_l.sort();
                    let same_bytes = |a: &[Sub], b: &[Sub]| {
                        let col = |v: &[Sub]| {
                            let mut x: Vec<u8> = v.iter().flat_map(|s| if let Sub::Psh(_, d) = s { d.clone() } else { vec![] }).collect();
                            x.sort_unstable();
                            x
                        };
                        col(a) == col(b)
                    };
                    let key = if p.big_first_chunk && sorted_w != sorted_l && same_bytes(&on_wire, log) {
                        "C11:task-order-violated"
                    } else if sorted_w == sorted_l {
                        // same multiset, different order
                        let first_psh = on_wire.iter().position(|s| matches!(s, Sub::Psh(..)));
                        let syn = on_wire.iter().position(|s| matches!(s, Sub::Syn(..)));
                        if let (Some(a), Some(b)) = (first_psh, syn)
                            && a < b
                        {
                            "C11:data-before-syn"
                        } else {
                            "C11:task-order-violated"
                        }
                    } else if on_wire.len() < log.len() {
                        "C11:frame-dropped"
                    } else {
                        "C11:frame-duplicated-or-altered"
                    };
                    out.viol(
                        key,
                        format!("task {t}: submitted {:?} but wire has {:?}", short(log), short(&on_wire)),
                    );
                }
            }
            if faulty {
                // an open_stream that returned an error because of the injected fault may have put its SYN on the wire
                // whole (the error came with the flush): its id is known to nobody — at most one such SYN per opener
                let known_ids: Vec<u32> = attempts.iter().flatten().filter_map(|s| match s { Sub::Syn(i) | Sub::Psh(i, _) => Some(*i), _ => None }).collect();
                let orphan_syns = real.iter().filter(|f| f.cmd == SYN && !known_ids.contains(&f.id)).count();
                if orphan_syns <= p.openers {
                    accounted += orphan_syns;
                }
            }
            if accounted != real.len() {
                out.viol(
                    "C11:unexpected-frames",
                    format!("{} frames on the wire, {} accounted for: {}", real.len(), accounted, fmt_frames(&real)),
                );
            }
            // SYN s precedes every PSH s (global check)
            for (i, f) in real.iter().enumerate() {
                if f.cmd == PSH && !real[..i].iter().any(|g| g.cmd == SYN && g.id == f.id) {
                    out.viol(
                        "C11:data-before-syn",
                        format!("PSH for stream {} precedes its SYN: {}", f.id, fmt_frames(&real)),
                    );
                    break;
                }
            }
            out
        }
    })
}

fn merge_runs(v: &[Sub]) -> Vec<Sub> {
    let mut out: Vec<Sub> = vec![];
    for s in v {
        if let (Some(Sub::Psh(i, d)), Sub::Psh(j, e)) = (out.last_mut(), s)
            && *i == *j
        {
            d.extend_from_slice(e);
            continue;
        }
        out.push(s.clone());
    }
    out
}

fn short(v: &[Sub]) -> Vec<String> {
    v.iter()
        .map(|s| match s {
            Sub::Syn(i) => format!("SYN{i}"),
            Sub::Psh(i, d) => format!("PSH{i}[{}]", d.len()),
            Sub::Hreq => "HREQ".into(),
        })
        .collect()
}

pub fn params_json(p: &Params) -> serde_json::Value {
    json!({"scheme": p.scheme_name, "openers": p.openers, "forwarder_of": if p.forwarder_of==usize::MAX {-1} else {p.forwarder_of as i64},
           "heartbeat_writer": p.heartbeat_writer, "pre_packets": p.pre_packets, "write_menu": p.write_menu, "chunks": p.chunks, "big_first_chunk": p.big_first_chunk, "stall_s": p.stall_s, "interrupted_write_call": p.interrupt_call, "ok0_instead_of_interrupted": p.zero_instead})
}

pub fn all_params(tier: Tier) -> Vec<(Params, usize)> {
    let mut v = vec![];
    let schemes: [(&'static str, &'static str); 4] =
        [(STOP0, "stop0"), (DEFAULT, "default"), (TINY, "tiny"), (BRANCHY, "branchy")];
    for (scheme, scheme_name) in schemes {
        for pre in [0usize, 1] {
            // (forwarder_of, heartbeat, write_menu, bound quick, bound thorough)
            let variants: Vec<(usize, bool, bool, usize, usize)> = vec![
                (usize::MAX, false, false, 2, 3),
                (1, false, false, 2, 3),
                (1, true, false, 2, 3),
                (usize::MAX, false, true, 1, 2),
            ];
            for (fw, hb, wm, bq, bt) in variants {
                if pre == 1 && (wm || hb) && !tier.is_thorough() {
                    continue;
                }
                v.push((
                    Params {
                        scheme,
                        scheme_name,
                        openers: 2,
                        forwarder_of: fw,
                        heartbeat_writer: hb,
                        pre_packets: pre,
                        write_menu: wm,
                        chunks: 2,
                        big_first_chunk: false,
                        stall_s: 0,
                        interrupt_call: None,
                        zero_instead: false,
                    },
                    if tier.is_thorough() { bt } else { bq },
                ));
                // the same race with a first chunk that needs several frames (direct writers and the forwarding task)
                if !hb && !wm && pre == 0 && scheme_name != "tiny" {
                    v.push((
                        Params { scheme, scheme_name, openers: 2, forwarder_of: fw, heartbeat_writer: false, pre_packets: 0, write_menu: false, chunks: 2, big_first_chunk: true, stall_s: 0, interrupt_call: None, zero_instead: false },
                        if tier.is_thorough() { 2 } else { 1 },
                    ));
                }
            }
        }
    }
    v
}

/// Client level: the real `Client` (dial, TLS handshake, authentication, session set-up, pool) over the in-memory
/// dialer seam; `n` concurrent create_proxy_stream calls on a fresh client (one creates the session, the others may
/// reuse it or dial their own). Oracle on what the scripted TLS server decrypted, per connection.
pub fn make_client_race(n: usize, scheme: &'static str, pre_request: bool) -> crate::ctl::ScenarioFn {
    use crate::cworld::*;
    scenario(move || async move {
        let mut out = Outcome::default();
        let w = CWorld::start(padding(scheme), quiet_pool(1), Answer::Ok);
        if pre_request {
            // non-initial state: a session already exists and sits in the pool
            match within(w.client.create_proxy_stream(("example.com".to_string(), 999))).await {
                Some(Ok(_)) => {}
                other => {
                    out.viol("C11:client:request-failed", format!("first request: {:?}", other.map(|r| r.map(|_| ()).map_err(|e| e.to_string()))));
                    return out;
                }
            }
        }
        let results: Arc<Mutex<Vec<Option<String>>>> = Arc::new(Mutex::new(vec![None; n]));
        let mut hs = vec![];
        for t in 0..n {
            let c = w.client.clone();
            let results = results.clone();
            hs.push(tokio::spawn(async move {
                hpoint("h.c11c.start").await;
                let r = within(c.create_proxy_stream(("example.com".to_string(), 1001 + t as u16))).await;
                results.lock().unwrap()[t] = Some(match r {
                    None => "blocked".to_string(),
                    Some(Ok((st, sess))) => {
                        let s = format!("ok:stream{}", st.id());
                        // keep stream and session alive until the scenario ends
                        std::mem::forget((st, sess));
                        s
                    }
                    Some(Err(e)) => format!("error: {e}"),
                });
            }));
        }
        for h in hs {
            let _ = h.await;
        }
        tokio::time::sleep(Duration::from_secs(2)).await;
        let res = results.lock().unwrap().clone();
        let logs = w.logs();
        out.obs = format!("results={:?} conns={:?}", res, logs.iter().map(|l| fmt_frames(&l.frames)).collect::<Vec<_>>());
        for (t, r) in res.iter().enumerate() {
            if !r.as_deref().unwrap_or("").starts_with("ok:") {
                out.viol("C11:client:request-failed", format!("request {t} (port {}) of {n} concurrent requests on a healthy in-memory server: {:?}; server saw {:?}", 1001 + t, r, logs.iter().map(|l| fmt_frames(&l.frames)).collect::<Vec<_>>()));
            }
        }
        let mut dests: Vec<u16> = vec![];
        for (ci, l) in logs.iter().enumerate() {
            if l.frames.is_empty() {
                continue;
            }
            if !l.preamble_ok {
                out.viol("C11:client:bad-preamble", format!("connection {ci}"));
            }
            if l.frames.first().map(|f| f.cmd) != Some(SETTINGS) {
                out.viol("C11:settings-not-first", format!("connection {ci} of the real Client: first frame is not the settings frame: {}", fmt_frames(&l.frames)));
            }
            if l.frames.iter().filter(|f| f.cmd == SETTINGS).count() != 1 {
                out.viol("C11:settings-count", format!("connection {ci}: {}", fmt_frames(&l.frames)));
            }
            let mut first_psh_seen: Vec<u32> = vec![];
            for (i, f) in l.frames.iter().enumerate() {
                if f.cmd == PSH {
                    if !l.frames[..i].iter().any(|g| g.cmd == SYN && g.id == f.id) {
                        out.viol("C11:data-before-syn", format!("connection {ci}: PSH for stream {} precedes its SYN: {}", f.id, fmt_frames(&l.frames)));
                    }
                    if !first_psh_seen.contains(&f.id) {
                        first_psh_seen.push(f.id);
                        // the first data frame of a stream is its destination: 03 len "example.com" port
                        let ok = f.data.len() == 2 + 11 + 2 && f.data[0] == 3 && &f.data[2..13] == b"example.com";
                        if ok {
                            dests.push(u16::from_be_bytes([f.data[13], f.data[14]]));
                        } else {
                            out.viol("C11:first-data-frame-overtaken-or-dropped", format!("connection {ci}: the first data frame of stream {} is not its destination: {:02x?}", f.id, &f.data[..f.data.len().min(20)]));
                        }
                    }
                }
            }
            for f in l.frames.iter().filter(|f| f.cmd == SYN) {
                if !first_psh_seen.contains(&f.id) {
                    out.viol("C11:frame-dropped", format!("connection {ci}: stream {} was opened but its destination frame never arrived: {}", f.id, fmt_frames(&l.frames)));
                }
            }
        }
        let mut want: Vec<u16> = (0..n).map(|t| 1001 + t as u16).collect();
        if pre_request {
            want.push(999);
        }
        dests.sort_unstable();
        want.sort_unstable();
        if dests != want && out.violations.is_empty() {
            out.viol("C11:frame-dropped", format!("destinations seen by the server {:?}, requested {:?}", dests, want));
        }
        drop(w);
        out
    })
}

/// Long stalls in mid-frame: the transport takes 10 bytes every 16 / 31 / 61 s (40 rounds), then everything.
pub fn stall_params(tier: Tier) -> Vec<(Params, usize)> {
    let mut v = vec![];
    for (scheme, scheme_name) in [(STOP0, "stop0"), (DEFAULT, "default")] {
        for fw in [usize::MAX, 1] {
            for hb in [false, true] {
                for stall_s in [16u64, 31, 61] {
                    if !tier.is_thorough() && scheme_name == "default" && stall_s != 61 {
                        continue;
                    }
                    v.push((Params { scheme, scheme_name, openers: 2, forwarder_of: fw, heartbeat_writer: hb, pre_packets: 0, write_menu: false, chunks: 2, big_first_chunk: false, stall_s, interrupt_call: None, zero_instead: false }, if tier.is_thorough() { 1 } else { 0 }));
                }
            }
        }
    }
    v
}

/// One write call returns Interrupted (narrow transport, partial writes) while several tasks write.
pub fn interrupt_params(tier: Tier) -> Vec<(Params, usize)> {
    let mut v = vec![];
    for (scheme, scheme_name) in [(STOP0, "stop0"), (TINY, "tiny")] {
        for fw in [usize::MAX, 1] {
            for k in 0..(if tier.is_thorough() { 24 } else { 14 }) {
                for zero in [false, true] {
                    v.push((Params { scheme, scheme_name, openers: 2, forwarder_of: fw, heartbeat_writer: true, pre_packets: 0, write_menu: false, chunks: 2, big_first_chunk: false, stall_s: 0, interrupt_call: Some(k), zero_instead: zero }, if tier.is_thorough() { 1 } else { 0 }));
                }
            }
        }
    }
    v
}

/// Server role: a real server session whose receive loop answers (SERVER_SETTINGS, UPDATE_PADDING_SCHEME, HEART_RESP)
/// while two handler tasks write their SYNACK (write_control_frame, as handler.rs does) and response data (through the
/// forwarding task or directly). Oracle on the decoded wire: whole frames only, every task's frames in its order
/// (SYNACK s before the first data of s), keep-alive answers in request order.
pub fn make_server_race(scheme: &'static str, via_forwarder: bool, write_menu: bool, big: bool) -> crate::ctl::ScenarioFn {
    scenario(move || async move {
        let mut out = Outcome::default();
        let link = peer_link(PipeCfg::new("c2s"), PipeCfg::new("s2c").menus(false, write_menu));
        let wire = link.peer.out.clone();
        let inj = link.peer.inj.clone();
        let mut ss = start_server_session(link.sess_r, link.sess_w, padding(scheme), None);
        tokio::spawn(link.peer.sink());
        let logs: Arc<Mutex<Vec<Vec<(u8, u32, Vec<u8>)>>>> = Arc::new(Mutex::new(vec![vec![]; 2]));
        let errs: Arc<Mutex<Vec<String>>> = Arc::new(Mutex::new(vec![]));
        // the peer's whole conversation is available at once: the receive loop works through it while the handlers run
        let mut conv = vec![];
        conv.extend_from_slice(&enc(SETTINGS, 0, &client_settings("00000000000000000000000000000000")));
        conv.extend_from_slice(&enc(SYN, 1, b""));
        conv.extend_from_slice(&enc(PSH, 1, &[1, 127, 0, 0, 1, 0, 80]));
        conv.extend_from_slice(&enc(HEART_REQ, 5, b""));
        conv.extend_from_slice(&enc(SYN, 2, b""));
        conv.extend_from_slice(&enc(PSH, 2, &[1, 127, 0, 0, 1, 0, 81]));
        conv.extend_from_slice(&enc(HEART_REQ, 6, b""));
        inj.push(&conv);
        let mut hs = vec![];
        for t in 0..2usize {
            let st = match within(ss.streams.recv()).await {
                Some(Some(st)) => st,
                _ => {
                    out.viol("C11:server:stream-not-accepted", format!("stream {} never reached the stream callback", t + 1));
                    return out;
                }
            };
            let sess = ss.sess.clone();
            let logs = logs.clone();
            let errs = errs.clone();
            hs.push(tokio::spawn(async move {
                let id = st.id();
                let tag = id as u8;
                hpoint("h.c11s.handler").await;
                match within(sess.write_control_frame(Frame::control(Command::SynAck, id))).await {
                    Some(Ok(())) => logs.lock().unwrap()[t].push((SYNACK, id, vec![])),
                    other => {
                        errs.lock().unwrap().push(format!("synack of stream {id}: {:?}", other.map(|r| r.map_err(|e| e.to_string()))));
                        return;
                    }
                }
                for c in 0..2usize {
                    let d = pat_vec(tag, 1, 100 * c, if big && c == 0 { 70_000 } else { 6 + c });
                    if via_forwarder {
                        if st.send_data(Bytes::from(d.clone())).is_ok() {
                            logs.lock().unwrap()[t].push((PSH, id, d));
                        } else {
                            errs.lock().unwrap().push(format!("send_data on stream {id} failed"));
                        }
                    } else {
                        match within(sess.write_data_frame(id, Bytes::from(d.clone()))).await {
                            Some(Ok(())) => logs.lock().unwrap()[t].push((PSH, id, d)),
                            other => errs.lock().unwrap().push(format!("data of stream {id}: {:?}", other.map(|r| r.map_err(|e| e.to_string())))),
                        }
                    }
                }
                // keep the stream until the scenario ends
                tokio::time::sleep(Duration::from_secs(30)).await;
                drop(st);
            }));
        }
        tokio::time::sleep(Duration::from_secs(5)).await;
        let bytes = wire.written();
        let (frames, leftover) = parse_all(&bytes);
        let real: Vec<RFrame> = frames.iter().filter(|f| f.cmd != WASTE).cloned().collect();
        out.obs = format!("wire=[{}] leftover={} errs={:?}", fmt_frames(&real), leftover, errs.lock().unwrap());
        if !errs.lock().unwrap().is_empty() {
            out.viol("C11:write-failed-on-healthy-transport", format!("server role: {:?}", errs.lock().unwrap()));
        }
        if leftover != 0 {
            out.viol("C11:wire-not-whole-frames", format!("server role: {} trailing bytes do not form a frame; frames: {}", leftover, fmt_frames(&frames)));
        }
        if frames.iter().any(|f| f.cmd == WASTE && f.data.iter().any(|b| *b != 0)) {
            out.viol("C11:frame-not-contiguous", "server role: padding frame carries non-zero bytes");
        }
        let mut accounted = 0usize;
        for (t, log) in logs.lock().unwrap().iter().enumerate() {
            let id = t as u32 + 1;
            let merge = |v: Vec<(u8, u32, Vec<u8>)>| {
                let mut o: Vec<(u8, u32, Vec<u8>)> = vec![];
                for x in v {
                    if let Some(l) = o.last_mut()
                        && l.0 == PSH
                        && x.0 == PSH
                    {
                        l.2.extend_from_slice(&x.2);
                        continue;
                    }
                    o.push(x);
                }
                o
            };
            let on_wire: Vec<(u8, u32, Vec<u8>)> = real.iter().filter(|f| f.id == id && (f.cmd == SYNACK || f.cmd == PSH)).map(|f| (f.cmd, f.id, f.data.clone())).collect();
            accounted += on_wire.len();
            let (w, l) = (merge(on_wire), merge(log.clone()));
            if w != l {
                let sh = |v: &[(u8, u32, Vec<u8>)]| v.iter().map(|x| format!("{}{}[{}]", if x.0 == SYNACK { "SYNACK" } else { "PSH" }, x.1, x.2.len())).collect::<Vec<_>>();
                let key = if w.first().map(|x| x.0) == Some(PSH) && l.first().map(|x| x.0) == Some(SYNACK) { "C11:server:data-before-synack" } else { "C11:server:task-frames-differ" };
                out.viol(key, format!("handler of stream {id} submitted {:?}, wire has {:?}", sh(&l), sh(&w)));
            }
        }
        let ctl: Vec<(u8, u32)> = real.iter().filter(|f| matches!(f.cmd, HEART_RESP | UPDATE_PADDING | SERVER_SETTINGS)).map(|f| (f.cmd, f.id)).collect();
        accounted += ctl.len();
        let hr: Vec<u32> = ctl.iter().filter(|c| c.0 == HEART_RESP).map(|c| c.1).collect();
        if hr != vec![5, 6] {
            out.viol("C11:server:keepalive-answers", format!("requests 5 and 6 were sent in that order, answers on the wire: {:?} ({})", hr, fmt_frames(&real)));
        }
        for c in [UPDATE_PADDING, SERVER_SETTINGS] {
            let n = ctl.iter().filter(|x| x.0 == c).count();
            let pos = ctl.iter().position(|x| x.0 == c);
            let first_hr = ctl.iter().position(|x| x.0 == HEART_RESP);
            if n != 1 || (pos.is_some() && first_hr.is_some() && pos > first_hr) {
                out.viol("C11:server:settings-answer", format!("command {c}: {n} on the wire (1 expected, before the keep-alive answers the same task wrote later): {}", fmt_frames(&real)));
            }
        }
        if accounted != real.len() {
            out.viol("C11:unexpected-frames", format!("server role: {} frames on the wire, {} accounted for: {}", real.len(), accounted, fmt_frames(&real)));
        }
        for h in hs {
            h.abort();
        }
        ss.recv_task.abort();
        ss.fwd_task.abort();
        out
    })
}

pub fn server_items(tier: Tier) -> Vec<DxItem> {
    let mut v = vec![];
    for (scheme, name) in [(STOP0, "stop0"), (DEFAULT, "default")] {
        for fw in [true, false] {
            for (wm, big) in [(false, false), (true, false), (false, true)] {
                if !tier.is_thorough() && name == "default" && (wm || big) {
                    continue;
                }
                let b = if tier.is_thorough() { if wm || big { 2 } else { 3 } } else if wm || big || name == "default" { 1 } else { 2 };
                let mut it = DxItem::new(json!({"part": "server-role", "scheme": name, "data_via_forwarder": fw, "write_menu": wm, "big_first_chunk": big}), make_server_race(scheme, fw, wm, big), b);
                it.exec.quiesce = true;
                v.push(it);
            }
        }
    }
    v
}

pub fn client_items(tier: Tier) -> Vec<DxItem> {
    let mut v = vec![];
    for (scheme, name) in [(STOP0, "stop0"), (DEFAULT, "default")] {
        for pre in [false, true] {
            for n in [2usize, 3] {
                if n == 3 && !tier.is_thorough() {
                    continue;
                }
                let mut it = DxItem::new(json!({"part": "client-level", "requests": n, "scheme": name, "session_exists_before": pre}), make_client_race(n, scheme, pre), if tier.is_thorough() || (n == 2 && !pre) { 2 } else { 1 });
                it.exec.quiesce = true;
                it.exec.long_yield = 3;
                v.push(it);
            }
        }
    }
    v
}

pub fn items(tier: Tier) -> Vec<DxItem> {
    all_params(tier)
        .into_iter()
        .chain(stall_params(tier))
        .chain(interrupt_params(tier))
        .map(|(p, b)| {
            let mut it = DxItem::new(params_json(&p), make(p), b);
            // "everyone else runs to completion first" as one deviation
            it.exec.quiesce = true;
            it
        })
        .chain(server_items(tier))
        .chain(client_items(tier))
        .collect()
}

pub fn run(tier: Tier) -> i32 {
    let mut rep = Report::new("C11", tier, "model_checking");
    rep.assumptions = vec![
        "scheduling points are the named points compiled into session.rs plus every transport call; pre-emption elsewhere touches no shared state".into(),
        "sequentially consistent atomics (weak memory not modelled)".into(),
        "the scripted peer consumes everything (no back-pressure) unless the variant says otherwise".into(),
    ];
    let cap = Duration::from_secs(if tier.is_thorough() { 1200 } else { 85 });
    run_items(
        &mut rep,
        "C11",
        tier,
        items(tier),
        DxOpts { time_cap: cap, det_replays: if tier.is_thorough() { 50 } else { 8 }, max_violations: 3, vacuity_check: true },
    );
    rep.finish("DX: every execution of {2 openers (+forwarding task, +heartbeat writer)} x {3 padding schemes} x {fresh / non-initial session} with <= B forced yields / short or pending transport writes; non-trivial = distinct trace with >= 1 deviation")
}

pub fn replay(file: &str) -> i32 {
    crate::dxrun::replay(file, items)
}
