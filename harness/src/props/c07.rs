//! C07 — traffic goes to exactly the destination that was requested.
//! (a) encode∘decode through the real client and server code (DET),
//! (b) resolution histories (BX, real resolver against a DNS stub / the system resolver),
//! (c/d) dial target and handler selection through the real TcpProxyHandler (SEMI).

use crate::ctl::{ExecCfg, Outcome, ScenarioFn, run_exec, scenario};
use crate::par::par_map;
use crate::refmodel::*;
use crate::report::{Report, Tier};
use crate::semi::*;
use crate::sess::*;
use crate::vpipe::PipeCfg;
use anytls_rs::protocol::{Command, Frame};
use anytls_rs::server::{StreamHandler, TcpProxyHandler, verif_read_socks_addr};
use anytls_rs::util::{resolve_host_with_cache, set_custom_dns_servers, verif_age_cache};
use serde_json::json;
use std::collections::HashMap;
use std::net::{IpAddr, SocketAddr};
use std::sync::{Arc, Mutex};
use std::time::Duration;

// ------------------------------------------------------------------ (a)

fn same_host(req: &str, got: &str) -> bool {
    match (req.parse::<IpAddr>(), got.parse::<IpAddr>()) {
        (Ok(a), Ok(b)) => a == b,
        (Err(_), Err(_)) => req == got,
        _ => false,
    }
}

/// One execution: a linked client/server pair; every destination of `dests` is
/// requested through the real Client::create_proxy_stream and decoded by the
/// real server-side parser.
fn roundtrip_scenario(dests: Vec<(String, u16)>, slot: Arc<Mutex<Vec<(String, u16, String)>>>) -> ScenarioFn {
    scenario(move || {
        let dests = dests.clone();
        let slot = slot.clone();
        async move {
            let mut out = Outcome::default();
            let mut pair = match linked_pair(PipeCfg::new("c2s"), PipeCfg::new("s2c"), STOP0, STOP0, None).await {
                Ok(p) => p,
                Err(e) => {
                    out.viol("harness:start", format!("{e}"));
                    return out;
                }
            };
            let client = match crate::props::c10::make_client(crate::props::c10::Params { beh: vec![], at_ms: vec![], racing: false, server_settings: true, stall_uplink: false, parked_writer: false }) {
                Ok(c) => c,
                Err(e) => {
                    out.viol("harness:client", format!("{e}"));
                    return out;
                }
            };
            let server = pair.server.clone();
            let decoded: Arc<Mutex<HashMap<u32, String>>> = Arc::new(Mutex::new(HashMap::new()));
            let d2 = decoded.clone();
            let acceptor = tokio::spawn(async move {
                while let Some(st) = pair.accepted.recv().await {
                    let id = st.id();
                    let r = tokio::time::timeout(Duration::from_secs(5), verif_read_socks_addr(st)).await;
                    let (txt, ok) = match r {
                        Ok(Ok((h, p))) => (format!("{h}\u{1}{p}"), true),
                        Ok(Err(e)) => (format!("ERR {e}"), false),
                        Err(_) => ("ERR parser waits for more bytes".to_string(), false),
                    };
                    d2.lock().unwrap().insert(id, txt);
                    let f = if ok { Frame::control(Command::SynAck, id) } else { Frame::with_data(Command::SynAck, id, bytes::Bytes::from_static(b"bad destination")) };
                    let _ = server.write_control_frame(f).await;
                }
            });
            let mut results = vec![];
            for (h, p) in &dests {
                client.verif_session_pool().add_idle_session(pair.client.clone()).await;
                let r = tokio::time::timeout(Duration::from_secs(60), client.create_proxy_stream((h.clone(), *p))).await;
                let (res, id) = match r {
                    Err(_) => ("client: blocked".to_string(), None),
                    Ok(Err(e)) => (format!("client: {e}"), None),
                    Ok(Ok((st, _))) => ("ok".to_string(), Some(st.id())),
                };
                let got = id.and_then(|i| decoded.lock().unwrap().get(&i).cloned()).unwrap_or_else(|| "nothing decoded".into());
                results.push((h.clone(), *p, format!("{res}\u{2}{got}")));
            }
            acceptor.abort();
            *slot.lock().unwrap() = results;
            out
        }
    })
}

fn check_roundtrips(rep: &mut Report, dests: Vec<(String, u16)>, chunk: usize) {
    let chunks: Vec<Vec<(String, u16)>> = dests.chunks(chunk).map(|c| c.to_vec()).collect();
    let chunks = Arc::new(chunks);
    let c2 = chunks.clone();
    let res: Vec<Vec<(String, u16, String)>> = par_map(chunks.len(), 16, move |i| {
        let slot = Arc::new(Mutex::new(vec![]));
        let sc = roundtrip_scenario(c2[i].clone(), slot.clone());
        let rec = run_exec(&sc, &ExecCfg::default(), &[], 0);
        let mut r = slot.lock().unwrap().clone();
        for v in rec.outcome.violations {
            r.push(("<scenario>".into(), 0, format!("VIOL {}: {}", v.key, v.detail)));
        }
        r
    });
    for r in res.into_iter().flatten() {
        let (h, p, txt) = r;
        rep.traces_validated += 1;
        if txt.starts_with("VIOL") {
            rep.violation("C07:harness-or-panic", &txt, json!({"engine": "DET", "host": h, "port": p}));
            continue;
        }
        let key = format!("{}:{}", if h.len() > 40 { format!("{}..{}", &h[..8], h.len()) } else { h.clone() }, p);
        rep.case(Some(&key));
        let (client_res, got) = txt.split_once('\u{2}').unwrap();
        let too_long = h.parse::<IpAddr>().is_err() && h.len() > 255;
        if too_long {
            // must be refused by the client, not truncated
            if client_res == "ok" || !got.starts_with("nothing") {
                rep.violation("C07:overlong-domain-not-refused", &format!("domain of {} bytes: client result {client_res:?}, server decoded {got:?}", h.len()), json!({"engine": "DET", "host_len": h.len(), "port": p}));
            }
            continue;
        }
        let want_ok = match got.split_once('\u{1}') {
            Some((gh, gp)) => same_host(&h, gh) && gp == p.to_string(),
            None => false,
        };
        if !want_ok || client_res != "ok" {
            rep.violation(
                "C07:destination-altered",
                &format!("requested {}:{} ({} bytes), server decoded {:?}, client result {client_res:?}", if h.len() > 60 { &h[..60] } else { &h }, p, h.len(), got.replace('\u{1}', ":")),
                json!({"engine": "DET", "host": h, "port": p}),
            );
        }
    }
}

/// Fragmentation: the encoded destination cut into 2 and 3 data frames at every position.
fn frag_scenario(dest: Vec<u8>, cuts: Vec<Vec<usize>>, slot: Arc<Mutex<Vec<String>>>) -> ScenarioFn {
    scenario(move || {
        let dest = dest.clone();
        let cuts = cuts.clone();
        let slot = slot.clone();
        async move {
            let link = peer_link(PipeCfg::new("c2s"), PipeCfg::new("s2c"));
            let mut side = start_server_session(link.sess_r, link.sess_w, padding(STOP0), None);
            let peer = link.peer;
            peer.send(SETTINGS, 0, &client_settings("x"));
            let mut results = vec![];
            for (i, c) in cuts.iter().enumerate() {
                let id = i as u32 + 1;
                peer.send(SYN, id, b"");
                let mut prev = 0;
                for &k in c.iter().chain(std::iter::once(&dest.len())) {
                    peer.send(PSH, id, &dest[prev..k]);
                    prev = k;
                }
                let r = match tokio::time::timeout(Duration::from_secs(5), side.streams.recv()).await {
                    Ok(Some(st)) => match tokio::time::timeout(Duration::from_secs(5), verif_read_socks_addr(st)).await {
                        Ok(Ok((h, p))) => format!("{h}\u{1}{p}"),
                        Ok(Err(e)) => format!("ERR {e}"),
                        Err(_) => "ERR parser waits for more bytes".into(),
                    },
                    _ => "ERR stream not accepted".into(),
                };
                results.push(r);
            }
            *slot.lock().unwrap() = results;
            drop(peer);
            Outcome::default()
        }
    })
}

fn socks_bytes(h: &str, p: u16) -> Vec<u8> {
    let mut v = vec![];
    match h.parse::<IpAddr>() {
        Ok(IpAddr::V4(a)) => {
            v.push(1);
            v.extend_from_slice(&a.octets());
        }
        Ok(IpAddr::V6(a)) => {
            v.push(4);
            v.extend_from_slice(&a.octets());
        }
        Err(_) => {
            v.push(3);
            v.push(h.len() as u8);
            v.extend_from_slice(h.as_bytes());
        }
    }
    v.extend_from_slice(&p.to_be_bytes());
    v
}

fn check_fragmentation(rep: &mut Report, thorough: bool) {
    let mut dests: Vec<(String, u16)> = vec![("1.2.3.4".into(), 258), ("1:2:3:4:5:6:7:8".into(), 65535), ("a".into(), 1), ("abc.example".into(), 443)];
    if thorough {
        dests.push(("d".repeat(255), 32768));
    } else {
        dests.push(("d".repeat(40), 32768));
    }
    let mut jobs: Vec<(String, u16, Vec<u8>, Vec<Vec<usize>>)> = vec![];
    for (h, p) in dests {
        let b = socks_bytes(&h, p);
        let n = b.len();
        let mut cuts: Vec<Vec<usize>> = vec![vec![]];
        for a in 1..n {
            cuts.push(vec![a]);
            for c in a + 1..n {
                cuts.push(vec![a, c]);
            }
        }
        // byte at a time
        cuts.push((1..n).collect());
        for ch in cuts.chunks(400) {
            jobs.push((h.clone(), p, b.clone(), ch.to_vec()));
        }
    }
    let jobs = Arc::new(jobs);
    let j2 = jobs.clone();
    let res: Vec<Vec<String>> = par_map(jobs.len(), 16, move |i| {
        let slot = Arc::new(Mutex::new(vec![]));
        let sc = frag_scenario(j2[i].2.clone(), j2[i].3.clone(), slot.clone());
        let _ = run_exec(&sc, &ExecCfg::default(), &[], 0);
        let r = slot.lock().unwrap().clone();
        r
    });
    for (job, rs) in jobs.iter().zip(res) {
        let (h, p, _, cuts) = job;
        if rs.len() != cuts.len() {
            rep.machinery(format!("fragmentation job for {h}:{p} returned {} of {} results", rs.len(), cuts.len()));
        }
        for (c, r) in cuts.iter().zip(rs) {
            rep.case(Some(&format!("frag {}:{} {:?}", &h[..h.len().min(12)], p, c)));
            rep.traces_validated += 1;
            let ok = match r.split_once('\u{1}') {
                Some((gh, gp)) => same_host(h, gh) && gp == p.to_string(),
                None => false,
            };
            if !ok {
                rep.violation("C07:destination-altered-by-fragmentation", &format!("destination {}:{} sent in frames cut at {:?}: server decoded {:?}", &h[..h.len().min(40)], p, c, r.replace('\u{1}', ":")), json!({"engine": "DET", "host": h, "port": p, "cuts": c}));
            }
        }
    }
}

// ------------------------------------------------------------------ (b) DNS stub + histories

/// Minimal authoritative DNS stub over UDP.
pub async fn dns_stub(names: HashMap<String, Vec<[u8; 4]>>) -> (u16, tokio::task::JoinHandle<()>, Arc<Mutex<Vec<String>>>) {
    dns_stub_shared(Arc::new(Mutex::new(names)), 300).await
}

/// AAAA records served by every stub of this process (name -> addresses); A-only names are simply absent.
pub static AAAA_ZONE: Mutex<Vec<(String, Vec<[u8; 16]>)>> = Mutex::new(vec![]);

/// The same with a zone that can change while the stub runs, and a chosen record TTL.
pub async fn dns_stub_shared(names: Arc<Mutex<HashMap<String, Vec<[u8; 4]>>>>, ttl: u32) -> (u16, tokio::task::JoinHandle<()>, Arc<Mutex<Vec<String>>>) {
    let sock = tokio::net::UdpSocket::bind("127.0.0.1:0").await.expect("bind dns stub");
    let port = sock.local_addr().unwrap().port();
    let log = Arc::new(Mutex::new(vec![]));
    let log2 = log.clone();
    let h = tokio::spawn(async move {
        let mut buf = [0u8; 1500];
        loop {
            let Ok((n, from)) = sock.recv_from(&mut buf).await else { return };
            if n < 12 {
                continue;
            }
            let q = &buf[..n];
            // parse qname
            let mut i = 12;
            let mut labels = vec![];
            while i < n && q[i] != 0 {
                let l = q[i] as usize;
                if i + 1 + l > n {
                    break;
                }
                labels.push(String::from_utf8_lossy(&q[i + 1..i + 1 + l]).to_lowercase());
                i += 1 + l;
            }
            if i + 5 > n {
                continue;
            }
            let qend = i + 5;
            let qtype = u16::from_be_bytes([q[i + 1], q[i + 2]]);
            let name = labels.join(".");
            log2.lock().unwrap().push(format!("{name}/{qtype}"));
            let mut resp = vec![];
            resp.extend_from_slice(&q[0..2]);
            let known = names.lock().unwrap().get(&name).cloned();
            let known = known.as_ref();
            let known6: Option<Vec<[u8; 16]>> = AAAA_ZONE.lock().unwrap().iter().find(|(n, _)| *n == name).map(|(_, a)| a.clone());
            let rcode = if known.is_some() || known6.is_some() { 0u8 } else { 3u8 };
            resp.extend_from_slice(&[0x84, rcode]); // QR, AA
            resp.extend_from_slice(&[0, 1]);
            let answers: Vec<[u8; 4]> = if qtype == 1 { known.cloned().unwrap_or_default() } else { vec![] };
            let answers6: Vec<[u8; 16]> = if qtype == 28 { known6.unwrap_or_default() } else { vec![] };
            resp.extend_from_slice(&((answers.len() + answers6.len()) as u16).to_be_bytes());
            resp.extend_from_slice(&[0, 0, 0, 0]);
            resp.extend_from_slice(&q[12..qend]);
            for a in answers {
                resp.extend_from_slice(&[0xc0, 0x0c, 0, 1, 0, 1]);
                resp.extend_from_slice(&ttl.to_be_bytes());
                resp.extend_from_slice(&[0, 4]);
                resp.extend_from_slice(&a);
            }
            for a in answers6 {
                resp.extend_from_slice(&[0xc0, 0x0c, 0, 28, 0, 1]);
                resp.extend_from_slice(&ttl.to_be_bytes());
                resp.extend_from_slice(&[0, 16]);
                resp.extend_from_slice(&a);
            }
            let _ = sock.send_to(&resp, from).await;
        }
    });
    (port, h, log)
}

#[derive(Clone, Copy, Debug, PartialEq, Eq, Hash)]
enum Op {
    R(usize, usize), // host index, port index
    Lit,
    Age,
    Clear,
}

fn op_str(o: &Op) -> String {
    match o {
        Op::R(h, p) => format!("resolve(h{},p{})", h + 1, p + 1),
        Op::Lit => "resolve(literal)".into(),
        Op::Age => "age61s".into(),
        Op::Clear => "clear".into(),
    }
}

async fn resolution_histories(rep: &mut Report, thorough: bool) {
    let hosts = ["alpha.test", "beta.test"];
    let ips: [[u8; 4]; 2] = [[127, 0, 0, 2], [127, 0, 0, 3]];
    let ports = [8081u16, 9092];
    let mut names = HashMap::new();
    names.insert(hosts[0].to_string(), vec![ips[0]]);
    names.insert(hosts[1].to_string(), vec![ips[1], [127, 0, 0, 4]]);
    let (dport, stub, _log) = dns_stub(names).await;
    let stub_addr = format!("127.0.0.1:{dport}");
    let alphabet = vec![Op::R(0, 0), Op::R(0, 1), Op::R(1, 0), Op::R(1, 1), Op::Lit, Op::Age, Op::Clear];
    let depth = if thorough { 4 } else { 3 };
    let mut hists: Vec<Vec<Op>> = vec![];
    let mut frontier: Vec<Vec<Op>> = vec![vec![]];
    for _ in 0..depth {
        let mut next = vec![];
        for h in &frontier {
            for a in &alphabet {
                let mut n = h.clone();
                n.push(*a);
                next.push(n);
            }
        }
        hists.extend(next.iter().cloned());
        frontier = next;
    }
    for branch in ["custom-resolver", "system-resolver"] {
        for h in &hists {
            if branch == "system-resolver" && h.iter().any(|o| matches!(o, Op::R(1, _))) {
                continue; // only one name resolves through /etc/hosts
            }
            // fresh state: (re)configuring the resolver clears the cache
            let r = if branch == "custom-resolver" { set_custom_dns_servers(&[stub_addr.clone()]).await } else { set_custom_dns_servers(&[]).await };
            if let Err(e) = r {
                rep.machinery(format!("cannot configure resolver: {e}"));
                return;
            }
            rep.states += 1;
            rep.transitions += h.len() as u64;
            rep.traces_validated += 1;
            let distinct_ports = h.iter().filter_map(|o| if let Op::R(hh, p) = o { Some((hh, p)) } else { None }).collect::<std::collections::HashSet<_>>().len();
            let ckey = format!("{branch}:{:?}", h);
            rep.case(if distinct_ports >= 2 { Some(&ckey) } else { None });
            for (step, op) in h.iter().enumerate() {
                match op {
                    Op::R(hi, pi) => {
                        let (host, allowed): (&str, Vec<IpAddr>) = if branch == "custom-resolver" {
                            (hosts[*hi], if *hi == 0 { vec![IpAddr::from(ips[0])] } else { vec![IpAddr::from(ips[1]), IpAddr::from([127, 0, 0, 4])] })
                        } else {
                            ("localhost", vec!["127.0.0.1".parse().unwrap(), "::1".parse().unwrap()])
                        };
                        let port = ports[*pi];
                        match real_timeout(12_000, resolve_host_with_cache(host, port)).await {
                            Some(Ok(sa)) => {
                                if sa.port() != port || !allowed.contains(&sa.ip()) {
                                    let hist: Vec<String> = h[..=step].iter().map(op_str).collect();
                                    let key = if sa.port() != port { "C07:resolver-returns-port-of-earlier-request" } else { "C07:resolver-returns-address-of-other-host" };
                                    rep.violation(key, &format!("{branch}: history [{}]: request for {host}:{port} resolved to {sa}", hist.join(", ")), json!({"engine": "BX", "branch": branch, "history": hist}));
                                }
                            }
                            Some(Err(e)) => {
                                rep.violation("C07:resolution-failed", &format!("{branch}: {host}:{port}: {e}"), json!({"engine": "BX", "branch": branch}));
                            }
                            None => rep.violation("C07:resolution-blocks", &format!("{branch}: {host}:{port}"), json!({"engine": "BX", "branch": branch})),
                        }
                    }
                    Op::Lit => {
                        match resolve_host_with_cache("127.0.0.9", 777).await {
                            Ok(sa) if sa == "127.0.0.9:777".parse::<SocketAddr>().unwrap() => {}
                            other => rep.violation("C07:literal-altered", &format!("{other:?}"), json!({"engine": "BX"})),
                        }
                    }
                    Op::Age => verif_age_cache(Duration::from_secs(61)).await,
                    Op::Clear => {
                        let _ = if branch == "custom-resolver" { set_custom_dns_servers(&[stub_addr.clone()]).await } else { set_custom_dns_servers(&[]).await };
                    }
                }
            }
        }
    }
    rep.sample(json!({"history": hists[hists.len() / 2].iter().map(op_str).collect::<Vec<_>>()}));
    rep.sections.insert("resolution_histories".into(), json!({"depth": depth, "alphabet": alphabet.iter().map(op_str).collect::<Vec<_>>(), "histories_per_branch": hists.len()}));
    stub.abort();
}

/// Names that resolve to IPv6 addresses of every shape (AAAA only, or A and AAAA): the address handed to the dialler is
/// one of the name's addresses, as an address (an IPv4-mapped IPv6 answer may come back as the IPv4 address it maps).
async fn v6_names(rep: &mut Report) {
    let zone6: Vec<(&str, Vec<&str>, Vec<[u8; 4]>)> = vec![
        ("six.test", vec!["::1"], vec![]),
        ("compat.test", vec!["::127.0.0.5"], vec![]),
        ("zero.test", vec!["::"], vec![]),
        ("mapped.test", vec!["::ffff:127.0.0.6"], vec![]),
        ("global6.test", vec!["2001:db8::7", "2001:db8::8"], vec![]),
        ("dual.test", vec!["::2"], vec![[127, 0, 0, 9]]),
        ("linklocal.test", vec!["fe80::1"], vec![]),
    ];
    {
        let mut z = AAAA_ZONE.lock().unwrap();
        z.clear();
        for (n, a6, _) in &zone6 {
            z.push((n.to_string(), a6.iter().map(|a| a.parse::<std::net::Ipv6Addr>().unwrap().octets()).collect()));
        }
    }
    let mut a_zone = HashMap::new();
    for (n, _, a4) in &zone6 {
        if !a4.is_empty() {
            a_zone.insert(n.to_string(), a4.clone());
        }
    }
    let (dport, stub, _log) = dns_stub_shared(Arc::new(Mutex::new(a_zone)), 0).await;
    if let Err(e) = set_custom_dns_servers(&[format!("127.0.0.1:{dport}")]).await {
        rep.machinery(format!("cannot configure resolver: {e}"));
        return;
    }
    let canon = |ip: IpAddr| -> IpAddr {
        match ip {
            IpAddr::V6(v) => v.to_ipv4_mapped().map(IpAddr::V4).unwrap_or(ip),
            _ => ip,
        }
    };
    for (name, a6, a4) in &zone6 {
        let mut allowed: Vec<IpAddr> = a6.iter().map(|a| canon(a.parse::<IpAddr>().unwrap())).collect();
        allowed.extend(a4.iter().map(|a| IpAddr::from(*a)));
        // three requests each: miss, hit, hit (round robin over the cached list)
        for round in 0..3 {
            rep.case(Some(&format!("v6 name {name} round {round}")));
            match real_timeout(12_000, resolve_host_with_cache(name, 4343)).await {
                Some(Ok(sa)) => {
                    if sa.port() != 4343 || !allowed.contains(&canon(sa.ip())) {
                        rep.violation("C07:resolver-returns-address-the-host-does-not-own", &format!("request {} for {name}:4343 (AAAA {:?}, A {:?}) resolved to {sa}", round + 1, a6, a4.iter().map(|a| IpAddr::from(*a)).collect::<Vec<_>>()), json!({"engine": "IX", "family": "v6-names", "name": name}));
                        break;
                    }
                }
                Some(Err(e)) => {
                    // a resolver that cannot use an address family is not this property's business; a wrong address is
                    rep.observe(format!("v6 name {name}: resolution failed: {e}"));
                    break;
                }
                None => {
                    rep.violation("C07:resolution-blocks", &format!("v6 names: {name}"), json!({"engine": "IX", "family": "v6-names"}));
                    break;
                }
            }
        }
    }
    AAAA_ZONE.lock().unwrap().clear();
    stub.abort();
}

/// Hosts whose DNS answer changes: after the cache lifetime a request for H is dialled at an address H owns NOW; within
/// it, at one H owned when the entry was filled (or owns now). Stub TTL 0, so the resolver library itself caches nothing.
async fn moving_hosts(rep: &mut Report, thorough: bool) {
    #[derive(Clone, Copy, Debug, PartialEq)]
    enum M {
        R(usize),
        Move,
        Age,
        Clear,
    }
    let hosts = ["gamma.test", "delta.test"];
    let sets: [Vec<[u8; 4]>; 2] = [vec![[127, 0, 0, 2]], vec![[127, 0, 0, 6], [127, 0, 0, 7]]];
    let delta: Vec<[u8; 4]> = vec![[127, 0, 0, 3], [127, 0, 0, 4]];
    let zone: Arc<Mutex<HashMap<String, Vec<[u8; 4]>>>> = Arc::new(Mutex::new(HashMap::new()));
    let (dport, stub, _log) = dns_stub_shared(zone.clone(), 0).await;
    let stub_addr = format!("127.0.0.1:{dport}");
    let alphabet = [M::R(0), M::R(1), M::Move, M::Age, M::Clear];
    let depth = if thorough { 6 } else { 5 };
    let mut hists: Vec<Vec<M>> = vec![vec![]];
    for _ in 0..depth {
        let mut next = vec![];
        for h in &hists {
            for a in alphabet {
                // histories that never resolve gamma are pointless
                let mut n = h.clone();
                n.push(a);
                next.push(n);
            }
        }
        hists = next;
    }
    hists.retain(|h| h.iter().filter(|o| **o == M::R(0)).count() >= 2 && h.contains(&M::Move));
    let mstr = |o: &M| match o {
        M::R(i) => format!("resolve({})", hosts[*i]),
        M::Move => "gamma moves".to_string(),
        M::Age => "age61s".to_string(),
        M::Clear => "clear".to_string(),
    };
    for h in &hists {
        let mut cur = 0usize;
        {
            let mut z = zone.lock().unwrap();
            z.insert(hosts[0].to_string(), sets[0].clone());
            z.insert(hosts[1].to_string(), delta.clone());
        }
        if let Err(e) = set_custom_dns_servers(&[stub_addr.clone()]).await {
            rep.machinery(format!("cannot configure resolver: {e}"));
            return;
        }
        rep.states += 1;
        rep.transitions += h.len() as u64;
        rep.traces_validated += 1;
        rep.case(Some(&format!("moving:{:?}", h)));
        // model: the answer each host's cache entry was filled with (None = no live entry)
        let mut cached: [Option<Vec<[u8; 4]>>; 2] = [None, None];
        for (step, op) in h.iter().enumerate() {
            match op {
                M::R(i) => {
                    let current: Vec<[u8; 4]> = if *i == 0 { sets[cur].clone() } else { delta.clone() };
                    let mut allowed = current.clone();
                    if let Some(c) = &cached[*i] {
                        allowed.extend(c.iter().copied());
                    }
                    match real_timeout(12_000, resolve_host_with_cache(hosts[*i], 4242)).await {
                        Some(Ok(sa)) => {
                            let ok = sa.port() == 4242 && allowed.iter().any(|a| IpAddr::from(*a) == sa.ip());
                            if !ok {
                                let hist: Vec<String> = h[..=step].iter().map(mstr).collect();
                                rep.violation("C07:resolver-returns-address-the-host-no-longer-owns", &format!("history [{}]: request for {}:4242 resolved to {sa}; the host's addresses now are {:?}, the live cache entry (if any) was filled with {:?}", hist.join(", "), hosts[*i], current.iter().map(|a| IpAddr::from(*a)).collect::<Vec<_>>(), cached[*i].as_ref().map(|c| c.iter().map(|a| IpAddr::from(*a)).collect::<Vec<_>>())), json!({"engine": "BX", "family": "moving-hosts", "history": hist}));
                                break;
                            }
                            if cached[*i].is_none() {
                                cached[*i] = Some(current);
                            }
                        }
                        other => {
                            rep.violation("C07:resolution-failed", &format!("moving hosts: {}: {:?}", hosts[*i], other.map(|r| r.map_err(|e| e.to_string()))), json!({"engine": "BX", "family": "moving-hosts"}));
                            break;
                        }
                    }
                }
                M::Move => {
                    cur = 1 - cur;
                    zone.lock().unwrap().insert(hosts[0].to_string(), sets[cur].clone());
                }
                M::Age => {
                    verif_age_cache(Duration::from_secs(61)).await;
                    cached = [None, None];
                }
                M::Clear => {
                    let _ = set_custom_dns_servers(&[stub_addr.clone()]).await;
                    cached = [None, None];
                }
            }
        }
    }
    rep.sections.insert("moving_host_histories".into(), json!({"depth": depth, "histories": hists.len()}));
    stub.abort();
}

/// Lookups that FAIL for a while (the name disappears from the zone: NXDOMAIN) between successful ones, with ageing and
/// two different ports: a request is either refused (while the name does not resolve and no live entry exists) or
/// dialled at the REQUESTED port of an address of the host — never at the port of an earlier request, and a failure
/// is not remembered once the name resolves again.
async fn failing_lookups(rep: &mut Report, thorough: bool) {
    #[derive(Clone, Copy, Debug, PartialEq)]
    enum F {
        R(u16),
        Age,
        Down,
        Up,
    }
    let host = "epsilon.test";
    let addrs: Vec<[u8; 4]> = vec![[127, 0, 0, 8]];
    let zone: Arc<Mutex<HashMap<String, Vec<[u8; 4]>>>> = Arc::new(Mutex::new(HashMap::new()));
    let (dport, stub, _log) = dns_stub_shared(zone.clone(), 0).await;
    let stub_addr = format!("127.0.0.1:{dport}");
    let alphabet = [F::R(4242), F::R(4343), F::Age, F::Down, F::Up];
    let depth = if thorough { 6 } else { 5 };
    let mut hists: Vec<Vec<F>> = vec![vec![]];
    for _ in 0..depth {
        let mut next = vec![];
        for h in &hists {
            for a in alphabet {
                let mut n = h.clone();
                n.push(a);
                next.push(n);
            }
        }
        hists = next;
    }
    hists.retain(|h| h.contains(&F::Down) && h.iter().filter(|o| matches!(o, F::R(_))).count() >= 2 && matches!(h.last(), Some(F::R(_))));
    let fstr = |o: &F| match o {
        F::R(p) => format!("resolve(epsilon:{p})"),
        F::Age => "age61s".to_string(),
        F::Down => "name stops resolving".to_string(),
        F::Up => "name resolves again".to_string(),
    };
    for h in &hists {
        zone.lock().unwrap().insert(host.to_string(), addrs.clone());
        if let Err(e) = set_custom_dns_servers(&[stub_addr.clone()]).await {
            rep.machinery(format!("cannot configure resolver: {e}"));
            return;
        }
        rep.states += 1;
        rep.transitions += h.len() as u64;
        rep.traces_validated += 1;
        rep.case(Some(&format!("failing:{:?}", h)));
        let mut up = true;
        let mut live_entry = false;
        for (step, op) in h.iter().enumerate() {
            let hist = || h[..=step].iter().map(fstr).collect::<Vec<_>>().join(", ");
            match op {
                F::R(port) => match real_timeout(25_000, resolve_host_with_cache(host, *port)).await {
                    Some(Ok(sa)) => {
                        if sa.port() != *port || !addrs.iter().any(|a| IpAddr::from(*a) == sa.ip()) {
                            rep.violation("C07:resolver-returns-other-port-or-address-after-failed-lookup", &format!("history [{}]: the request for {host}:{port} resolved to {sa}", hist()), json!({"engine": "BX", "family": "failing-lookups", "history": hist()}));
                            break;
                        }
                        if !up && !live_entry {
                            rep.violation("C07:resolver-answers-for-a-name-that-does-not-resolve", &format!("history [{}]: {host} does not resolve and no live cache entry exists, yet the request for port {port} was given {sa}", hist()), json!({"engine": "BX", "family": "failing-lookups", "history": hist()}));
                            break;
                        }
                        live_entry = true;
                    }
                    Some(Err(e)) => {
                        if up {
                            rep.violation("C07:resolution-failed", &format!("history [{}]: {host} resolves (again), yet the request for port {port} failed: {e} — an earlier failure was remembered", hist()), json!({"engine": "BX", "family": "failing-lookups", "history": hist()}));
                            break;
                        }
                    }
                    None => {
                        rep.violation("C07:resolution-failed", &format!("history [{}]: the lookup did not return within 25 s", hist()), json!({"engine": "BX", "family": "failing-lookups"}));
                        break;
                    }
                },
                F::Age => {
                    verif_age_cache(Duration::from_secs(61)).await;
                    live_entry = false;
                }
                F::Down => {
                    zone.lock().unwrap().remove(host);
                    up = false;
                }
                F::Up => {
                    zone.lock().unwrap().insert(host.to_string(), addrs.clone());
                    up = true;
                }
            }
        }
    }
    rep.sections.insert("failing_lookup_histories".into(), json!({"depth": depth, "histories": hists.len()}));
    stub.abort();
}

// ------------------------------------------------------------------ (c/d) dialling through the real handler

async fn dial_cases(rep: &mut Report) {
    // listeners on distinct loopback addresses and ports
    let binds = ["127.0.0.2", "127.0.0.3", "127.0.0.1", "::1"];
    let mut listeners: Vec<(SocketAddr, Arc<Mutex<usize>>)> = vec![];
    for ip in binds {
        for _ in 0..2 {
            let addr = if ip.contains(':') { format!("[{ip}]:0") } else { format!("{ip}:0") };
            let Ok(l) = tokio::net::TcpListener::bind(&addr).await else {
                rep.observe(format!("cannot bind {addr}; cases for it skipped"));
                continue;
            };
            let sa = l.local_addr().unwrap();
            let cnt = Arc::new(Mutex::new(0usize));
            let c2 = cnt.clone();
            tokio::spawn(async move {
                loop {
                    let Ok((s, _)) = l.accept().await else { return };
                    *c2.lock().unwrap() += 1;
                    tokio::spawn(async move {
                        let _s = s;
                        tokio::time::sleep(Duration::from_secs(3)).await;
                    });
                }
            });
            listeners.push((sa, cnt));
        }
    }
    let mut names = HashMap::new();
    names.insert("alpha.test".to_string(), vec![[127, 0, 0, 2]]);
    names.insert("beta.test".to_string(), vec![[127, 0, 0, 3]]);
    // ordinary names that merely contain the UDP-over-TCP magic string
    names.insert("xudp-over-tcp.arpa.test".to_string(), vec![[127, 0, 0, 2]]);
    names.insert("sp.v2.udp-over-tcp.arpa.example.test".to_string(), vec![[127, 0, 0, 3]]);
    names.insert("notsp.v2.udp-over-tcp.arpa".to_string(), vec![[127, 0, 0, 2]]);
    let (dport, stub, _log) = dns_stub(names).await;
    if let Err(e) = set_custom_dns_servers(&[format!("127.0.0.1:{dport}")]).await {
        rep.machinery(format!("cannot configure resolver: {e}"));
        return;
    }
    // request sequence: every (host, listener) pair, same host with both ports back to back
    let mut reqs: Vec<(String, SocketAddr)> = vec![];
    for (sa, _) in &listeners {
        let hosts: Vec<String> = match sa.ip().to_string().as_str() {
            "127.0.0.2" => vec!["alpha.test".into(), "127.0.0.2".into(), "xudp-over-tcp.arpa.test".into(), "notsp.v2.udp-over-tcp.arpa".into()],
            "127.0.0.3" => vec!["beta.test".into(), "127.0.0.3".into(), "sp.v2.udp-over-tcp.arpa.example.test".into()],
            "127.0.0.1" => vec!["127.0.0.1".into()],
            _ => vec!["::1".into()],
        };
        for h in hosts {
            reqs.push((h, *sa));
        }
    }
    let link = peer_link(PipeCfg::new("c2s"), PipeCfg::new("s2c"));
    let mut side = start_server_session(link.sess_r, link.sess_w, padding(STOP0), None);
    let sess = side.sess.clone();
    let s2 = sess.clone();
    tokio::spawn(async move {
        while let Some(st) = side.streams.recv().await {
            let s3 = s2.clone();
            tokio::spawn(async move {
                let _ = TcpProxyHandler::new().handle_stream(st, s3).await;
            });
        }
    });
    let mut peer = link.peer;
    peer.send(SETTINGS, 0, b"v=2\nclient=x\npadding-md5=0");
    for (i, (host, target)) in reqs.iter().enumerate() {
        let id = i as u32 + 1;
        let before: Vec<usize> = listeners.iter().map(|l| *l.1.lock().unwrap()).collect();
        peer.send(SYN, id, b"");
        peer.send(PSH, id, &socks_bytes(host, target.port()));
        // wait for this stream's SYNACK
        let f = real_timeout(5000, peer.wait_for(|f| f.cmd == SYNACK && f.id == id)).await.flatten();
        rep.case(Some(&format!("dial {host} {target}")));
        rep.traces_validated += 1;
        // give accept loops a moment
        tokio::time::sleep(Duration::from_millis(30)).await;
        let after: Vec<usize> = listeners.iter().map(|l| *l.1.lock().unwrap()).collect();
        let hit: Vec<SocketAddr> = listeners.iter().enumerate().filter(|(k, _)| after[*k] > before[*k]).map(|(_, l)| l.0).collect();
        let magic_like = host.contains("udp-over-tcp.arpa");
        if hit != vec![*target] {
            let key = if hit.is_empty() && magic_like {
                "C07:tcp-host-containing-udp-magic-not-dialled"
            } else if hit.is_empty() {
                "C07:destination-not-dialled"
            } else {
                "C07:dialled-wrong-destination"
            };
            rep.violation(key, &format!("request #{i} for {host}:{} must reach listener {target}; connections arrived at {:?}; SYNACK {:?}", target.port(), hit, f.as_ref().map(|f| String::from_utf8_lossy(&f.data).to_string())), json!({"engine": "SEMI", "host": host, "port": target.port(), "request_index": i}));
        } else if f.as_ref().map(|f| !f.data.is_empty()).unwrap_or(true) {
            rep.violation("C07:dial-verdict", &format!("request for {host}:{}: connection arrived but SYNACK is {:?}", target.port(), f.map(|f| String::from_utf8_lossy(&f.data).to_string())), json!({"engine": "SEMI", "host": host}));
        }
    }
    rep.sections.insert("dial_requests".into(), json!(reqs.len()));
    let _ = sess.close().await;
    stub.abort();
    let _ = set_custom_dns_servers(&[]).await;
}

/// DX: concurrent requests for the same host with different ports (both may miss the cache), on the
/// system-resolver branch (localhost via /etc/hosts; getaddrinfo runs in tokio's blocking pool, during
/// which the paused clock does not advance). Explored single-threaded because the cache is process-global.
fn concurrent_resolves(rep: &mut Report, thorough: bool) {
    use crate::ctl::{ExploreCfg, explore_iterative};
    for n_tasks in [2usize, 3] {
        let sc = scenario(move || async move {
            let mut out = Outcome::default();
            let _ = set_custom_dns_servers(&[]).await; // system resolver, empty cache
            let ports = [80u16, 443, 8080];
            let mut hs = vec![];
            for p in ports.iter().take(n_tasks) {
                let p = *p;
                hs.push(tokio::spawn(async move {
                    crate::ctl::hpoint("h.c07.resolve").await;
                    (p, tokio::time::timeout(Duration::from_secs(30), resolve_host_with_cache("localhost", p)).await)
                }));
            }
            let mut obs = vec![];
            for h in hs {
                match h.await {
                    Ok((p, Ok(Ok(sa)))) => {
                        obs.push(format!("{p}->{}", sa.port()));
                        if sa.port() != p {
                            out.viol("C07:resolver-returns-port-of-concurrent-request", format!("{n_tasks} concurrent requests for localhost: the request for port {p} resolved to {sa}"));
                        }
                        if !sa.ip().is_loopback() {
                            out.viol("C07:resolver-returns-address-of-other-host", format!("localhost:{p} resolved to {sa}"));
                        }
                    }
                    Ok((p, Ok(Err(e)))) => out.viol("C07:resolution-failed", format!("localhost:{p}: {e}")),
                    Ok((p, Err(_))) => out.viol("C07:resolution-blocks", format!("localhost:{p}")),
                    Err(e) => out.viol("panic:task", format!("{e}")),
                }
            }
            obs.sort();
            out.obs = obs.join(" ");
            out
        });
        let mut cfg = ExploreCfg::new(format!("C07#concurrent-resolves#{n_tasks}"), if n_tasks == 2 { if thorough { 3 } else { 2 } } else { if thorough { 2 } else { 1 } });
        cfg.workers = 1;
        cfg.det_replays = 0; // completion order of the blocking lookups is real-time: traces may differ between runs, verdicts are symmetric
        cfg.exec.quiesce = true;
        cfg.exec.filter = Some(Arc::new(|n: &str| n.starts_with("dns.") || n.starts_with("h.c07")));
        cfg.time_cap = Duration::from_secs(if thorough { 300 } else { 20 });
        cfg.known = rep.known_fn();
        match explore_iterative(&sc, &cfg) {
            Ok(st) => {
                rep.sections.insert(format!("concurrent_resolves_{n_tasks}"), json!({"executions": st.executions, "bound_completed": st.bound_completed, "distinct_observations": st.distinct_obs, "sites": st.sites_hit.iter().collect::<Vec<_>>()}));
                rep.evaluations += st.executions;
                rep.nontrivial.insert(0x0707_0000 + n_tasks as u64);
                for v in &st.violations {
                    rep.violation(&v.key, &format!("{} [deviations {:?}]", v.detail, v.trace_sites), json!({"engine": "DX", "scenario": cfg.name, "choices": v.choices, "deviations": v.trace_sites}));
                }
                if st.capped {
                    rep.exhaustive = false;
                    rep.caps.push(st.cap_reason.clone());
                }
            }
            Err(e) => {
                // nondeterministic completion order can make a replayed prefix reach other sites: not a verdict
                rep.observe(format!("concurrent-resolves exploration stopped early: {}", crate::report::truncate(&e, 200)));
            }
        }
    }
}

/// UDP associations: the real target that `Client::create_udp_proxy` puts into the initial request of the
/// UDP-over-TCP stream, as decrypted by a scripted TLS server behind the in-memory dialer seam.
fn udp_association_targets(rep: &mut Report, thorough: bool) {
    use crate::cworld::*;
    let mut hosts: Vec<&str> = vec!["0.0.0.0", "127.0.0.1", "1.2.3.4", "255.255.255.255", "::", "::1", "::2", "::7f00:1", "::1.2.3.4", "::ffff:1.2.3.4", "::ffff:0:1", "64:ff9b::102:304", "1:2:3:4:5:6:7:8", "2001:db8::1", "fe80::1", "ff02::1", "ffff:ffff:ffff:ffff:ffff:ffff:ffff:ffff"];
    if thorough {
        hosts.extend(["::ffff:127.0.0.1", "::0.0.0.1", "0:0:0:0:0:1::", "100::", "10.20.30.40", "0.0.0.1"]);
    }
    let ports: Vec<u16> = if thorough { vec![0, 1, 53, 255, 256, 443, 32767, 32768, 65534, 65535] } else { vec![0, 53, 255, 256, 32768, 65535] };
    let mut targets: Vec<SocketAddr> = vec![];
    for h in &hosts {
        for p in &ports {
            targets.push(SocketAddr::new(h.parse().unwrap(), *p));
        }
    }
    let n = targets.len();
    let targets = Arc::new(targets);
    let t2 = targets.clone();
    let res: Vec<Result<Vec<Vec<u8>>, String>> = par_map(n, 16, move |i| {
        let target = t2[i];
        let slot: Arc<Mutex<Option<Result<Vec<Vec<u8>>, String>>>> = Arc::new(Mutex::new(None));
        let slot2 = slot.clone();
        let sc = scenario(move || {
            let slot2 = slot2.clone();
            async move {
                let w = CWorld::start(padding(STOP0), quiet_pool(1), Answer::Ok);
                let r = within(w.client.create_udp_proxy("127.0.0.1:0", target)).await;
                tokio::time::sleep(Duration::from_secs(1)).await;
                let logs = w.logs();
                let out = match r {
                    Some(Ok(_)) => Ok(logs.iter().flat_map(|l| l.frames.iter().filter(|f| f.cmd == PSH).map(|f| f.data.clone())).collect::<Vec<_>>()),
                    Some(Err(e)) => Err(format!("create_udp_proxy failed: {e}")),
                    None => Err("create_udp_proxy blocked".to_string()),
                };
                *slot2.lock().unwrap() = Some(out);
                drop(w);
                Outcome::default()
            }
        });
        let mut cfg = ExecCfg::default();
        cfg.enable_io = true; // create_udp_proxy binds a real local UDP socket
        let rec = run_exec(&sc, &cfg, &[], 0);
        if let Some(v) = rec.outcome.violations.first() {
            return Err(format!("scenario failed: {}", v.detail));
        }
        slot.lock().unwrap().take().unwrap_or(Err("no result".into()))
    });
    // the same host may be spelled as an IPv4 address or as its IPv4-mapped IPv6 form; nothing else is "the same"
    let canon = |a: SocketAddr| -> SocketAddr {
        match a {
            SocketAddr::V6(v) => match v.ip().to_ipv4_mapped() {
                Some(m) => SocketAddr::new(IpAddr::V4(m), v.port()),
                None => a,
            },
            _ => a,
        }
    };
    for (i, r) in res.into_iter().enumerate() {
        let target = targets[i];
        rep.case(Some(&format!("udp association to {target}")));
        let replay = json!({"engine": "IX", "udp_target": target.to_string()});
        let frames = match r {
            Ok(f) => f,
            Err(e) => {
                rep.violation("C07:udp-association-failed", &format!("UDP association to {target}: {e}"), replay);
                continue;
            }
        };
        // first data frame: the magic destination; second: the initial request  01 | atyp | addr | port
        let Some(req) = frames.get(1) else {
            rep.violation("C07:udp-association-failed", &format!("UDP association to {target}: no initial request reached the server ({} data frames)", frames.len()), replay);
            continue;
        };
        let decoded: Option<SocketAddr> = match (req.first(), req.get(1)) {
            (Some(1), Some(1)) if req.len() == 8 => Some(SocketAddr::new(IpAddr::from([req[2], req[3], req[4], req[5]]), u16::from_be_bytes([req[6], req[7]]))),
            (Some(1), Some(4)) if req.len() == 20 => {
                let mut o = [0u8; 16];
                o.copy_from_slice(&req[2..18]);
                Some(SocketAddr::new(IpAddr::from(o), u16::from_be_bytes([req[18], req[19]])))
            }
            _ => None,
        };
        match decoded {
            None => rep.violation("C07:udp-target-altered", &format!("UDP association to {target}: the initial request {:02x?} is not a well-formed connect request", req), replay),
            Some(d) if canon(d) != canon(target) => rep.violation("C07:udp-target-altered", &format!("UDP association to {target}: the initial request names {d} ({:02x?})", req), replay),
            Some(_) => {}
        }
    }
    rep.sections.insert("udp_association_targets".into(), json!(n));
}

pub fn run(tier: Tier) -> i32 {
    let mut rep = Report::new("C07", tier, "exploration");
    let thorough = tier.is_thorough();
    rep.assumptions = vec![
        "names resolve through the public set_custom_dns_servers() pointing at a harness DNS stub (trust-dns branch) and through /etc/hosts 'localhost' (system branch); real DNS and non-loopback dialling are out of reach".into(),
        "cache expiry is driven through the H9 hook (std::time::Instant cannot be virtualised)".into(),
    ];
    udp_association_targets(&mut rep, thorough);
    // (a) destinations
    let mut dests: Vec<(String, u16)> = vec![];
    let v4 = ["0.0.0.0", "127.0.0.1", "1.2.3.4", "255.255.255.255", "10.20.30.40"];
    let v6 = ["::", "::1", "1:2:3:4:5:6:7:8", "::ffff:1.2.3.4", "ff02::1"];
    let qports: Vec<u16> = vec![0, 1, 80, 255, 256, 443, 32767, 32768, 65535];
    for h in v4.iter().chain(v6.iter()) {
        for p in &qports {
            dests.push((h.to_string(), *p));
        }
    }
    for len in 1..=256usize {
        let ascii: String = (0..len).map(|i| if i % 10 == 9 { '.' } else { (b'a' + (i % 26) as u8) as char }).collect();
        dests.push((ascii, qports[len % qports.len()]));
        // multi-byte UTF-8 of exactly `len` bytes where possible
        if len >= 2 {
            let mut s = String::new();
            while s.len() + 2 <= len {
                s.push('é');
            }
            while s.len() < len {
                s.push('x');
            }
            dests.push((s, 8080));
        }
    }
    dests.push(("x".repeat(300), 80));
    dests.push(("é".repeat(128), 80)); // 256 bytes, 128 chars
    dests.push(("é".repeat(127) + "x", 80)); // 255 bytes
    // names that look like addresses but are not
    for h in ["1.2.3", "1.2.3.4.5", "256.1.1.1", "01.2.3.4", "[::1]", "::1%lo", "1.2.3.4 "] {
        dests.push((h.to_string(), 53));
    }
    let all_ports = thorough;
    if all_ports {
        for h in ["1.2.3.4", "1:2:3:4:5:6:7:8", "port.example"] {
            for p in 0..=65535u16 {
                dests.push((h.to_string(), p));
            }
        }
    } else {
        for h in ["port.example"] {
            for p in (0..=65535u32).step_by(257) {
                dests.push((h.to_string(), p as u16));
            }
        }
    }
    rep.sample(json!({"destination": dests[300].0.clone(), "port": dests[300].1}));
    let n_dests = dests.len();
    check_roundtrips(&mut rep, dests, 64);
    check_fragmentation(&mut rep, thorough);
    rep.sections.insert("destinations".into(), json!({"roundtrips": n_dests, "all_ports": all_ports}));
    concurrent_resolves(&mut rep, thorough);
    // (b), (c), (d) in real time
    let rt = rt_multi();
    rt.block_on(async {
        resolution_histories(&mut rep, thorough).await;
        moving_hosts(&mut rep, thorough).await;
        failing_lookups(&mut rep, thorough).await;
        v6_names(&mut rep).await;
        dial_cases(&mut rep).await;
    });
    drop(rt);
    rep.finish("IX/DET: destinations {5 IPv4, 5 IPv6} x boundary ports, every domain length 1..=256 (ASCII and multi-byte), almost-addresses, port sweep (thorough: all 65536 ports x 3 address types) through the real Client::create_proxy_stream and the real server-side parser; destination header cut into <=3 frames at every position; UDP associations: the target named in the initial request written by the real Client::create_udp_proxy (in-memory dialer seam) for 17 (23) address shapes x boundary ports; BX: every resolve/age/clear history up to depth 3 (4) on both resolver branches, plus every history of depth 5 (6) over {resolve gamma, resolve delta, gamma's DNS answer changes, age, clear} (stub TTL 0), names with AAAA answers of every shape (::1, ::a.b.c.d, ::, IPv4-mapped, global, dual-stack); SEMI: every (name|literal, listener) pair through the real TcpProxyHandler incl. names containing the UDP magic string; non-trivial = distinct destination / cut pattern / history with >= 2 distinct (host,port) requests / dial request")
}
