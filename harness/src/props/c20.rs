//! C20 — hostile or garbled input cannot crash or wedge the proxy.
//! IX: frame sequences over all command bytes, single mutations of recorded
//! traffic, parser sweeps; a process-wide panic hook, virtual time and a
//! watchdog decide "panic / spin / wedged"; LX for the front-ends.

use crate::ctl::{ExecCfg, Outcome, ScenarioFn, run_exec, scenario, settle};
use crate::lx::*;
use crate::par::par_map;
use crate::refmodel::*;
use crate::report::{Report, Tier};
use crate::semi::*;
use crate::sess::*;
use crate::vpipe::PipeCfg;
use anytls_rs::client::verif_parse_and_rewrite;
use anytls_rs::server::{handle_udp_over_tcp, verif_read_socks_addr};
use anytls_rs::session::{Stream, StreamReader};
use bytes::Bytes;
use serde_json::json;
use std::sync::Arc;
use std::time::Duration;
use tokio::io::{AsyncReadExt, AsyncWriteExt};
use tokio::sync::mpsc;

/// Feed `hostile` to an established session of the given role, then check that a well-formed
/// exchange still works or that the session closed cleanly. Returns the violations.
fn hostile_scenario(server_role: bool, hostile: Vec<u8>, with_settings: bool) -> ScenarioFn {
    scenario(move || {
        let hostile = hostile.clone();
        async move {
            let mut out = Outcome::default();
            if server_role {
                let link = peer_link(PipeCfg::new("c2s"), PipeCfg::new("s2c"));
                let wire = link.peer.out.clone();
                let mut side = start_server_session(link.sess_r, link.sess_w, padding(STOP0), None);
                let sess = side.sess.clone();
                // echo handler for every accepted stream
                tokio::spawn(async move {
                    while let Some(st) = side.streams.recv().await {
                        tokio::spawn(async move {
                            let r = st.reader().clone();
                            let mut buf = [0u8; 256];
                            loop {
                                let n = {
                                    let mut g = r.lock().await;
                                    match g.read(&mut buf).await {
                                        Ok(0) | Err(_) => return,
                                        Ok(n) => n,
                                    }
                                };
                                if st.send_data(Bytes::copy_from_slice(&buf[..n])).is_err() {
                                    return;
                                }
                            }
                        });
                    }
                });
                let mut peer = link.peer;
                if with_settings {
                    peer.send(SETTINGS, 0, &client_settings("x"));
                }
                peer.send_raw(&hostile);
                settle().await;
                tokio::time::sleep(Duration::from_secs(1)).await;
                // a well-formed exchange on a fresh id
                peer.send(SYN, 0x7777, b"");
                peer.send(PSH, 0x7777, b"ping-after-hostile");
                let echoed = peer.wait_for(|f| f.cmd == PSH && f.id == 0x7777 && f.data == b"ping-after-hostile").await.is_some();
                if !echoed {
                    // acceptable only if the session ended cleanly
                    tokio::time::sleep(Duration::from_secs(5)).await;
                    if !(sess.is_closed() && wire.shutdown_seen()) {
                        out.viol("C20:session-wedged", format!("server session neither serves a well-formed stream nor closed cleanly (closed={}, transport shut down={})", sess.is_closed(), wire.shutdown_seen()));
                    }
                }
                out.obs = format!("echoed={echoed} closed={}", sess.is_closed());
                let _ = sess.close().await;
            } else {
                let link = peer_link(PipeCfg::new("s2c"), PipeCfg::new("c2s"));
                let wire = link.peer.out.clone();
                let sess = match start_client_session(link.sess_r, link.sess_w, padding(STOP0), None, 0).await {
                    Ok(s) => s,
                    Err(e) => {
                        out.viol("harness:start", format!("{e}"));
                        return out;
                    }
                };
                let mut peer = link.peer;
                let first = sess.open_stream().await.ok();
                sess.disable_buffering();
                if let Some((st, _)) = &first {
                    let _ = sess.write_data_frame(st.id(), Bytes::from_static(b"d")).await;
                }
                if with_settings {
                    peer.send(SERVER_SETTINGS, 0, b"v=2");
                }
                peer.send_raw(&hostile);
                settle().await;
                tokio::time::sleep(Duration::from_secs(1)).await;
                // a well-formed exchange on a new stream (shaped by whatever scheme is now in force)
                let mut ok = false;
                match within(sess.open_stream()).await {
                    None => out.viol("C20:open-blocks", "open_stream blocks forever after hostile input"),
                    Some(Err(_)) => {}
                    Some(Ok((st, _rx))) => {
                        match within(sess.write_data_frame(st.id(), Bytes::from_static(b"ping"))).await {
                            None => out.viol("C20:write-blocks", "write blocks forever after hostile input"),
                            Some(Err(_)) => {}
                            Some(Ok(())) => {
                                peer.send(SYNACK, st.id(), b"");
                                peer.send(PSH, st.id(), b"pong-after-hostile");
                                let r = st.reader().clone();
                                let mut got = vec![];
                                let mut buf = [0u8; 64];
                                while got.len() < 18 {
                                    let n = {
                                        let mut g = r.lock().await;
                                        tokio::time::timeout(Duration::from_secs(60), g.read(&mut buf)).await
                                    };
                                    match n {
                                        Ok(Ok(n)) if n > 0 => got.extend_from_slice(&buf[..n]),
                                        _ => break,
                                    }
                                }
                                ok = got == b"pong-after-hostile";
                            }
                        }
                    }
                }
                if !ok {
                    tokio::time::sleep(Duration::from_secs(5)).await;
                    if !(sess.is_closed() && wire.shutdown_seen()) {
                        out.viol("C20:session-wedged", format!("client session neither serves a well-formed stream nor closed cleanly (closed={}, transport shut down={})", sess.is_closed(), wire.shutdown_seen()));
                    }
                }
                out.obs = format!("ok={ok} closed={}", sess.is_closed());
                let _ = sess.close().await;
                drop(peer);
            }
            out
        }
    })
}

/// Pad a hostile byte string with zero bytes until it ends on a frame boundary of the reference
/// parser, so that the well-formed exchange that follows is seen as frames (a corrupted length
/// field legitimately swallows whatever comes next as payload).
fn frame_align(mut bytes: Vec<u8>) -> Vec<u8> {
    for _ in 0..4 {
        let (_, left) = parse_all(&bytes);
        if left == 0 {
            return bytes;
        }
        let start = bytes.len() - left;
        if left < 7 {
            bytes.extend(std::iter::repeat(0u8).take(7 - left));
        } else {
            let len = u16::from_be_bytes([bytes[start + 5], bytes[start + 6]]) as usize;
            bytes.extend(std::iter::repeat(0u8).take(7 + len - left));
        }
    }
    bytes
}

fn payloads() -> Vec<(&'static str, Vec<u8>)> {
    vec![
        ("empty", vec![]),
        ("1 byte", vec![0x41]),
        ("valid settings", b"v=2\nclient=x\npadding-md5=0".to_vec()),
        ("settings v=255 + garbage", b"v=255\n=\n==\n\n\0\0=\xff\xfe\npadding-md5".to_vec()),
        ("invalid utf-8", vec![0xff, 0xfe, 0xc0, 0x80, b'=', 0xf5, b'\n', b'v', b'=', 0x80]),
        ("65535 bytes", vec![b'z'; 65535]),
        ("scheme without stop", b"0=1-1\n1=c".to_vec()),
        ("scheme with huge and negative numbers", b"stop=3\n0=2147483648-2147483648\n1=-5-9,c,4294967326-4294967326,99999999999999999999-1\n2=c,c,c,0-0".to_vec()),
        ("scheme stop overflow", b"stop=99999999999\n1=1-1".to_vec()),
        ("scheme: every line a range above i32::MAX", all_lines("3000000000-4000000000")),
        ("scheme: every line huge fixed sizes", all_lines("2147483648-2147483648,c,4294967326-4294967326")),
        ("scheme: every line negative / overflowing / reversed", all_lines("-5-9,99999999999999999999-1,9223372036854775807-1,c,0-0,70000-3")),
        ("scheme: every line 65536 and 65543", all_lines("65536-65536,65543-65543")),
        // long texts whose character boundaries avoid every plausible byte cap (a slice at a fixed byte offset panics)
        ("400 x 3-byte characters", "日".repeat(400).into_bytes()),
        ("'a' + 400 x 3-byte characters", format!("a{}", "日".repeat(400)).into_bytes()),
        ("'ab' + 400 x 3-byte characters", format!("ab{}", "日".repeat(400)).into_bytes()),
        ("700 x 2-byte characters", "é".repeat(700).into_bytes()),
        ("'a' + 700 x 2-byte characters", format!("a{}", "é".repeat(700)).into_bytes()),
        ("400 x 4-byte characters", "𝄞".repeat(400).into_bytes()),
        ("100 x 0xff", vec![0xff; 100]),
        ("1000 x 0xff", vec![0xff; 1000]),
        ("255 ASCII bytes + a 2-byte character", format!("{}é", "x".repeat(255)).into_bytes()),
    ]
}

/// a scheme whose lines 0..=16 all carry `line` (whatever packet number the session is at, the line applies)
fn all_lines(line: &str) -> Vec<u8> {
    let mut s = "stop=17".to_string();
    for k in 0..=16 {
        s.push_str(&format!("\n{k}={line}"));
    }
    s.into_bytes()
}

fn run_cases(rep: &mut Report, cases: Vec<(String, bool, Vec<u8>, bool)>, key_prefix: &str) {
    let n = cases.len();
    let cases = Arc::new(cases);
    let c2 = cases.clone();
    let res: Vec<Vec<(String, String)>> = par_map(n, 16, move |i| {
        let (_, role, bytes, ws) = &c2[i];
        let sc = hostile_scenario(*role, frame_align(bytes.clone()), *ws);
        let rec = run_exec(&sc, &ExecCfg::default(), &[], 0);
        rec.outcome.violations.into_iter().map(|v| (v.key, v.detail)).collect()
    });
    for (i, v) in res.into_iter().enumerate() {
        let (name, role, _, _) = &cases[i];
        let full = format!("{key_prefix} {} role: {name}", if *role { "server" } else { "client" });
        rep.case(Some(&full));
        if i % 2003 == 5 {
            rep.sample(json!({"case": full}));
        }
        for (k, d) in v {
            let key = if k.starts_with("panic") { "C20:task-panicked".to_string() } else if k == "spin" || k == "wedged-real-time" || k == "harness:scenario-horizon" { "C20:task-spins-or-blocks".to_string() } else { k };
            rep.violation(&key, &format!("{full}: {d}"), json!({"engine": "IX/DET", "case": full}));
        }
    }
}

fn session_level(rep: &mut Report, thorough: bool) {
    let ids = [0u32, 1, 2, 0xffff_ffff];
    let pl = payloads();
    // single frames: all 256 command bytes
    let mut cases = vec![];
    for role in [true, false] {
        for cmd in 0..=255u8 {
            for id in ids {
                for (pn, p) in &pl {
                    if !thorough && cmd > 12 && cmd != 0x7f && cmd != 0xff && !(p.is_empty() && id == 1) {
                        continue;
                    }
                    cases.push((format!("frame cmd={cmd:#04x} id={id:#x} payload={pn}"), role, enc(cmd, id, p), true));
                }
            }
        }
        // before any settings frame
        for cmd in 0..=12u8 {
            cases.push((format!("first frame (no settings) cmd={cmd:#04x}"), role, enc(cmd, 1, b"x"), false));
        }
    }
    // text payloads that are VALID for their frame type except for one byte: a parsable padding scheme, valid settings,
    // an error text — with byte k replaced by 0xff (never valid UTF-8) or 0xc3 (a lone lead byte), for every k
    {
        let texts: Vec<(&str, u8, u32, Vec<u8>)> = vec![
            ("pushed scheme (built-in default text)", UPDATE_PADDING, 0, DEFAULT.as_bytes().to_vec()),
            ("settings", SETTINGS, 0, b"v=2\nclient=anytls-rs/0.1.0\npadding-md5=0123456789abcdef0123456789abcdef".to_vec()),
            ("server settings", SERVER_SETTINGS, 0, b"v=2\nextra=some-longer-value-to-have-offsets".to_vec()),
            ("synack error text", SYNACK, 1, b"Failed to connect to example.com:443: connection refused (os error 111)".to_vec()),
            ("alert text", ALERT, 0, b"fatal: the server is going away for maintenance, please reconnect later".to_vec()),
        ];
        for (tn, cmd, id, text) in &texts {
            for k in 0..text.len() {
                for bad in [0xffu8, 0xc3] {
                    let mut t = text.clone();
                    t[k] = bad;
                    let role = *cmd == SETTINGS; // settings go to a server, the others to a client
                    cases.push((format!("{tn} with byte {k} replaced by {bad:#04x}"), role, enc(*cmd, *id, &t), *cmd != SETTINGS));
                }
            }
        }
    }
    run_cases(rep, cases, "single");
    // pairs over the reduced alphabet
    let cmds: Vec<u8> = if thorough { (0..=12).chain([0x7f, 0xff]).collect() } else { (0..=10).collect() };
    let pids = if thorough { vec![0u32, 1, 2, 0xffff_ffff] } else { vec![0u32, 1] };
    let ppl: Vec<&(&str, Vec<u8>)> = if thorough { pl.iter().filter(|p| p.0 != "65535 bytes").collect() } else { pl.iter().filter(|p| ["empty", "valid settings", "invalid utf-8", "scheme: every line a range above i32::MAX", "scheme: every line negative / overflowing / reversed"].contains(&p.0)).collect() };
    let mut frames: Vec<(String, Vec<u8>)> = vec![];
    for c in &cmds {
        for id in &pids {
            for (pn, p) in &ppl {
                frames.push((format!("{}({id:#x},{pn})", cmd_name(*c)), enc(*c, *id, p)));
            }
        }
    }
    let mut cases = vec![];
    for role in [true, false] {
        for (an, a) in &frames {
            for (bn, b) in &frames {
                let mut v = a.clone();
                v.extend_from_slice(b);
                cases.push((format!("{an} then {bn}"), role, v, true));
            }
        }
    }
    run_cases(rep, cases, "pair");
    // triples over a small alphabet (thorough)
    if thorough {
        let small: Vec<(String, Vec<u8>)> = vec![
            ("SYN1".into(), enc(SYN, 1, b"")),
            ("SYN1'".into(), enc(SYN, 1, b"x")),
            ("PSH1".into(), enc(PSH, 1, b"abc")),
            ("PSH9".into(), enc(PSH, 9, b"abc")),
            ("FIN1".into(), enc(FIN, 1, b"")),
            ("FIN0".into(), enc(FIN, 0, b"")),
            ("SYNACK1".into(), enc(SYNACK, 1, b"")),
            ("SYNACK1err".into(), enc(SYNACK, 1, b"no")),
            ("SETTINGS".into(), enc(SETTINGS, 0, b"v=2\npadding-md5=0")),
            ("SETTINGSbad".into(), enc(SETTINGS, 0, &[0xff, b'=', 0xfe])),
            ("SRVSET".into(), enc(SERVER_SETTINGS, 0, b"v=2")),
            ("SRVSETbad".into(), enc(SERVER_SETTINGS, 0, b"v=999")),
            ("UPD".into(), enc(UPDATE_PADDING, 0, &all_lines("3000000000-4000000000"))),
            ("UPDbad".into(), enc(UPDATE_PADDING, 0, b"nostop")),
            ("HREQ".into(), enc(HEART_REQ, 0, b"")),
            ("HRESP".into(), enc(HEART_RESP, 0, b"")),
            ("WASTE".into(), enc(WASTE, 0, &[0; 9])),
            ("UNK".into(), enc(0x7f, 3, b"??")),
        ];
        let mut cases = vec![];
        for role in [true, false] {
            for (an, a) in &small {
                for (bn, b) in &small {
                    for (cn, c) in &small {
                        let mut v = a.clone();
                        v.extend_from_slice(b);
                        v.extend_from_slice(c);
                        cases.push((format!("{an},{bn},{cn}"), role, v, true));
                    }
                }
            }
        }
        run_cases(rep, cases, "triple");
    }
}

/// Record a well-formed conversation in both directions and apply every single mutation.
fn mutated_traffic(rep: &mut Report, thorough: bool) {
    let c2s: Vec<Vec<u8>> = vec![
        enc(SYN, 1, b""),
        enc(PSH, 1, &[3, 11, b'e', b'x', b'a', b'm', b'p', b'l', b'e', b'.', b'c', b'o', b'm', 1, 187]),
        enc(PSH, 1, b"GET / HTTP/1.1\r\nHost: example.com\r\n\r\n"),
        enc(HEART_REQ, 0, b""),
        enc(SYN, 2, b""),
        enc(PSH, 2, &[1, 10, 0, 0, 1, 0, 80]),
        enc(WASTE, 0, &[0u8; 20]),
        enc(FIN, 1, b""),
    ];
    let s2c: Vec<Vec<u8>> = vec![
        enc(UPDATE_PADDING, 0, b"stop=2\n0=10-10\n1=50-60"),
        enc(SYNACK, 1, b""),
        enc(PSH, 1, b"HTTP/1.1 200 OK\r\nContent-Length: 2\r\n\r\nok"),
        enc(HEART_RESP, 0, b""),
        enc(SYNACK, 2, b"connection refused"),
        enc(HEART_REQ, 7, b""),
        enc(FIN, 1, b""),
    ];
    let mut cases = vec![];
    for (role, conv) in [(true, &c2s), (false, &s2c)] {
        let flat: Vec<u8> = conv.iter().flatten().copied().collect();
        let limit = if thorough { flat.len() } else { flat.len().min(160) };
        for bit in 0..limit * 8 {
            let mut v = flat.clone();
            v[bit / 8] ^= 1 << (bit % 8);
            cases.push((format!("bit flip {bit}"), role, v, true));
        }
        for cut in 0..flat.len() {
            cases.push((format!("truncated at {cut} (then the well-formed exchange follows)"), role, flat[..cut].to_vec(), true));
        }
        for i in 0..conv.len() {
            let mut v: Vec<u8> = vec![];
            for (j, f) in conv.iter().enumerate() {
                v.extend_from_slice(f);
                if j == i {
                    v.extend_from_slice(f);
                }
            }
            cases.push((format!("frame {i} duplicated"), role, v, true));
            if i + 1 < conv.len() {
                let mut order: Vec<usize> = (0..conv.len()).collect();
                order.swap(i, i + 1);
                cases.push((format!("frames {i} and {} swapped", i + 1), role, order.iter().flat_map(|k| conv[*k].clone()).collect(), true));
            }
            let len = u16::from_be_bytes([conv[i][5], conv[i][6]]);
            for nl in [0u16, len.wrapping_sub(1), len.wrapping_add(1), 65535] {
                if nl == len {
                    continue;
                }
                let mut v: Vec<u8> = vec![];
                for (j, f) in conv.iter().enumerate() {
                    let mut f = f.clone();
                    if j == i {
                        f[5..7].copy_from_slice(&nl.to_be_bytes());
                    }
                    v.extend_from_slice(&f);
                }
                cases.push((format!("length field of frame {i} set to {nl}"), role, v, true));
            }
        }
    }
    run_cases(rep, cases, "mutation");
}

fn hand_stream(id: u32) -> (Arc<Stream>, mpsc::UnboundedSender<Bytes>, mpsc::UnboundedReceiver<(u32, Bytes)>) {
    let (out_tx, out_rx) = mpsc::unbounded_channel();
    let (in_tx, in_rx) = mpsc::unbounded_channel();
    let (st, _syn) = Stream::new(id, StreamReader::new(id, in_rx), out_tx);
    (Arc::new(st), in_tx, out_rx)
}

/// Parser sweeps (real time, no sockets needed except UDP bind inside the handler).
fn parsers(rep: &mut Report, thorough: bool) {
    let rt = rt_multi();
    let mut inputs: Vec<(String, Vec<u8>)> = vec![];
    for t in 0..=255u8 {
        for l in [0u8, 1, 255] {
            let mut v = vec![t, l];
            v.extend(std::iter::repeat(b'a').take(l as usize + 18));
            let n = v.len();
            let cuts: Vec<usize> = if thorough || t <= 5 || t == 255 { (0..=n.min(24)).collect() } else { vec![1, 2, n] };
            for c in cuts {
                inputs.push((format!("type {t:#04x} len {l} truncated to {c}"), v[..c.min(n)].to_vec()));
            }
        }
    }
    let n_inputs = inputs.len();
    let r1: Vec<Option<String>> = rt.block_on(async {
        let mut out = vec![];
        for (_, bytes) in &inputs {
            // the destination parser: input then end-of-stream
            let (st, feed, _o) = hand_stream(1);
            if !bytes.is_empty() {
                let _ = feed.send(Bytes::copy_from_slice(bytes));
            }
            drop(feed);
            let h = tokio::spawn(verif_read_socks_addr(st));
            let a = match tokio::time::timeout(Duration::from_secs(20), h).await {
                Err(_) => Some("destination parser blocks although the stream has ended".to_string()),
                Ok(Err(e)) if e.is_panic() => Some("destination parser panicked".to_string()),
                _ => None,
            };
            // the UDP initial-request parser (isConnect byte prepended and not)
            let mut b = None;
            for pre in [vec![1u8], vec![]] {
                let (st, feed, _o) = hand_stream(2);
                let mut v = pre.clone();
                v.extend_from_slice(bytes);
                if !v.is_empty() {
                    let _ = feed.send(Bytes::from(v));
                }
                // a well-formed but tiny datagram and a zero-length one follow
                let _ = feed.send(Bytes::from_static(&[0, 1, b'x', 0, 0]));
                drop(feed);
                let h = tokio::spawn(handle_udp_over_tcp(st));
                match tokio::time::timeout(Duration::from_secs(20), h).await {
                    Err(_) => b = Some("UDP handler blocks although the stream has ended".to_string()),
                    Ok(Err(e)) if e.is_panic() => b = Some("UDP handler panicked".to_string()),
                    _ => {}
                }
            }
            out.push(a.or(b));
        }
        out
    });
    for (i, r) in r1.into_iter().enumerate() {
        rep.case(Some(&format!("parser {}", inputs[i].0)));
        if let Some(e) = r {
            let k = if e.contains("panicked") { "C20:task-panicked" } else { "C20:task-spins-or-blocks" };
            rep.violation(k, &format!("{}: {e}", inputs[i].0), json!({"engine": "IX", "input": inputs[i].1}));
        }
    }
    // UDP length prefixes with short bodies
    let r2: Vec<(String, Option<String>)> = rt.block_on(async {
        let mut out = vec![];
        for lp in [0u16, 1, 2, 255, 65535] {
            for body in [0usize, 1, 3] {
                let (st, feed, _o) = hand_stream(3);
                let mut v = vec![1u8, 1, 127, 0, 0, 1, 0, 9];
                v.extend_from_slice(&lp.to_be_bytes());
                v.extend(std::iter::repeat(b'u').take(body));
                let _ = feed.send(Bytes::from(v));
                drop(feed);
                let h = tokio::spawn(handle_udp_over_tcp(st));
                let r = match tokio::time::timeout(Duration::from_secs(20), h).await {
                    Err(_) => Some("blocks although the stream has ended".to_string()),
                    Ok(Err(e)) if e.is_panic() => Some("panicked".to_string()),
                    _ => None,
                };
                out.push((format!("udp length prefix {lp} with {body} body bytes"), r));
            }
        }
        out
    });
    for (n, r) in r2 {
        rep.case(Some(&n));
        if let Some(e) = r {
            rep.violation(if e.contains("panicked") { "C20:task-panicked" } else { "C20:task-spins-or-blocks" }, &format!("{n}: {e}"), json!({"engine": "IX"}));
        }
    }
    // the CLIENT side of a UDP association reads length-prefixed datagrams written by the server: hostile prefixes and
    // bodies (before and after the application has sent anything), then end of stream
    let r3: Vec<(String, Option<String>)> = rt.block_on(async {
        let mut out = vec![];
        for lp in [0u16, 1, 2, 255, 1472, 1473, 65506, 65507, 65508, 65535] {
            for body in [0usize, 1, 3, lp as usize, lp as usize + 1] {
                for app_first in [false, true] {
                    let Ok(local) = tokio::net::UdpSocket::bind("127.0.0.1:0").await else { continue };
                    let laddr = local.local_addr().unwrap();
                    let Ok(app) = tokio::net::UdpSocket::bind("127.0.0.1:0").await else { continue };
                    let (st, feed, _o) = hand_stream(4);
                    let h = tokio::spawn(anytls_rs::client::verif_udp_proxy_loop(local, st));
                    if app_first {
                        let _ = app.send_to(b"hello", laddr).await;
                        tokio::time::sleep(Duration::from_millis(5)).await;
                    }
                    let mut v = lp.to_be_bytes().to_vec();
                    v.extend(std::iter::repeat(b'r').take(body));
                    let _ = feed.send(Bytes::from(v));
                    // a well-formed small datagram follows (it is part of the body when the prefix promised more)
                    let _ = feed.send(Bytes::from_static(&[0, 2, b'o', b'k']));
                    drop(feed);
                    let r = match tokio::time::timeout(Duration::from_secs(20), h).await {
                        Err(_) => Some("blocks although the stream has ended".to_string()),
                        Ok(Err(e)) if e.is_panic() => Some("panicked".to_string()),
                        _ => None,
                    };
                    out.push((format!("client side of a UDP association: length prefix {lp} with {body} body bytes from the server (application has sent {})", if app_first { "a datagram" } else { "nothing yet" }), r));
                }
            }
        }
        out
    });
    let n_r3 = r3.len();
    for (n, r) in r3 {
        rep.case(Some(&n));
        if let Some(e) = r {
            rep.violation(if e.contains("panicked") { "C20:task-panicked" } else { "C20:task-spins-or-blocks" }, &format!("{n}: {e}"), json!({"engine": "IX"}));
        }
    }
    drop(rt);
    // HTTP header blocks: multi-byte characters at every offset of a header line, odd targets, missing parts
    let mut blocks: Vec<String> = vec![];
    for off in 0..10usize {
        for ch in ["é", "日", "𝄞"] {
            for name in ["X", "Host", "To", "hos", "Hostx"] {
                let mut line = format!("{name}: ");
                while line.len() < off {
                    line.push('a');
                }
                let line = if off <= line.len() { format!("{}{ch}{}", &line[..off.min(line.len())], &line[off.min(line.len())..]) } else { format!("{line}{ch}") };
                blocks.push(format!("GET http://example.com/ HTTP/1.1\r\n{line}\r\n\r\n"));
                blocks.push(format!("GET / HTTP/1.1\r\nHost: example.com\r\n{line}\r\n\r\n"));
            }
        }
    }
    for t in ["http://", "http:///", "https://", ":", "[", "]", "[::1", "a:b:c", "http://[::1", "http://:80/", "http://a:99999/", "http://a:-1/", " ", "é", "http://é/", "//", "*", ""] {
        for m in ["GET", "CONNECT", "", "é", "get"] {
            blocks.push(format!("{m} {t} HTTP/1.1\r\nHost: h\r\n\r\n"));
            blocks.push(format!("{m} {t}\r\n\r\n"));
        }
    }
    for b in ["\r\n\r\n", "\r\n", "GET\r\n\r\n", "GET /\r\n\r\n", "GET / HTTP/1.1\r\n:\r\n\r\n", "GET / HTTP/1.1\r\nHost:\r\n\r\n", "GET / HTTP/1.1\r\nHost: :\r\n\r\n", "GET / HTTP/1.1\r\nHost: [\r\n\r\n", "GET / HTTP/1.1\r\nHost: a:b\r\n\r\n", "GET / HTTP/1.1\r\nhost\r\n\r\n", "\0\0\0\r\n\r\n"] {
        blocks.push(b.to_string());
    }
    for b in &blocks {
        rep.case(Some(&format!("http {:?}", b)));
        let r = std::panic::catch_unwind(|| {
            let _ = verif_parse_and_rewrite(b, vec![1, 2, 3]);
        });
        if r.is_err() {
            rep.violation("C20:task-panicked", &format!("HTTP request parser/rewriter panicked on {:?}", b), json!({"engine": "IX", "header_block": b}));
        }
    }
    rep.sections.insert("parser_inputs".into(), json!({"address_and_udp_parsers": n_inputs, "client_side_udp_streams": n_r3, "http_header_blocks": blocks.len()}));
}

/// LX: malformed input on the SOCKS5 and HTTP listeners; a good request on a sibling connection must still work.
fn front_ends(rep: &mut Report) {
    let rt = rt_multi();
    let r: Result<Vec<(String, String)>, String> = rt.block_on(async {
        let lx = start_lx("pw", "pw", pool_cfg(3600, 3600, 1), true, true).await?;
        let target = start_target("127.0.0.1", TargetMode::Echo, vec![]).await;
        let mut v = vec![];
        let garbage: Vec<Vec<u8>> = vec![
            vec![],
            vec![0],
            vec![5],
            vec![5, 255],
            vec![0xff; 300],
            b"GET / HTTP/1.1\r\n\r\n".to_vec(),
            b"\x16\x03\x01\x02\x00\x01\x00\x01\xfc\x03\x03".to_vec(),
            vec![5, 1, 0, 5, 1, 0, 3, 0],
            vec![5, 1, 0, 5, 1, 0, 3, 255],
            vec![5, 1, 0, 5, 1, 0, 9, 1, 2, 3],
            "GET http://é/ HTTP/1.1\r\nX: hé\r\nTo: 日本\r\n\r\n".as_bytes().to_vec(),
            "GET / HTTP/1.1\r\nHost: 127.0.0.1:1\r\nX: hé\r\n\r\n".as_bytes().to_vec(),
            b"CONNECT :0 HTTP/1.1\r\n\r\n".to_vec(),
            b"CONNECT [ HTTP/1.1\r\n\r\n".to_vec(),
            { let mut x = b"GET / HTTP/1.1\r\nX: ".to_vec(); x.extend(std::iter::repeat(b'a').take(70_000)); x },
        ];
        // hostile requests whose host points at a live target, so that the request really is rewritten and forwarded
        let mut garbage = garbage;
        garbage.push(format!("GET / HTTP/1.1\r\nHost: {}\r\nX: hé\r\nTo: 日本\r\nHos\u{e9}: 1\r\n\r\n", target.addr).into_bytes());
        garbage.push(format!("POST http://{}/ HTTP/1.1\r\nTo: 日本\r\n\r\n", target.addr).into_bytes());
        for (fname, addr) in [("socks5", lx.socks.unwrap()), ("http", lx.http.unwrap())] {
            for (gi, g) in garbage.iter().enumerate() {
                if let Ok(mut s) = tokio::net::TcpStream::connect(addr).await {
                    let _ = s.write_all(g).await;
                    let _ = read_all_or_idle(&mut s, 60).await;
                    drop(s);
                }
                let _ = gi;
            }
            // the sibling connection
            let ok = if fname == "socks5" {
                match socks5_connect(addr, target.addr).await {
                    Ok(mut s) => {
                        let _ = s.write_all(b"sibling").await;
                        let mut b = [0u8; 7];
                        matches!(tokio::time::timeout(Duration::from_secs(3), s.read_exact(&mut b)).await, Ok(Ok(_))) && &b == b"sibling"
                    }
                    Err(_) => false,
                }
            } else {
                let req = format!("CONNECT {} HTTP/1.1\r\nHost: x\r\n\r\n", target.addr);
                match tokio::net::TcpStream::connect(addr).await {
                    Ok(mut s) => {
                        let _ = s.write_all(req.as_bytes()).await;
                        let mut acc = vec![];
                        let mut b = [0u8; 1];
                        while !acc.ends_with(b"\r\n\r\n") {
                            match tokio::time::timeout(Duration::from_secs(5), s.read(&mut b)).await {
                                Ok(Ok(1)) => acc.push(b[0]),
                                _ => break,
                            }
                        }
                        acc.starts_with(b"HTTP/1.1 200")
                    }
                    Err(_) => false,
                }
            };
            if !ok {
                v.push(("C20:sibling-connection-affected".to_string(), format!("after {} malformed inputs on the {fname} listener a well-formed request on a new connection no longer works", garbage.len())));
            }
        }
        // ---- header blocks that never end: beyond the documented 64 KiB limit the HTTP front-end must give up on the
        //      connection (an answer or a close) although the client keeps it open and keeps sending
        for (what, filler, lf_free) in [("a request line without end ('a' only)", b'a', true), ("NUL bytes only", 0u8, true), ("bare CR only", b'\r', true), ("header lines without a blank line", b'h', false)] {
            let Ok(mut s) = tokio::net::TcpStream::connect(lx.http.unwrap()).await else { continue };
            let _ = s.set_nodelay(true);
            let mut sent = 0usize;
            let mut gave_up = false;
            let chunk: Vec<u8> = if lf_free { vec![filler; 4096] } else { b"X-Filler: hhhhhhhhhhhhhhhhhhhhhhhhhhhhhhhhhhhhhhhhhhhhhhhhhhhhhhhhhhhhhhhhhhhhhhhhhhhhhhhhhhhhhhhhhhhhhhhh\r\n".repeat(36) };
            if !lf_free {
                let _ = s.write_all(b"GET / HTTP/1.1\r\n").await;
            }
            // up to 1 MiB, 16x the limit
            while sent < (1 << 20) {
                if s.write_all(&chunk).await.is_err() {
                    gave_up = true;
                    break;
                }
                sent += chunk.len();
                let mut b = [0u8; 512];
                match tokio::time::timeout(Duration::from_millis(2), s.read(&mut b)).await {
                    Ok(Ok(0)) | Ok(Err(_)) => {
                        gave_up = true;
                        break;
                    }
                    Ok(Ok(_)) => {
                        gave_up = true; // an answer (400 / 431 ...)
                        break;
                    }
                    Err(_) => {}
                }
            }
            if !gave_up {
                let (resp, closed) = read_all_or_idle(&mut s, 1500).await;
                gave_up = closed || !resp.is_empty();
            }
            if !gave_up {
                v.push(("C20:header-without-end-is-buffered-beyond-the-limit".to_string(), format!("http listener, {what}: {sent} bytes were accepted without a header terminator (limit 65536) and the connection is neither answered nor closed")));
            }
        }
        // ---- connections that STALL (incomplete input, socket kept open) while a sibling arrives: on both front-end
        //      listeners and on the server's TLS listener
        let stallers: Vec<(&str, Vec<u8>)> = vec![
            ("silent", vec![]),
            ("1 byte", vec![5]),
            ("incomplete greeting", vec![5, 2]),
            ("method count 255, one method", vec![5, 255, 0]),
            ("incomplete request", vec![5, 1, 0, 5, 1, 0, 1, 127]),
            ("incomplete request line", b"GET / HT".to_vec()),
            ("incomplete header", b"GET / HTTP/1.1\r\nHost: x".to_vec()),
            ("incomplete TLS record", b"\x16\x03\x01\x02\x00\x01\x00".to_vec()),
        ];
        for (fname, addr) in [("socks5", lx.socks.unwrap()), ("http", lx.http.unwrap()), ("server", lx.server_addr)] {
            let mut open = vec![];
            for (_, bytes) in &stallers {
                if let Ok(mut s) = tokio::net::TcpStream::connect(addr).await {
                    let _ = s.set_nodelay(true);
                    let _ = s.write_all(bytes).await;
                    open.push(s);
                }
            }
            if fname == "server" {
                // a TLS connection that completed the handshake and stalls inside the preamble
                if let Ok(cfg) = anytls_rs::util::tls::create_client_config() {
                    let connector = tokio_rustls::TlsConnector::from(cfg);
                    if let Ok(tcp) = tokio::net::TcpStream::connect(addr).await
                        && let Ok(Ok(mut tls)) = tokio::time::timeout(Duration::from_secs(3), connector.connect(tokio_rustls::rustls::pki_types::ServerName::try_from("localhost").unwrap(), tcp)).await
                    {
                        let _ = tls.write_all(&[7u8; 20]).await;
                        let _ = tls.flush().await;
                        std::mem::forget(tls);
                    }
                }
            }
            tokio::time::sleep(Duration::from_millis(100)).await;
            let ok = match fname {
                "socks5" => match tokio::time::timeout(Duration::from_secs(4), socks5_connect(addr, target.addr)).await {
                    Ok(Ok(mut s)) => {
                        let _ = s.write_all(b"sibling").await;
                        let mut b = [0u8; 7];
                        matches!(tokio::time::timeout(Duration::from_secs(3), s.read_exact(&mut b)).await, Ok(Ok(_))) && &b == b"sibling"
                    }
                    _ => false,
                },
                "http" => {
                    let req = format!("CONNECT {} HTTP/1.1\r\nHost: x\r\n\r\n", target.addr);
                    match tokio::net::TcpStream::connect(addr).await {
                        Ok(mut s) => {
                            let _ = s.write_all(req.as_bytes()).await;
                            let mut acc = vec![];
                            let mut b = [0u8; 1];
                            while !acc.ends_with(b"\r\n\r\n") {
                                match tokio::time::timeout(Duration::from_secs(4), s.read(&mut b)).await {
                                    Ok(Ok(1)) => acc.push(b[0]),
                                    _ => break,
                                }
                            }
                            acc.starts_with(b"HTTP/1.1 200")
                        }
                        Err(_) => false,
                    }
                }
                _ => {
                    // a brand-new client, so that a new TLS connection has to be accepted by the server now
                    let c = make_client("pw", addr, anytls_rs::padding::PaddingFactory::default(), pool_cfg(3600, 3600, 1));
                    let r = tokio::time::timeout(Duration::from_secs(5), c.create_proxy_stream((target.addr.ip().to_string(), target.addr.port()))).await;
                    let ok = matches!(r, Ok(Ok(_)));
                    if let Ok(Ok((_st, sess))) = r {
                        let _ = sess.close().await;
                    }
                    c.stop_session_pool_cleanup().await;
                    ok
                }
            };
            if !ok {
                v.push(("C20:sibling-connection-blocked-by-stalled-connection".to_string(), format!("{fname} listener: while {} connections with incomplete input ({}) are held open, a well-formed request on a new connection is not served within 4 s", open.len(), stallers.iter().map(|x| x.0).collect::<Vec<_>>().join(", "))));
            }
            drop(open);
        }
        Ok(v)
    });
    drop(rt);
    match r {
        Err(e) => rep.machinery(format!("LX: {e}")),
        Ok(v) => {
            rep.case(Some("lx front-ends"));
            for (k, d) in v {
                rep.violation(&k, &d, json!({"engine": "LX"}));
            }
        }
    }
}

pub fn run(tier: Tier) -> i32 {
    let mut rep = Report::new("C20", tier, "exploration");
    let thorough = tier.is_thorough();
    rep.assumptions = vec![
        "a process-wide panic hook counts panics on every thread (tokio swallows task panics); 'wedged' = a well-formed exchange no longer completes within a 1 h virtual horizon and the session did not close cleanly; 'spin' = more than 2*10^6 choice-site visits or 60 s of real time in one execution".into(),
        "hostile input is fed to an established session (after a valid settings frame) and, for the 13 known commands, also as the very first frame".into(),
    ];
    let before = crate::det::TOTAL_PANICS.load(std::sync::atomic::Ordering::SeqCst);
    session_level(&mut rep, thorough);
    mutated_traffic(&mut rep, thorough);
    parsers(&mut rep, thorough);
    front_ends(&mut rep);
    let after = crate::det::TOTAL_PANICS.load(std::sync::atomic::Ordering::SeqCst);
    rep.sections.insert("panics_observed_process_wide".into(), json!(after - before));
    if after > before && rep.observations.is_empty() {
        rep.observe(format!("{} panic(s) were counted by the process-wide hook during the run", after - before));
    }
    for front in ["socks5", "http"] {
        crate::cworld::front_end_app_abort_pass(&mut rep, front, "C20:sibling-connection-cut-by-another-connections-reset");
    }
    rep.finish("IX: single frames over all 256 command bytes x 4 ids x 9 payloads (settings, garbage, invalid UTF-8, 65535 bytes, hostile scheme texts, long multi-byte texts; valid scheme / settings / error texts with one byte replaced by 0xff or 0xc3 at every offset) and all pairs over a reduced alphabet, both roles; every bit flip (first 160 bytes), truncation, frame duplication, adjacent swap and length-field corruption of a recorded conversation in both directions; destination / UDP parsers on all 256 type bytes x lengths x truncations; HTTP header blocks with multi-byte characters at every offset and degenerate targets; LX: malformed input on both front-ends followed by a well-formed sibling request, header blocks that never end (1 MiB of LF-free or terminator-free input against the 64 KiB limit), and connections stalling with incomplete input (held open) on both front-end listeners and the server's TLS listener while a sibling request arrives; oracle: no panic, no spin, and afterwards a well-formed exchange works or the session closed cleanly; non-trivial = distinct case")
}
