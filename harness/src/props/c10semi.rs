//! C10 server half (SEMI): real server Session over vpipes, real
//! TcpProxyHandler dialling harness targets on loopback, real time.

use crate::refmodel::*;
use crate::report::{Report, Tier};
use crate::semi::*;
use crate::sess::*;
use crate::vpipe::PipeCfg;
use anytls_rs::server::{StreamHandler, TcpProxyHandler};
use serde_json::json;
use std::sync::Arc;
use std::sync::atomic::{AtomicUsize, Ordering};
use tokio::io::{AsyncReadExt, AsyncWriteExt};

#[derive(Clone, Debug)]
struct Case {
    version: Option<&'static str>,
    accepting: bool,
    domain: bool,
    early_data: bool,
    blackhole: bool,
    /// the destination is a name that does not resolve
    unresolvable: bool,
}

fn dest_bytes(domain: bool, port: u16, unresolvable: bool) -> Vec<u8> {
    let mut v = vec![];
    if unresolvable {
        let n = b"no-such-host.invalid";
        v.push(3);
        v.push(n.len() as u8);
        v.extend_from_slice(n);
    } else if domain {
        v.push(3);
        v.push(9);
        v.extend_from_slice(b"localhost");
    } else {
        v.push(1);
        v.extend_from_slice(&[127, 0, 0, 1]);
    }
    v.extend_from_slice(&port.to_be_bytes());
    v
}

async fn run_case(c: Case) -> Vec<(String, String)> {
    let mut viols = vec![];
    let accepted = Arc::new(AtomicUsize::new(0));
    let received: Arc<std::sync::Mutex<Vec<u8>>> = Arc::new(std::sync::Mutex::new(vec![]));
    // target
    let (port, _keep): (u16, Option<tokio::task::JoinHandle<()>>) = if c.blackhole {
        // a listener whose accept queue is full: further SYNs are dropped, connect() hangs
        let sock = tokio::net::TcpSocket::new_v4().unwrap();
        sock.bind("127.0.0.1:0".parse().unwrap()).unwrap();
        let l = sock.listen(1).unwrap();
        let port = l.local_addr().unwrap().port();
        let mut fill = vec![];
        for _ in 0..8 {
            if let Some(Ok(s)) = real_timeout(300, tokio::net::TcpStream::connect(("127.0.0.1", port))).await {
                fill.push(s);
            }
        }
        let h = tokio::spawn(async move {
            let _l = l;
            let _f = fill;
            std::future::pending::<()>().await;
        });
        (port, Some(h))
    } else if c.accepting {
        let l = tokio::net::TcpListener::bind("127.0.0.1:0").await.unwrap();
        let port = l.local_addr().unwrap().port();
        let acc = accepted.clone();
        let rec = received.clone();
        let h = tokio::spawn(async move {
            loop {
                let Ok((mut s, _)) = l.accept().await else { return };
                acc.fetch_add(1, Ordering::SeqCst);
                let rec = rec.clone();
                tokio::spawn(async move {
                    let _ = s.write_all(b"greeting-from-target").await;
                    let mut buf = [0u8; 1024];
                    loop {
                        match s.read(&mut buf).await {
                            Ok(0) | Err(_) => return,
                            Ok(n) => rec.lock().unwrap().extend_from_slice(&buf[..n]),
                        }
                    }
                });
            }
        });
        (port, Some(h))
    } else {
        let (port, guard) = refusing_port("127.0.0.1");
        let h = tokio::spawn(async move {
            let _g = guard;
            std::future::pending::<()>().await;
        });
        (port, Some(h))
    };

    let link = peer_link(PipeCfg::new("c2s"), PipeCfg::new("s2c"));
    let mut side = start_server_session(link.sess_r, link.sess_w, padding(STOP0), None);
    let sess = side.sess.clone();
    // what server.rs does with accepted streams
    let s2 = sess.clone();
    tokio::spawn(async move {
        while let Some(st) = side.streams.recv().await {
            let s3 = s2.clone();
            tokio::spawn(async move {
                let h = TcpProxyHandler::new();
                let _ = h.handle_stream(st, s3).await;
            });
        }
    });
    let mut peer = link.peer;
    let settings = match c.version {
        None => "client=x\npadding-md5=0".to_string(),
        Some(v) => format!("v={v}\nclient=x\npadding-md5=0"),
    };
    peer.send(SETTINGS, 0, settings.as_bytes());
    peer.send(SYN, 7, b"");
    peer.send(PSH, 7, &dest_bytes(c.domain, port, c.unresolvable));
    if c.early_data {
        peer.send(PSH, 7, b"early-bytes");
    }
    // observe the server's frames for the stream
    let v2 = c.version.and_then(|v| v.trim().parse::<u32>().ok()).map(|v| v >= 2).unwrap_or(false);
    let wait_ms = if c.blackhole { 17_000 } else { 3_000 };
    let mut synacks: Vec<Vec<u8>> = vec![];
    let mut psh_before_synack = false;
    let mut data: Vec<u8> = vec![];
    let deadline = tokio::time::Instant::now() + std::time::Duration::from_millis(wait_ms);
    let mut settle_until: Option<tokio::time::Instant> = None;
    loop {
        let now = tokio::time::Instant::now();
        let limit = settle_until.unwrap_or(deadline).min(deadline.max(settle_until.unwrap_or(deadline)));
        if now >= limit {
            break;
        }
        let f = tokio::time::timeout(limit - now, peer.next_frame()).await;
        match f {
            Err(_) => break,
            Ok(None) => break,
            Ok(Some(fr)) => {
                if fr.id != 7 {
                    continue;
                }
                match fr.cmd {
                    SYNACK => {
                        if fr.data.is_empty() && c.accepting {
                            // the target must have been reached: its accept succeeds shortly
                            let t0 = tokio::time::Instant::now();
                            while accepted.load(Ordering::SeqCst) == 0 && t0.elapsed().as_millis() < 2000 {
                                tokio::time::sleep(std::time::Duration::from_millis(5)).await;
                            }
                            if accepted.load(Ordering::SeqCst) == 0 {
                                viols.push(("C10:server-synack-without-connection".into(), format!("{c:?}: an empty SYNACK was sent but the target never saw a connection")));
                            }
                        }
                        synacks.push(fr.data.clone());
                        // wait a little more for duplicates / data
                        settle_until = Some(tokio::time::Instant::now() + std::time::Duration::from_millis(400));
                    }
                    PSH => {
                        if synacks.is_empty() && v2 {
                            psh_before_synack = true;
                        }
                        data.extend_from_slice(&fr.data);
                        if !v2 {
                            settle_until = Some(tokio::time::Instant::now() + std::time::Duration::from_millis(400));
                        }
                    }
                    _ => {}
                }
            }
        }
    }
    if v2 {
        if synacks.len() != 1 {
            viols.push((
                if synacks.is_empty() { "C10:server-no-synack".into() } else { "C10:server-duplicate-synack".into() },
                format!("{c:?}: {} SYNACK frames for one SYN within {wait_ms} ms", synacks.len()),
            ));
        } else {
            let empty = synacks[0].is_empty();
            if c.accepting && !c.blackhole && !empty {
                viols.push(("C10:server-refuses-reachable-target".into(), format!("{c:?}: SYNACK carries an error for an accepting target: {:?}", String::from_utf8_lossy(&synacks[0]))));
            }
            if (!c.accepting || c.blackhole || c.unresolvable) && empty {
                viols.push(("C10:server-success-without-connection".into(), format!("{c:?}: empty (success) SYNACK although the target cannot be connected")));
            }
        }
        if psh_before_synack {
            viols.push(("C10:server-data-before-synack".into(), format!("{c:?}: a data frame for the stream precedes its SYNACK")));
        }
    } else if !synacks.is_empty() {
        viols.push(("C10:server-synack-to-v1-peer".into(), format!("{c:?}: SYNACK sent to a peer that did not announce version >= 2")));
    }
    if c.accepting && !c.blackhole {
        if data != b"greeting-from-target" {
            viols.push(("C10:server-relay".into(), format!("{c:?}: target greeting relayed as {:?}", String::from_utf8_lossy(&data))));
        }
        if c.early_data {
            let t0 = tokio::time::Instant::now();
            while received.lock().unwrap().len() < 11 && t0.elapsed().as_millis() < 2000 {
                tokio::time::sleep(std::time::Duration::from_millis(5)).await;
            }
            if received.lock().unwrap().as_slice() != b"early-bytes" {
                viols.push(("C10:server-early-data".into(), format!("{c:?}: target received {:?}", String::from_utf8_lossy(&received.lock().unwrap()))));
            }
        }
    } else if accepted.load(Ordering::SeqCst) != 0 {
        viols.push(("C10:server-phantom-connection".into(), format!("{c:?}")));
    }
    let _ = sess.close().await;
    viols
}

/// Opens of UDP associations (the magic destination): a v2 peer gets exactly one verdict for the stream, whatever the
/// initial request that follows looks like; an older peer gets none.
async fn run_udp_open_case(version: Option<&'static str>, initial: (&'static str, Vec<u8>), fin_after: bool) -> Vec<(String, String)> {
    let mut viols = vec![];
    let link = peer_link(PipeCfg::new("c2s"), PipeCfg::new("s2c"));
    let mut side = start_server_session(link.sess_r, link.sess_w, padding(STOP0), None);
    let sess = side.sess.clone();
    let s2 = sess.clone();
    tokio::spawn(async move {
        while let Some(st) = side.streams.recv().await {
            let s3 = s2.clone();
            tokio::spawn(async move {
                let h = TcpProxyHandler::new();
                let _ = h.handle_stream(st, s3).await;
            });
        }
    });
    let mut peer = link.peer;
    let settings = match version {
        None => "client=x\npadding-md5=0".to_string(),
        Some(v) => format!("v={v}\nclient=x\npadding-md5=0"),
    };
    peer.send(SETTINGS, 0, settings.as_bytes());
    peer.send(SYN, 9, b"");
    let magic = b"sp.v2.udp-over-tcp.arpa";
    let mut dest = vec![3u8, magic.len() as u8];
    dest.extend_from_slice(magic);
    dest.extend_from_slice(&[0, 0]);
    peer.send(PSH, 9, &dest);
    tokio::time::sleep(std::time::Duration::from_millis(150)).await;
    if !initial.1.is_empty() {
        peer.send(PSH, 9, &initial.1);
    }
    if fin_after {
        peer.send(FIN, 9, b"");
    }
    let v2 = version.and_then(|v| v.parse::<u8>().ok()).map(|v| v >= 2).unwrap_or(false);
    let mut synacks: Vec<Vec<u8>> = vec![];
    let t0 = tokio::time::Instant::now();
    while t0.elapsed().as_millis() < 1500 {
        match real_timeout(200, peer.next_frame()).await {
            Some(Some(f)) if f.cmd == SYNACK && f.id == 9 => synacks.push(f.data.clone()),
            Some(None) => break,
            _ => {}
        }
    }
    let what = format!("UDP association open, peer version {:?}, initial request: {}{}", version, initial.0, if fin_after { ", then FIN" } else { "" });
    if v2 {
        if synacks.len() != 1 {
            viols.push((if synacks.is_empty() { "C10:server-no-synack".into() } else { "C10:server-duplicate-synack".into() }, format!("{what}: {} verdicts for one open: {:?}", synacks.len(), synacks.iter().map(|d| String::from_utf8_lossy(d).to_string()).collect::<Vec<_>>())));
        }
    } else if !synacks.is_empty() {
        viols.push(("C10:server-synack-to-v1-peer".into(), format!("{what}: SYNACK sent to a peer that did not announce version >= 2")));
    }
    let _ = sess.close().await;
    viols
}

pub fn server_half(rep: &mut Report, tier: Tier) {
    {
        let udp_target = std::net::UdpSocket::bind("127.0.0.1:0").ok().and_then(|s| s.local_addr().ok()).map(|a| a.port()).unwrap_or(9);
        let mut valid = vec![1u8, 1, 127, 0, 0, 1];
        valid.extend_from_slice(&udp_target.to_be_bytes());
        let initials: Vec<(&'static str, Vec<u8>)> = vec![
            ("valid (IPv4 target)", valid),
            ("isConnect = 0", vec![0, 1, 127, 0, 0, 1, 0, 53]),
            ("unknown address type", vec![1, 9, 1, 2, 3, 4, 0, 53]),
            ("empty domain", vec![1, 3, 0, 0, 53]),
            ("domain that is not UTF-8", vec![1, 3, 2, 0xff, 0xfe, 0, 53]),
            ("unresolvable domain", { let mut v = vec![1u8, 3, 20]; v.extend_from_slice(b"no-such-host.invalid"); v.extend_from_slice(&[0, 53]); v }),
            ("nothing", vec![]),
            ("truncated", vec![1, 1, 127]),
        ];
        let mut ucases = vec![];
        for version in [Some("2"), Some("1"), None] {
            for init in &initials {
                for fin in [false, true] {
                    if (version != Some("2") || !tier.is_thorough()) && fin && init.0 != "truncated" && init.0 != "nothing" {
                        continue;
                    }
                    ucases.push((version, init.clone(), fin));
                }
            }
        }
        let results = block_on(async {
            let mut hs = vec![];
            for (v, i, f) in ucases.clone() {
                hs.push(tokio::spawn(run_udp_open_case(v, i, f)));
            }
            let mut out = vec![];
            for h in hs {
                out.push(h.await);
            }
            out
        });
        for ((v, i, f), r) in ucases.iter().zip(results) {
            let name = format!("semi udp-open version {:?} initial {} fin {}", v, i.0, f);
            rep.case(Some(&name));
            rep.traces_validated += 1;
            match r {
                Err(e) => rep.violation("panic:task", &format!("{name}: {e}"), json!({"engine": "SEMI", "case": name})),
                Ok(vs) => {
                    for (k, d) in vs {
                        rep.violation(&k, &d, json!({"engine": "SEMI", "case": name}));
                    }
                }
            }
        }
    }
    let mut cases = vec![];
    for version in [None, Some("1"), Some("2"), Some("3")] {
        for accepting in [true, false] {
            for domain in [false, true] {
                for early_data in [false, true] {
                    cases.push(Case { version, accepting, domain, early_data, blackhole: false, unresolvable: false });
                }
            }
        }
    }
    for version in [Some("2"), Some("1")] {
        cases.push(Case { version, accepting: false, domain: true, early_data: false, blackhole: false, unresolvable: true });
    }
    // other spellings of a version >= 2 (and of versions below 2): the verdict is due exactly for the former
    for version in [Some("10"), Some("02"), Some("255"), Some(" 2"), Some("2 "), Some("9"), Some("0"), Some("01"), Some("")] {
        cases.push(Case { version, accepting: true, domain: false, early_data: false, blackhole: false, unresolvable: false });
    }
    // a target whose connect stays pending for the handler's full 15 s (runs concurrently with the other cases)
    cases.push(Case { version: Some("2"), accepting: true, domain: false, early_data: false, blackhole: true, unresolvable: false });
    if tier.is_thorough() {
        cases.push(Case { version: Some("1"), accepting: true, domain: false, early_data: true, blackhole: true, unresolvable: false });
    }
    let results = block_on(async {
        let mut hs = vec![];
        for c in cases.clone() {
            hs.push(tokio::spawn(run_case(c)));
        }
        let mut out = vec![];
        for h in hs {
            out.push(h.await);
        }
        out
    });
    for (c, r) in cases.iter().zip(results) {
        rep.case(Some(&format!("semi {c:?}")));
        rep.traces_validated += 1;
        match r {
            Err(e) => rep.violation("panic:task", &format!("{c:?}: {e}"), json!({"engine": "SEMI", "case": format!("{c:?}")})),
            Ok(v) => {
                for (k, d) in v {
                    rep.violation(&k, &d, json!({"engine": "SEMI", "case": format!("{c:?}")}));
                }
            }
        }
    }
    rep.sample(json!({"semi_case": format!("{:?}", cases[5])}));
    rep.sections.insert("semi_server_half_cases".into(), json!(cases.len()));
}
