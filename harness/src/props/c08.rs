//! C08 — end of stream reaches the other side, after all the data.
//! DX on the receive-side mechanism; SEMI (target closes) and LX (application
//! closes) for propagation through the real forwarding loops.

use crate::ctl::{Outcome, ScenarioFn, scenario, settle};
use crate::dxrun::{DxItem, DxOpts, run_items};
use crate::lx::*;
use crate::refmodel::*;
use crate::report::{Report, Tier};
use crate::semi::*;
use crate::sess::*;
use crate::vpipe::PipeCfg;
use anytls_rs::server::{StreamHandler, TcpProxyHandler};
use anytls_rs::session::Stream;
use bytes::Bytes;
use serde_json::json;
use std::sync::Arc;
use std::time::Duration;
use tokio::io::{AsyncReadExt, AsyncWriteExt};

// ---------------------------------------------------------------- part 1: receive side (DX)

#[derive(Clone, Copy, Debug, PartialEq)]
pub enum ReaderMode {
    /// reader is already blocked in read when the frames arrive
    Blocked,
    /// everything (data + FIN) is delivered before the reader starts
    Later,
    /// reader has consumed part of the first chunk (rest buffered) when the FIN arrives
    Partial,
}

#[derive(Clone, Debug)]
pub struct RxParams {
    pub client_role: bool,
    pub frames: usize,
    pub mode: ReaderMode,
    pub read_buf: usize,
    /// client role: another task is inside open_stream() for a NEW stream while the FIN is handled; that stream
    /// must afterwards carry its data and end only at its own FIN
    pub opening_sibling: bool,
    pub sibling: bool,
    pub read_menu: bool,
    /// another task (pool housekeeping, liveness monitor, owner) calls close() on the session while the FIN is handled:
    /// the reader must still terminate (end-of-stream or error) having read a prefix of what was sent
    pub closing: bool,
}

async fn read_to_end(st: Arc<Stream>, buf_size: usize) -> (Vec<u8>, Option<bool>) {
    let reader = st.reader().clone();
    let mut out = vec![];
    // buf_size 0 = read calls alternating between zero-length (a legal call that must return 0 and consume
    // nothing) and 7 bytes
    let mut buf = vec![0u8; if buf_size == 0 { 7 } else { buf_size }];
    let mut call = 0usize;
    loop {
        let size = if buf_size == 0 && call % 2 == 0 { 0 } else { buf.len() };
        call += 1;
        let r = {
            let mut g = reader.lock().await;
            within(g.read(&mut buf[..size])).await
        };
        match r {
            None => return (out, None),
            Some(Ok(0)) if size == 0 => {}
            Some(Ok(0)) => return (out, Some(true)),
            Some(Err(_)) => return (out, Some(false)),
            Some(Ok(n)) => out.extend_from_slice(&buf[..n]),
        }
    }
}

pub fn make_rx(p: RxParams) -> ScenarioFn {
    scenario(move || {
        let p = p.clone();
        async move {
            let mut out = Outcome::default();
            let to_cfg = PipeCfg::new("in").menus(p.read_menu, false);
            let link = peer_link(to_cfg, PipeCfg::new("out"));
            let wire = link.peer.out.clone();
            let peer = link.peer;
            let (sess, s1, s2): (Arc<anytls_rs::session::Session>, Arc<Stream>, Option<Arc<Stream>>);
            if p.client_role {
                let s = match start_client_session(link.sess_r, link.sess_w, padding(STOP0), None, 0).await {
                    Ok(s) => s,
                    Err(e) => {
                        out.viol("C08:start-failed", format!("{e}"));
                        return out;
                    }
                };
                let (a, _ra) = s.open_stream().await.unwrap();
                let b = if p.sibling { Some(s.open_stream().await.unwrap().0) } else { None };
                s.disable_buffering();
                let _ = s.write_data_frame(a.id(), Bytes::from_static(b"d")).await;
                peer.send(SERVER_SETTINGS, 0, b"v=2");
                sess = s;
                s1 = a;
                s2 = b;
            } else {
                let mut side = start_server_session(link.sess_r, link.sess_w, padding(STOP0), None);
                peer.send(SETTINGS, 0, &client_settings("x"));
                peer.send(SYN, 1, b"");
                if p.sibling {
                    peer.send(SYN, 2, b"");
                }
                let a = within(side.streams.recv()).await.flatten();
                let b = if p.sibling { within(side.streams.recv()).await.flatten() } else { None };
                let Some(a) = a else {
                    out.viol("C08:stream-not-accepted", "server never accepted stream 1");
                    return out;
                };
                sess = side.sess.clone();
                s1 = a;
                s2 = b;
                std::mem::forget(side.streams); // keep the callback channel open
            }
            settle().await;
            let id = s1.id();
            let mut sent: Vec<u8> = vec![];
            let chunk = |k: usize| -> Vec<u8> { pat_vec(id as u8, 1, k * 10, 10) };
            let opener = if p.opening_sibling && p.client_role {
                let s = sess.clone();
                Some(tokio::spawn(async move {
                    crate::ctl::hpoint("h.c08.open").await;
                    s.open_stream().await.ok().map(|x| x.0)
                }))
            } else {
                None
            };
            let reader;
            match p.mode {
                ReaderMode::Blocked => {
                    reader = tokio::spawn(read_to_end(s1.clone(), p.read_buf));
                    settle().await;
                    for k in 0..p.frames {
                        peer.send(PSH, id, &chunk(k));
                        sent.extend_from_slice(&chunk(k));
                    }
                    if let Some(b) = &s2 {
                        peer.send(PSH, b.id(), b"sib-before");
                    }
                    peer.send(FIN, id, b"");
                }
                ReaderMode::Later => {
                    for k in 0..p.frames {
                        peer.send(PSH, id, &chunk(k));
                        sent.extend_from_slice(&chunk(k));
                    }
                    if let Some(b) = &s2 {
                        peer.send(PSH, b.id(), b"sib-before");
                    }
                    peer.send(FIN, id, b"");
                    tokio::time::sleep(Duration::from_secs(1)).await;
                    reader = tokio::spawn(read_to_end(s1.clone(), p.read_buf));
                }
                ReaderMode::Partial => {
                    for k in 0..p.frames.max(1) {
                        peer.send(PSH, id, &chunk(k));
                        sent.extend_from_slice(&chunk(k));
                    }
                    tokio::time::sleep(Duration::from_millis(10)).await;
                    // consume 3 bytes: the rest of the chunk stays in the reader's buffer
                    let mut b3 = [0u8; 3];
                    let n = {
                        let mut g = s1.reader().lock().await;
                        within(g.read(&mut b3)).await
                    };
                    if !matches!(n, Some(Ok(3))) || b3[..] != sent[..3] {
                        out.viol("C08:data-lost", format!("partial read returned {:?}", n.map(|r| r.map_err(|e| e.to_string()))));
                        return out;
                    }
                    sent.drain(..3);
                    if let Some(b) = &s2 {
                        peer.send(PSH, b.id(), b"sib-before");
                    }
                    peer.send(FIN, id, b"");
                    reader = tokio::spawn(read_to_end(s1.clone(), p.read_buf));
                }
            }
            let closer = if p.closing {
                let s = sess.clone();
                Some(tokio::spawn(async move {
                    crate::ctl::hpoint("h.c08.closer").await;
                    let _ = within(s.close()).await;
                }))
            } else {
                None
            };
            let (got, end) = match tokio::time::timeout(Duration::from_secs(3 * 3600), reader).await {
                Ok(Ok(x)) => x,
                _ => (vec![], None),
            };
            out.obs = format!("got={} end={:?}", got.len(), end);
            if p.closing {
                match end {
                    None => out.viol("C08:rx:eof-never-observed", format!("reader of stream {id} never saw end-of-stream (nor an error) after the peer's FIN while another task was closing the session (read {} of {} bytes)", got.len(), sent.len())),
                    // (a session closed by its owner ends its streams with end-of-stream or an error — C09 — whatever
                    // was still in flight; the reader cannot tell that from the peer's FIN, so only a prefix is demanded)
                    Some(_) if !sent.starts_with(&got) => out.viol("C08:rx:data-altered", format!("read {:02x?}, sent {:02x?}", &got[..got.len().min(16)], &sent[..sent.len().min(16)])),
                    _ => {}
                }
                if let Some(c) = closer {
                    let _ = tokio::time::timeout(Duration::from_secs(3 * 3600), c).await;
                }
                drop(peer);
                return out;
            }
            match end {
                None => out.viol("C08:rx:eof-never-observed", format!("reader of stream {id} never saw end-of-stream after the peer's FIN (read {} of {} bytes)", got.len(), sent.len())),
                Some(_) => {
                    if got.len() < sent.len() {
                        out.viol("C08:rx:eof-before-all-data", format!("end-of-stream after {} of the {} bytes sent before the FIN", got.len(), sent.len()));
                    } else if got != sent {
                        out.viol("C08:rx:data-altered", format!("read {:02x?}, sent {:02x?}", &got[..got.len().min(16)], &sent[..sent.len().min(16)]));
                    }
                }
            }
            // the sibling stream is unaffected
            if let Some(b) = &s2 {
                peer.send(PSH, b.id(), b"|sib-after");
                tokio::time::sleep(Duration::from_millis(100)).await;
                let mut buf = [0u8; 64];
                let mut acc = vec![];
                loop {
                    let r = {
                        let mut g = b.reader().lock().await;
                        tokio::time::timeout(Duration::from_secs(2), g.read(&mut buf)).await
                    };
                    match r {
                        Err(_) => break,
                        Ok(Ok(0)) | Ok(Err(_)) => {
                            out.viol("C08:rx:sibling-ended", format!("stream {} ended when stream {id} was finished", b.id()));
                            break;
                        }
                        Ok(Ok(n)) => acc.extend_from_slice(&buf[..n]),
                    }
                }
                if acc != b"sib-before|sib-after" {
                    out.viol("C08:rx:sibling-disturbed", format!("sibling read {:?}", String::from_utf8_lossy(&acc)));
                }
            }
            // a stream that was being opened while the FIN was handled is a stream like any other
            if let Some(o) = opener {
                match tokio::time::timeout(Duration::from_secs(3600), o).await {
                    Ok(Ok(Some(c))) => {
                        peer.send(PSH, c.id(), b"late-sib");
                        peer.send(FIN, c.id(), b"");
                        let (got, end) = read_to_end(c.clone(), 7).await;
                        if got != b"late-sib" || end != Some(true) {
                            out.viol("C08:rx:stream-opened-during-fin-disturbed", format!("stream {} (opened while the FIN of stream {id} was handled): read {:?}, end {:?}; the peer sent 8 bytes and then a FIN", c.id(), String::from_utf8_lossy(&got), end));
                        }
                    }
                    other => out.viol("C08:rx:stream-opened-during-fin-disturbed", format!("open_stream racing the FIN: {:?}", other.map(|r| r.map(|o| o.is_some()).map_err(|e| e.to_string())))),
                }
            }
            // the other direction of the finished stream still works
            match within(sess.write_data_frame(id, Bytes::from_static(b"probe-after-fin"))).await {
                Some(Ok(())) => {
                    let (frames, _) = parse_all(&wire.written());
                    if !frames.iter().any(|f| f.cmd == PSH && f.id == id && f.data == b"probe-after-fin") {
                        out.viol("C08:rx:other-direction-broken", "a chunk written after the peer's FIN did not reach the transport");
                    }
                }
                other => out.viol("C08:rx:other-direction-broken", format!("write after the peer's FIN: {:?}", other.map(|r| r.map_err(|e| e.to_string())))),
            }
            // ... also through the forwarding task (the path handlers and the relay loops use)
            if s1.send_data(Bytes::from_static(b"forwarded-after-fin")).is_err() {
                out.viol("C08:rx:other-direction-broken", "send_data after the peer's FIN failed");
            } else {
                settle().await;
                tokio::time::sleep(Duration::from_millis(50)).await;
                let (frames, _) = parse_all(&wire.written());
                if !frames.iter().any(|f| f.cmd == PSH && f.id == id && f.data == b"forwarded-after-fin") {
                    out.viol("C08:rx:other-direction-broken", "a chunk handed to the forwarding task after the peer's FIN did not reach the transport");
                }
            }
            // no state retained for the finished stream
            let ids = sess.verif_stream_ids().await;
            if ids.contains(&id) {
                out.viol("C08:rx:tables-retain-finished-stream", format!("session tables still contain stream {id} after its FIN: {:?}", ids));
            }
            if sess.is_closed() {
                out.viol("C08:rx:session-died", "session closed");
            }
            drop(peer);
            out
        }
    })
}

pub fn rx_json(p: &RxParams) -> serde_json::Value {
    json!({"part": "receive-side", "role": if p.client_role {"client"} else {"server"}, "frames": p.frames, "mode": format!("{:?}", p.mode), "read_buf": p.read_buf, "sibling": p.sibling, "read_menu": p.read_menu, "opening_sibling": p.opening_sibling, "closing": p.closing})
}

pub fn items(tier: Tier) -> Vec<DxItem> {
    let thorough = tier.is_thorough();
    let mut v = vec![];
    for client_role in [true, false] {
        for frames in 0..=3usize {
            for mode in [ReaderMode::Blocked, ReaderMode::Later, ReaderMode::Partial] {
                for read_buf in [0usize, 1, 7, 10, 11, 8192] {
                    for sibling in [false, true] {
                        if !thorough && sibling && read_buf != 7 {
                            continue;
                        }
                        for read_menu in [false, true] {
                            if read_menu && (read_buf != 7 || frames == 0) {
                                continue;
                            }
                            let deep = read_menu || (mode == ReaderMode::Blocked && read_buf == 7);
                            let bound = if !deep {
                                0
                            } else if thorough {
                                3
                            } else if frames == 2 && !sibling {
                                2
                            } else {
                                1
                            };
                            let p = RxParams { client_role, frames, mode, read_buf, sibling, read_menu, opening_sibling: false, closing: false };
                            let mut it = DxItem::new(rx_json(&p), make_rx(p.clone()), bound);
                            if bound > 0 {
                                it.exec.long_yield = 3;
                                it.exec.quiesce = true;
                            }
                            v.push(it);
                            // the same with another task closing the session while the FIN is handled
                            if read_buf == 7 && !read_menu && mode != ReaderMode::Partial && frames <= 2 {
                                let mut p3 = p.clone();
                                p3.closing = true;
                                let mut it = DxItem::new(rx_json(&p3), make_rx(p3), if thorough { 3 } else { 2 });
                                it.exec.long_yield = 3;
                                it.exec.quiesce = true;
                                v.push(it);
                            }
                            // the same with a stream being opened by another task while the FIN is handled
                            if client_role && read_buf == 7 && !read_menu && !sibling && mode != ReaderMode::Partial && frames <= 1 {
                                let mut p2 = p;
                                p2.opening_sibling = true;
                                let mut it = DxItem::new(rx_json(&p2), make_rx(p2), if thorough { 2 } else { 1 });
                                it.exec.long_yield = 3;
                                it.exec.quiesce = true;
                                v.push(it);
                            }
                        }
                    }
                }
            }
        }
    }
    v
}

// ---------------------------------------------------------------- part 2: target closes (SEMI)

#[derive(Clone, Debug)]
struct SemiCase {
    bytes: usize,
    half: bool,
}

async fn semi_case(c: SemiCase) -> Vec<(String, String)> {
    let mut v = vec![];
    let greeting = pat_vec(9, 1, 0, c.bytes);
    let target = start_target("127.0.0.1", if c.half { TargetMode::SendAndHalfClose } else { TargetMode::SendAndClose }, greeting.clone()).await;
    let mut pair = match linked_pair(PipeCfg::new("c2s"), PipeCfg::new("s2c"), STOP0, STOP0, None).await {
        Ok(p) => p,
        Err(e) => return vec![("harness:start".into(), format!("{e}"))],
    };
    let server = pair.server.clone();
    let handler_tasks = Arc::new(std::sync::Mutex::new(vec![]));
    let ht = handler_tasks.clone();
    tokio::spawn(async move {
        while let Some(st) = pair.accepted.recv().await {
            let s = server.clone();
            ht.lock().unwrap().push(tokio::spawn(async move {
                let _ = TcpProxyHandler::new().handle_stream(st, s).await;
            }));
        }
    });
    // the application side, as socks5.rs drives the session
    let (st, rx) = match pair.client.open_stream().await {
        Ok(x) => x,
        Err(e) => return vec![("harness:open".into(), format!("{e}"))],
    };
    pair.client.disable_buffering();
    let mut dest = vec![1u8, 127, 0, 0, 1];
    dest.extend_from_slice(&target.addr.port().to_be_bytes());
    let _ = pair.client.write_data_frame(st.id(), Bytes::from(dest)).await;
    if !matches!(real_timeout(3000, rx).await, Some(Ok(Ok(())))) {
        return vec![("C08:semi:open-failed".into(), format!("{c:?}: stream to the target was not acknowledged"))];
    }
    // read what the target sent; EOF must follow
    let reader = st.reader().clone();
    let mut got = vec![];
    let mut eof = false;
    let mut buf = vec![0u8; 65536];
    loop {
        let r = {
            let mut g = reader.lock().await;
            tokio::time::timeout(Duration::from_millis(if got.len() >= c.bytes { 3000 } else { 5000 }), g.read(&mut buf)).await
        };
        match r {
            Err(_) => break,
            Ok(Ok(0)) | Ok(Err(_)) => {
                eof = true;
                break;
            }
            Ok(Ok(n)) => got.extend_from_slice(&buf[..n]),
        }
    }
    if got != greeting {
        let k = if eof && got.len() < greeting.len() { "C08:semi:eof-before-all-data" } else { "C08:semi:data-lost" };
        v.push((k.into(), format!("{c:?}: application read {} of the {} bytes the target sent (eof={eof})", got.len(), greeting.len())));
    }
    if !eof {
        v.push(("C08:target-close-not-propagated@handler.rs".into(), format!("{c:?}: the target sent {} bytes and closed its sending side; the application's reader got the bytes but no end-of-stream within 3 s", c.bytes)));
    }
    if c.half {
        // the other direction keeps working after the target's half-close
        let _ = pair.client.write_data_frame(st.id(), Bytes::from_static(b"still-flowing")).await;
        let seen = target.wait(0, 2000, |t| t.received == b"still-flowing").await;
        if seen.map(|t| t.received) != Some(b"still-flowing".to_vec()) {
            v.push(("C08:semi:other-direction-broken".into(), format!("{c:?}: data sent to a half-closed target did not arrive")));
        }
    }
    // both directions ended? (the application has nothing more to send: it would end its direction now)
    drop(st);
    tokio::time::sleep(Duration::from_millis(200)).await;
    let cids = pair.client.verif_stream_ids().await;
    let sids = pair.server.verif_stream_ids().await;
    let alive = handler_tasks.lock().unwrap().iter().filter(|h| !h.is_finished()).count();
    if !c.half && (!cids.is_empty() || !sids.is_empty() || alive > 0) {
        v.push(("C08:tables-retain-finished-stream".into(), format!("{c:?}: after the target closed (and the application dropped the stream) client tables {:?}, server tables {:?}, {} handler task(s) still alive", cids, sids, alive)));
    }
    let _ = pair.client.close().await;
    let _ = pair.server.close().await;
    v
}

/// The application's direction ends first (a FIN frame for the stream, as a conforming peer sends it) while the target is
/// still answering in several parts: the target -> application direction keeps working until the target closes.
async fn semi_fin_first_case(bytes: usize) -> Vec<(String, String)> {
    let mut v = vec![];
    let c = format!("FinFirst {{ bytes: {bytes} }}");
    let greeting = pat_vec(9, 2, 0, bytes);
    let target = start_target("127.0.0.1", TargetMode::DripReply, greeting.clone()).await;
    let mut pair = match linked_pair(PipeCfg::new("c2s"), PipeCfg::new("s2c"), STOP0, STOP0, None).await {
        Ok(p) => p,
        Err(e) => return vec![("harness:start".into(), format!("{e}"))],
    };
    let server = pair.server.clone();
    tokio::spawn(async move {
        while let Some(st) = pair.accepted.recv().await {
            let s = server.clone();
            tokio::spawn(async move {
                let _ = TcpProxyHandler::new().handle_stream(st, s).await;
            });
        }
    });
    let (st, rx) = match pair.client.open_stream().await {
        Ok(x) => x,
        Err(e) => return vec![("harness:open".into(), format!("{e}"))],
    };
    pair.client.disable_buffering();
    let mut dest = vec![1u8, 127, 0, 0, 1];
    dest.extend_from_slice(&target.addr.port().to_be_bytes());
    let _ = pair.client.write_data_frame(st.id(), Bytes::from(dest)).await;
    if !matches!(real_timeout(3000, rx).await, Some(Ok(Ok(())))) {
        return vec![("C08:semi:open-failed".into(), format!("{c}: stream to the target was not acknowledged"))];
    }
    let _ = pair.client.write_data_frame(st.id(), Bytes::from_static(b"ping")).await;
    let reader = st.reader().clone();
    let mut got = vec![];
    let mut eof = false;
    let mut fin_sent = false;
    let mut buf = vec![0u8; 65536];
    loop {
        let r = {
            let mut g = reader.lock().await;
            tokio::time::timeout(Duration::from_millis(3000), g.read(&mut buf)).await
        };
        match r {
            Err(_) => break,
            Ok(Ok(0)) | Ok(Err(_)) => {
                eof = true;
                break;
            }
            Ok(Ok(n)) => got.extend_from_slice(&buf[..n]),
        }
        if !fin_sent {
            // the first part of the answer is here: the application's own direction ends now
            fin_sent = true;
            let _ = pair.client.write_control_frame(anytls_rs::protocol::Frame::control(anytls_rs::protocol::Command::Fin, st.id())).await;
        }
    }
    if got != greeting {
        v.push(("C08:semi:other-direction-cut-by-fin".into(), format!("{c}: the application ended its direction after the first part of the answer and then read {} of the {} bytes the target sent (eof={eof})", got.len(), greeting.len())));
    } else if !eof {
        v.push(("C08:target-close-not-propagated@handler.rs".into(), format!("{c}: all {} bytes arrived after the application's FIN but no end-of-stream within 3 s of the target's close", greeting.len())));
    }
    drop(target);
    let _ = pair.client.close().await;
    let _ = pair.server.close().await;
    v
}

// ---------------------------------------------------------------- part 3: application closes (LX)

#[derive(Clone, Debug)]
struct LxCase {
    front: &'static str,
    bytes: usize,
    half: bool,
}

async fn http_connect(proxy: std::net::SocketAddr, dest: std::net::SocketAddr) -> Result<tokio::net::TcpStream, String> {
    let mut s = tokio::net::TcpStream::connect(proxy).await.map_err(|e| e.to_string())?;
    let _ = s.set_nodelay(true);
    let req = format!("CONNECT {dest} HTTP/1.1\r\nHost: {dest}\r\n\r\n");
    s.write_all(req.as_bytes()).await.map_err(|e| e.to_string())?;
    let mut acc = vec![];
    let mut b = [0u8; 1];
    while !acc.ends_with(b"\r\n\r\n") {
        match tokio::time::timeout(Duration::from_secs(5), s.read(&mut b)).await {
            Ok(Ok(1)) => acc.push(b[0]),
            _ => return Err(format!("no CONNECT reply: {:?}", String::from_utf8_lossy(&acc))),
        }
    }
    if !acc.starts_with(b"HTTP/1.1 200") {
        return Err(format!("CONNECT reply {:?}", String::from_utf8_lossy(&acc)));
    }
    Ok(s)
}

async fn lx_case(lx: &Lx, c: LxCase) -> Vec<(String, String)> {
    let mut v = vec![];
    let target = start_target("127.0.0.1", TargetMode::Echo, vec![]).await;
    let conn = if c.front == "socks5" { socks5_connect(lx.socks.unwrap(), target.addr).await } else { http_connect(lx.http.unwrap(), target.addr).await };
    let mut s = match conn {
        Ok(s) => s,
        Err(e) => return vec![("C08:lx:connect-failed".into(), format!("{c:?}: {e}"))],
    };
    let data = pat_vec(4, 0, 0, c.bytes);
    if s.write_all(&data).await.is_err() {
        return vec![("C08:lx:write-failed".into(), format!("{c:?}"))];
    }
    let site = if c.front == "socks5" { "socks5.rs" } else { "http_proxy.rs" };
    if c.half {
        let _ = s.shutdown().await;
        // the echo still reaches the half-closed application
        let mut back = vec![];
        let mut buf = vec![0u8; 65536];
        while back.len() < data.len() {
            match tokio::time::timeout(Duration::from_secs(3), s.read(&mut buf)).await {
                Ok(Ok(n)) if n > 0 => back.extend_from_slice(&buf[..n]),
                _ => break,
            }
        }
        if back != data {
            v.push(("C08:lx:reply-after-half-close-lost".into(), format!("{c:?}: echoed {} of {} bytes reached the half-closed application", back.len(), data.len())));
        }
    } else {
        drop(s);
    }
    let t = target.wait(0, 3000, |t| t.eof).await;
    match t {
        None => v.push(("C08:lx:target-not-reached".into(), format!("{c:?}"))),
        Some(t) => {
            if t.received != data {
                v.push(("C08:lx:data-lost".into(), format!("{c:?}: target received {} of {} bytes", t.received.len(), data.len())));
            }
            if !t.eof {
                v.push((format!("C08:app-close-not-propagated@{site}"), format!("{c:?}: the application sent {} bytes and {} its connection; the target got the bytes but no end-of-stream within 3 s", c.bytes, if c.half { "half-closed" } else { "closed" })));
            }
        }
    }
    v
}

pub fn run(tier: Tier) -> i32 {
    let mut rep = Report::new("C08", tier, "model_checking");
    let thorough = tier.is_thorough();
    rep.assumptions = vec![
        "receive side: scripted peer; FIN = the protocol's end-of-stream frame".into(),
        "propagation (SEMI/LX): real loopback sockets, real time; 'never observes end-of-stream' is concluded after 3 s without it (three orders of magnitude above loopback latency)".into(),
    ];
    let cap = Duration::from_secs(if thorough { 900 } else { 40 });
    run_items(&mut rep, "C08", tier, items(tier), DxOpts { time_cap: cap, det_replays: 2, max_violations: 2, vacuity_check: false });
    // SEMI + LX in real time, concurrently
    let sizes: Vec<usize> = if thorough { vec![0, 1, 8192, 8193, 100_000] } else { vec![0, 1, 8193] };
    let mut semi_cases = vec![];
    for b in &sizes {
        for half in [false, true] {
            semi_cases.push(SemiCase { bytes: *b, half });
        }
    }
    let mut lx_cases = vec![];
    for front in ["socks5", "http-connect"] {
        for b in if thorough { vec![0usize, 1, 8192, 100_000] } else { vec![0usize, 1, 8192] } {
            for half in [true, false] {
                lx_cases.push(LxCase { front, bytes: b, half });
            }
        }
    }
    let rt = rt_multi();
    let fin_sizes: Vec<usize> = if thorough { vec![3, 9, 30_000, 100_000] } else { vec![3, 9, 30_000] };
    let fin_sizes2 = fin_sizes.clone();
    let (semi_res, lx_res, fin_res) = rt.block_on(async {
        let mut fhs = vec![];
        for b in fin_sizes2 {
            fhs.push(tokio::spawn(semi_fin_first_case(b)));
        }
        let mut hs = vec![];
        for c in semi_cases.clone() {
            hs.push(tokio::spawn(semi_case(c)));
        }
        let lx = start_lx("pw", "pw", pool_cfg(3600, 3600, 1), true, true).await;
        let mut lxr = vec![];
        match lx {
            Err(e) => lxr.push(Err(e)),
            Ok(lx) => {
                let lx = Arc::new(lx);
                let mut hs2 = vec![];
                for c in lx_cases.clone() {
                    let lx = lx.clone();
                    hs2.push(tokio::spawn(async move { lx_case(&lx, c).await }));
                }
                for h in hs2 {
                    lxr.push(h.await.map_err(|e| e.to_string()));
                }
            }
        }
        let mut sr = vec![];
        for h in hs {
            sr.push(h.await.map_err(|e| e.to_string()));
        }
        let mut fr = vec![];
        for h in fhs {
            fr.push(h.await.map_err(|e| e.to_string()));
        }
        (sr, lxr, fr)
    });
    drop(rt);
    for (b, r) in fin_sizes.iter().zip(fin_res) {
        rep.case(Some(&format!("semi fin-first {b}")));
        rep.traces_validated += 1;
        match r {
            Err(e) => rep.violation("panic:task", &format!("fin-first {b}: {e}"), json!({"engine": "SEMI"})),
            Ok(v) => {
                for (k, d) in v {
                    rep.violation(&k, &d, json!({"engine": "SEMI", "case": format!("fin-first {b}")}));
                }
            }
        }
    }
    for (c, r) in semi_cases.iter().zip(semi_res) {
        rep.case(Some(&format!("semi {c:?}")));
        rep.traces_validated += 1;
        match r {
            Err(e) => rep.violation("panic:task", &format!("{c:?}: {e}"), json!({"engine": "SEMI"})),
            Ok(v) => {
                for (k, d) in v {
                    rep.violation(&k, &d, json!({"engine": "SEMI", "case": format!("{c:?}")}));
                }
            }
        }
    }
    if lx_res.len() == 1 && lx_res[0].is_err() && lx_cases.len() != 1 {
        rep.machinery(format!("LX start failed: {:?}", lx_res[0]));
    } else {
        for (c, r) in lx_cases.iter().zip(lx_res) {
            rep.case(Some(&format!("lx {c:?}")));
            rep.traces_validated += 1;
            match r {
                Err(e) => rep.violation("panic:task", &format!("{c:?}: {e}"), json!({"engine": "LX"})),
                Ok(v) => {
                    for (k, d) in v {
                        rep.violation(&k, &d, json!({"engine": "LX", "case": format!("{c:?}")}));
                    }
                }
            }
        }
    }
    rep.sections.insert("propagation_cases".into(), json!({"semi_target_closes": semi_cases.len(), "semi_application_fin_first": fin_sizes.len(), "lx_application_closes": lx_cases.len()}));
    rep.finish("DX receive side: {client, server role} x {0..3 data frames before the FIN} x {reader blocked / arriving later / with a partly consumed chunk} x read-buffer sizes x sibling stream, with short reads straddling the FIN header and <= B scheduling deviations; SEMI: target sends M bytes and closes / half-closes behind the real TcpProxyHandler, and the application's FIN frame arrives after the first of three parts of the target's answer (the rest must still arrive, then end-of-stream); LX: application sends N bytes and closes / half-closes through the real SOCKS5 and HTTP CONNECT front-ends; non-trivial = distinct trace with >= 1 deviation / distinct propagation case")
}

pub fn replay(file: &str) -> i32 {
    crate::dxrun::replay(file, items)
}
