//! C04 (padding is invisible and keeps the wire well-formed) and
//! C05 (early client packets are shaped as the scheme prescribes).

use crate::ctl::{DrawPolicy, ExecCfg, Outcome, ScenarioFn, hpoint, run_exec, scenario};
use crate::dxrun::{DxItem, DxOpts, run_items};
use crate::par::par_map;
use crate::refmodel::*;
use crate::report::{Report, Tier};
use crate::sess::*;
use crate::vpipe::{Ev, Pipe, PipeCfg};
use anytls_rs::padding::PaddingFactory;
use anytls_rs::session::Session;
use bytes::Bytes;
use serde_json::json;
use std::sync::{Arc, Mutex};
use std::time::Duration;

/// flush-delimited batches: (write lengths, concatenated bytes)
pub fn batches(p: &Pipe) -> Vec<(Vec<usize>, Vec<u8>)> {
    let mut out = vec![];
    let mut cur: (Vec<usize>, Vec<u8>) = (vec![], vec![]);
    for e in p.log() {
        match e {
            Ev::Write { data, .. } => {
                cur.0.push(data.len());
                cur.1.extend_from_slice(&data);
            }
            Ev::Flush { .. } => {
                if !cur.0.is_empty() {
                    out.push(std::mem::take(&mut cur));
                }
            }
            _ => {}
        }
    }
    if !cur.0.is_empty() {
        out.push(cur);
    }
    out
}

#[derive(Clone, Debug)]
pub struct PadCase {
    pub scheme: String,
    pub draw: DrawPolicy,
    /// payload sizes of the data frames written after the first (real) batch; 0 = skip first batch
    pub payloads: Vec<usize>,
    /// start the session the way client.rs does (Settings + SYN + destination as first batch)
    pub real_first_batch: bool,
    pub server_role: bool,
    /// with `real_first_batch`: false = no destination frame; the first payload of the list is the frame that
    /// flushes the buffered Settings + SYN (so its size varies)
    pub dest_first: bool,
    /// control operations performed before the payload with the given index (or after the last one):
    /// 1 = keep-alive request written by another part of the session, 2 = a second stream is opened (SYN),
    /// 3 = an over-long frame the encoder refuses, 4 = the peer sends a keep-alive request (the session answers)
    pub ctl: Vec<(usize, u8)>,
}

#[derive(Clone, Debug, Default)]
pub struct PadResult {
    pub batches: Vec<(Vec<usize>, Vec<u8>)>,
    pub submitted: Vec<RFrame>,
    pub errors: Vec<String>,
    pub panicked: bool,
}

fn pad_scenario(case: PadCase, slot: Arc<Mutex<Option<PadResult>>>) -> ScenarioFn {
    scenario(move || {
        let case = case.clone();
        let slot = slot.clone();
        async move {
            let mut res = PadResult::default();
            let link = peer_link(PipeCfg::new("in"), PipeCfg::new("out"));
            let wire = link.peer.out.clone();
            let factory = match PaddingFactory::new(case.scheme.as_bytes()) {
                Ok(f) => Arc::new(f),
                Err(_) => {
                    // not an accepted scheme: nothing to check
                    *slot.lock().unwrap() = None;
                    return Outcome::default();
                }
            };
            let sess: Arc<Session> = if case.server_role {
                Arc::new(Session::new_server(link.sess_r, link.sess_w, factory))
            } else {
                Arc::new(Session::new_client(link.sess_r, link.sess_w, factory, None))
            };
            let peer = link.peer;
            let inj = peer.inj.clone();
            tokio::spawn(peer.sink());
            let mut sid = 1u32;
            if case.real_first_batch && !case.server_role {
                if let Err(e) = sess.clone().start_client().await {
                    res.errors.push(format!("start_client: {e}"));
                }
                match sess.open_stream().await {
                    Ok((st, _rx)) => {
                        sid = st.id();
                        sess.disable_buffering();
                        // what was submitted: settings (parsed from the wire later), SYN, PSH
                        res.submitted.push(RFrame::new(SETTINGS, 0, b"?"));
                        res.submitted.push(RFrame::new(SYN, sid, b""));
                        if case.dest_first {
                            let dest = vec![3u8, 11, b'e', b'x', b'a', b'm', b'p', b'l', b'e', b'.', b'c', b'o', b'm', 1, 187];
                            if let Err(e) = sess.write_data_frame(sid, Bytes::from(dest.clone())).await {
                                res.errors.push(format!("first batch: {e}"));
                            }
                            res.submitted.push(RFrame::new(PSH, sid, &dest));
                        }
                    }
                    Err(e) => res.errors.push(format!("open_stream: {e}")),
                }
            }
            let mut second: Option<Arc<anytls_rs::session::Stream>> = None;
            for i in 0..=case.payloads.len() {
                for (_, op) in case.ctl.iter().filter(|(at, _)| *at == i) {
                    use anytls_rs::protocol::{Command, Frame};
                    match op {
                        1 => match sess.write_control_frame(Frame::control(Command::HeartRequest, 0)).await {
                            Ok(()) => res.submitted.push(RFrame::new(HEART_REQ, 0, b"")),
                            Err(e) => res.errors.push(format!("keep-alive request: {e}")),
                        },
                        2 => match sess.open_stream().await {
                            Ok((st, _rx)) => {
                                res.submitted.push(RFrame::new(SYN, st.id(), b""));
                                second = Some(st);
                            }
                            Err(e) => res.errors.push(format!("second open_stream: {e}")),
                        },
                        3 => {
                            // refused by the encoder: never reaches the wire, is not a packet
                            let big = Bytes::from(vec![0x55u8; 70_000]);
                            if sess.write_frame(Frame::with_data(Command::Settings, 0, big)).await.is_ok() {
                                res.errors.push("a control frame with a 70 000-byte payload was accepted".into());
                            }
                        }
                        _ => {
                            inj.push(&enc(HEART_REQ, 9, b""));
                            crate::ctl::settle().await;
                            tokio::time::sleep(Duration::from_millis(5)).await;
                            res.submitted.push(RFrame::new(HEART_RESP, 9, b""));
                        }
                    }
                }
                if i == case.payloads.len() {
                    break;
                }
                let n = &case.payloads[i];
                let data = pat_vec(3, 0, i * 7, *n);
                match tokio::time::timeout(Duration::from_secs(3600), sess.write_data_frame(sid, Bytes::from(data.clone()))).await {
                    Ok(Ok(())) => {
                        for ch in data.chunks(65535) {
                            res.submitted.push(RFrame::new(PSH, sid, ch));
                        }
                        if data.is_empty() {
                            res.submitted.push(RFrame::new(PSH, sid, b""));
                        }
                    }
                    Ok(Err(e)) => res.errors.push(format!("write #{i} ({n} bytes): {e}")),
                    Err(_) => res.errors.push(format!("write #{i} ({n} bytes): blocked forever")),
                }
            }
            drop(second);
            res.batches = batches(&wire);
            *slot.lock().unwrap() = Some(res);
            Outcome::default()
        }
    })
}

pub fn run_pad_case(case: &PadCase) -> Option<PadResult> {
    let slot = Arc::new(Mutex::new(None));
    let sc = pad_scenario(case.clone(), slot.clone());
    let mut cfg = ExecCfg::default();
    cfg.draw = case.draw;
    let rec = run_exec(&sc, &cfg, &[], 0);
    let mut r = slot.lock().unwrap().take();
    if !rec.outcome.violations.is_empty() {
        // panic inside the scenario or a task
        let mut pr = r.take().unwrap_or_default();
        pr.panicked = true;
        pr.errors.push(format!("{:?}", rec.outcome.violations.iter().map(|v| format!("{}: {}", v.key, v.detail)).collect::<Vec<_>>()));
        return Some(pr);
    }
    r
}

/// C04 oracle on one result.
fn c04_oracle(case: &PadCase, r: &PadResult) -> Vec<(String, String)> {
    let mut v = vec![];
    if r.panicked {
        v.push(("C04:sender-crashed".into(), format!("{:?}", r.errors)));
        return v;
    }
    if !r.errors.is_empty() {
        v.push(("C04:sender-failed".into(), format!("write failed on a healthy transport: {:?}", r.errors)));
    }
    let all: Vec<u8> = r.batches.iter().flat_map(|b| b.1.clone()).collect();
    let (frames, left) = parse_all(&all);
    if left != 0 {
        v.push(("C04:wire-not-whole-frames".into(), format!("{left} trailing bytes that are not a complete frame (wire {} bytes)", all.len())));
    }
    let real: Vec<RFrame> = frames.into_iter().filter(|f| f.cmd != WASTE).collect();
    // compare with submitted (settings payload is taken from the wire)
    let mut want = r.submitted.clone();
    if let (Some(w), Some(g)) = (want.first_mut(), real.first()) {
        if w.cmd == SETTINGS && g.cmd == SETTINGS {
            w.data = g.data.clone();
        }
    }
    if r.errors.is_empty() && real != want {
        let k = if real.len() < want.len() { "C04:payload-dropped-or-truncated" } else { "C04:payload-altered" };
        v.push((k.into(), format!("after deleting padding frames the wire has [{}], submitted [{}]", fmt_frames(&real), fmt_frames(&want))));
    }
    let _ = case;
    v
}

const ENTRIES: [&str; 16] = [
    "c", "1-1", "6-6", "7-7", "8-8", "30-30", "100-400", "400-100", "65528-65528", "65535-65535", "65536-65536", "65543-65543", "70000-70000", "0-5", "-3-4", "x-9",
];

fn lines(max_entries: usize) -> Vec<String> {
    let mut out: Vec<String> = vec![];
    let mut frontier: Vec<Vec<&str>> = vec![vec![]];
    for _ in 0..max_entries {
        let mut next = vec![];
        for l in &frontier {
            for e in ENTRIES {
                let mut n = l.clone();
                n.push(e);
                next.push(n);
            }
        }
        for l in &next {
            out.push(l.join(","));
        }
        frontier = next;
    }
    out
}

/// Longer lines (3..=max entries) over a reduced entry alphabet: several payload-only, padding-only and
/// check-mark records in ONE packet (the full alphabet stops at 2 (3) entries per line).
fn long_lines(max_entries: usize) -> Vec<String> {
    const E: [&str; 5] = ["c", "7-7", "8-8", "30-30", "100-400"];
    let mut out: Vec<String> = vec![];
    let mut frontier: Vec<Vec<&str>> = vec![vec![]];
    for n in 1..=max_entries {
        let mut next = vec![];
        for l in &frontier {
            for e in E {
                let mut x = l.clone();
                x.push(e);
                next.push(x);
            }
        }
        if n >= 3 {
            for l in &next {
                out.push(l.join(","));
            }
        }
        frontier = next;
    }
    out
}

/// The frame that flushes the buffered Settings + SYN of a new client session has every interesting size
/// (client.rs always sends the small destination frame first; the session API does not require that).
fn first_flush_cases() -> Vec<PadCase> {
    let mut cases = vec![];
    for line in ["", "30-30", "100-400,c,65535-65535", "7-7,8-8", "400-400,c,30000-30000"] {
        for first in [0usize, 1, 493, 8192, 16377, 16378, 16384, 32768, 65528, 65535, 65536, 70000] {
            let scheme = if line.is_empty() { "stop=0".to_string() } else { scheme_text(3, line, None) };
            cases.push(PadCase { scheme, draw: DrawPolicy::Max, payloads: vec![first, 5, 40], real_first_batch: true, server_role: false, dest_first: false, ctl: vec![] });
        }
    }
    cases
}

/// Packets that are not data frames: keep-alive requests and answers, the SYN of a second stream, a refused frame —
/// at every position among four data packets, singly and in pairs, under schemes whose lines all differ (a packet
/// counter that skips or repeats an index shows as a wrong shape) and whose stop falls inside the sequence.
fn mixed_packet_cases(thorough: bool) -> Vec<PadCase> {
    const DISTINCT: &str = "stop=9\n1=20-20,50-50\n2=70-70\n3=100-100,c,31-31\n4=33-33\n5=9-9,c,200-200\n6=41-41\n7=300-300,c,64-64\n8=15-15";
    const STOP4: &str = "stop=4\n1=20-20,50-50\n2=70-70\n3=100-100,c,31-31\n4=33-33\n5=9-9,c,200-200";
    const STOP6: &str = "stop=6\n1=400-400\n2=8-8,8-8,8-8\n3=c,90-90\n4=33-33\n5=9-9,c,200-200\n6=77-77";
    let mut cases = vec![];
    let mut ops: Vec<(usize, u8)> = vec![];
    for at in 0..=4usize {
        for op in 1..=4u8 {
            ops.push((at, op));
        }
    }
    let mut ctls: Vec<Vec<(usize, u8)>> = ops.iter().map(|o| vec![*o]).collect();
    for a in 0..ops.len() {
        for b in a..ops.len() {
            if ops[a].0 <= ops[b].0 && (thorough || (ops[a].1 != 3 || ops[b].1 != 3)) {
                ctls.push(vec![ops[a], ops[b]]);
            }
        }
    }
    for scheme in [DISTINCT, STOP4, STOP6] {
        for ctl in &ctls {
            // op 4 needs the receive loop (real first batch); op 2 needs start_client too
            cases.push(PadCase { scheme: scheme.to_string(), draw: DrawPolicy::Min, payloads: vec![5, 40, 300, 23], real_first_batch: true, server_role: false, dest_first: true, ctl: ctl.clone() });
        }
    }
    cases
}

fn long_line_cases(thorough: bool) -> Vec<PadCase> {
    let mut cases = vec![];
    for line in long_lines(if thorough { 5 } else { 4 }) {
        let draws: Vec<DrawPolicy> = if line.contains("100-400") { vec![DrawPolicy::Min, DrawPolicy::Alternate] } else { vec![DrawPolicy::Min] };
        for draw in draws {
            for p in [0usize, 1, 23, 31, 100, 493] {
                cases.push(PadCase { scheme: scheme_text(3, &line, None), draw, payloads: vec![p; 3], real_first_batch: false, server_role: false, dest_first: true, ctl: vec![] });
            }
            cases.push(PadCase { scheme: scheme_text(3, &line, None), draw, payloads: vec![5, 300, 0], real_first_batch: true, server_role: false, dest_first: true, ctl: vec![] });
        }
    }
    cases
}

fn scheme_text(stop: u32, line: &str, only: Option<u32>) -> String {
    let mut s = format!("stop={stop}");
    let upto = stop.max(1) + 1;
    for k in 0..upto {
        if only.is_none() || only == Some(k) {
            s.push_str(&format!("\n{k}={line}"));
        }
    }
    s
}

pub fn run_c04(tier: Tier) -> i32 {
    let mut rep = Report::new("C04", tier, "exploration");
    let thorough = tier.is_thorough();
    rep.assumptions = vec![
        "scheme language = the generated grammar (covers every branch of the parser: c, ranges, reversed, <= 0, non-numeric, > 65535); all lines of a scheme use the same entry list unless 'only line k' is stated".into(),
        "healthy transport (writes never fail)".into(),
    ];
    let ls = lines(if thorough { 3 } else { 2 });
    let payloads: Vec<usize> = vec![0, 1, 22, 23, 24, 30, 31, 100, 493, 65535];
    let mut cases: Vec<PadCase> = vec![];
    for line in &ls {
        for stop in [0u32, 1, 2, 3, 9] {
            for draw in [DrawPolicy::Min, DrawPolicy::Max, DrawPolicy::MinPlus1] {
                if draw != DrawPolicy::Min && !line.contains("100-400") && !line.contains("400-100") && !line.contains("0-5") {
                    continue; // draw policy is irrelevant without a proper range
                }
                if stop == 9 && !thorough && line.matches(',').count() >= 1 {
                    continue;
                }
                let n = (stop.min(3) + 2) as usize;
                // one session per payload size (same size for every packet), plus one mixed session
                for p in &payloads {
                    if *p == 65535 && !thorough && line.matches(',').count() >= 1 && stop != 2 {
                        continue;
                    }
                    cases.push(PadCase { scheme: scheme_text(stop, line, None), draw, payloads: vec![*p; n], real_first_batch: false, server_role: false, dest_first: true, ctl: vec![] });
                }
                cases.push(PadCase { scheme: scheme_text(stop, line, None), draw, payloads: vec![5, 300, 0, 40], real_first_batch: true, server_role: false, dest_first: true, ctl: vec![] });
                if stop >= 2 {
                    cases.push(PadCase { scheme: scheme_text(stop, line, Some(2)), draw, payloads: vec![10, 10, 10, 10], real_first_batch: false, server_role: false, dest_first: true, ctl: vec![] });
                }
            }
        }
    }
    cases.extend(long_line_cases(thorough));
    cases.extend(first_flush_cases());
    cases.extend(mixed_packet_cases(thorough));
    // over-long chunk (several frames in one call) under padding
    for line in ["30-30", "100-400,c,65535-65535", "7-7,8-8"] {
        cases.push(PadCase { scheme: scheme_text(3, line, None), draw: DrawPolicy::Max, payloads: vec![70000, 131072], real_first_batch: true, server_role: false, dest_first: true, ctl: vec![] });
    }
    // server role never pads
    for line in ["30-30", "100-400"] {
        cases.push(PadCase { scheme: scheme_text(3, line, None), draw: DrawPolicy::Max, payloads: vec![5, 50, 500], real_first_batch: false, server_role: true, dest_first: true, ctl: vec![] });
    }
    let n_cases = cases.len();
    let cases = Arc::new(cases);
    let c2 = cases.clone();
    let results: Vec<(bool, Vec<(String, String)>, usize)> = par_map(n_cases, 16, move |i| {
        let case = &c2[i];
        match run_pad_case(case) {
            None => (false, vec![], 0),
            Some(r) => {
                let waste = r.batches.iter().map(|b| parse_all(&b.1).0.iter().filter(|f| f.cmd == WASTE).count()).sum::<usize>();
                (true, c04_oracle(case, &r), waste)
            }
        }
    });
    let mut with_padding = 0u64;
    for (i, (accepted, viols, waste)) in results.into_iter().enumerate() {
        let case = &cases[i];
        let key = format!("{}|{:?}|{:?}|{}", case.scheme, case.draw, case.payloads, case.real_first_batch);
        rep.case(if accepted && waste > 0 { Some(&key) } else { None });
        if waste > 0 {
            with_padding += 1;
        }
        if i % 9973 == 11 {
            rep.sample(json!({"scheme": case.scheme, "draw": format!("{:?}", case.draw), "payloads": case.payloads, "real_first_batch": case.real_first_batch, "padding_frames": waste}));
        }
        for (k, d) in viols {
            rep.violation(&k, &format!("scheme {:?} draw {:?} payloads {:?}: {d}", case.scheme, case.draw, case.payloads), json!({"engine": "IX", "scheme": case.scheme, "draw": format!("{:?}", case.draw), "payloads": case.payloads, "real_first_batch": case.real_first_batch}));
        }
    }
    rep.sections.insert("sessions".into(), json!({"total": n_cases, "with_padding_frames": with_padding, "lines": ls.len()}));
    giant_sizes(&mut rep, thorough);
    // one execution at a time: a push replaces the PROCESS-wide default scheme, which the session then adopts
    crate::dxrun::run_items_workers(&mut rep, "C04", tier, c04_items(tier), DxOpts { time_cap: Duration::from_secs(if thorough { 600 } else { 40 }), det_replays: 2, max_violations: 3, vacuity_check: false }, 1);
    rep.finish("IX: every scheme line of <=2 (thorough 3) entries over 16 entry forms x stop in {0,1,2,3,9} x draw policy x 10 payload sizes per packet (+ the real first batch, + 'only line 2', + over-long chunks, + server role, + every line of 3..4 (thorough 5) entries over the reduced alphabet {c, 7, 8, 30, 100-400}); each session's recorded wire is parsed by the reference parser; DX (<= 2 (3) deviations, short / pending writes): a scheme pushed by the peer handled while another task's padded multi-write packet is in progress, for 4 pushed schemes; non-trivial = distinct case in which padding frames were actually emitted")
}

/// sizes >= 2^31 can abort the process on allocation: each case runs in a child process under RLIMIT_AS.
fn giant_sizes(rep: &mut Report, thorough: bool) {
    let exe = crate::det::self_exe();
    let sizes: Vec<&str> = if thorough { vec!["2147483647", "2147483648", "4294967295", "4294967326", "9223372036854775807"] } else { vec!["2147483648", "4294967326"] };
    for size in sizes {
        for form in ["{s}-{s}", "30-30,{s}-{s}", "c,{s}-{s}", "{s}-9999999999", "3000000000-{s}", "1-{s}"] {
            let line = form.replace("{s}", size);
            for payload in if thorough { vec![0usize, 30, 500] } else { vec![0usize, 30] } {
                rep.case(Some(&format!("giant {line} {payload}")));
                let out = std::process::Command::new(&exe)
                    .arg("__padchild")
                    .arg(scheme_text(3, &line, None))
                    .arg(payload.to_string())
                    .output();
                match out {
                    Err(e) => rep.machinery(format!("cannot spawn child: {e}")),
                    Ok(o) => {
                        let text = String::from_utf8_lossy(&o.stdout).to_string();
                        if !o.status.success() || !text.contains("CHILD-OK") {
                            rep.violation(
                                "C04:sender-crashed",
                                &format!("scheme line {line:?} with payload {payload}: child exited with {:?}: {}", o.status.code(), crate::report::truncate(&text, 300)),
                                json!({"engine": "IX-child", "line": line, "payload": payload}),
                            );
                        }
                    }
                }
            }
        }
    }
}

/// entry point of the child process (see giant_sizes)
pub fn pad_child(scheme: &str, payload: usize) -> i32 {
    unsafe {
        let lim = libc::rlimit { rlim_cur: 4 << 30, rlim_max: 4 << 30 };
        libc::setrlimit(libc::RLIMIT_AS, &lim);
    }
    let case = PadCase { scheme: scheme.to_string(), draw: DrawPolicy::Max, payloads: vec![payload; 4], real_first_batch: false, server_role: false, dest_first: true, ctl: vec![] };
    match run_pad_case(&case) {
        None => {
            println!("CHILD-OK (scheme rejected)");
            0
        }
        Some(r) => {
            let v = c04_oracle(&case, &r);
            if v.is_empty() {
                println!("CHILD-OK");
                0
            } else {
                println!("CHILD-VIOLATION {:?}", v);
                1
            }
        }
    }
}

// ---------------------------------------------------------------------------- C05

fn c05_oracle(case: &PadCase, r: &PadResult) -> Vec<(String, String)> {
    let mut v = vec![];
    if r.panicked || !r.errors.is_empty() {
        return v; // C04's business
    }
    let Some(sch) = parse_scheme(&case.scheme) else { return v };
    for (j, (writes, bytes)) in r.batches.iter().enumerate() {
        let k = (j + 1) as u32; // session packets are numbered from 1 (packet 0 is the authentication preamble)
        let (frames, left) = parse_all(bytes);
        if left != 0 {
            return v; // malformed wire is C04's business
        }
        let payload: usize = frames.iter().filter(|f| f.cmd != WASTE).map(|f| 7 + f.data.len()).sum();
        let has_waste = frames.iter().any(|f| f.cmd == WASTE);
        let line: Option<&Vec<Entry>> = sch.lines.get(&k);
        let padded = !case.server_role && k < sch.stop && line.map(|l| !l.is_empty()).unwrap_or(false);
        if !padded {
            if has_waste {
                let why = if case.server_role { "server side" } else if k >= sch.stop { "packet index >= stop" } else { "no line for this packet" };
                v.push(("C05:padding-where-none-allowed".into(), format!("packet {k} ({why}) contains padding frames; writes {:?}", writes)));
            } else if writes.len() != 1 || writes[0] != payload {
                v.push(("C05:unpadded-packet-split".into(), format!("packet {k} must be one write of {payload} bytes, got {:?}", writes)));
            }
            continue;
        }
        if let Err(e) = accept_packet(line.unwrap(), payload, writes) {
            v.push(("C05:shape-not-permitted".into(), format!("packet {k} (payload {payload} bytes, line {:?}): writes {:?}: {e}", line.unwrap(), writes)));
        }
    }
    v
}

const ENTRIES5: [&str; 12] = ["c", "1-1", "6-6", "7-7", "8-8", "30-30", "100-400", "400-100", "65528-65528", "65535-65535", "0-5", "x-9"];

fn lines5(max_entries: usize) -> Vec<String> {
    let mut out: Vec<String> = vec![];
    let mut frontier: Vec<Vec<&str>> = vec![vec![]];
    for _ in 0..max_entries {
        let mut next = vec![];
        for l in &frontier {
            for e in ENTRIES5 {
                let mut n = l.clone();
                n.push(e);
                next.push(n);
            }
        }
        for l in &next {
            out.push(l.join(","));
        }
        frontier = next;
    }
    out
}

fn preamble_check(rep: &mut Report, thorough: bool) {
    use anytls_rs::util::auth::send_authentication;
    let rt = tokio::runtime::Builder::new_current_thread().enable_time().start_paused(true).build().unwrap();
    let mut ls = lines5(if thorough { 3 } else { 2 });
    ls.push(String::new());
    for line in ls {
        for draw in [DrawPolicy::Min, DrawPolicy::Max, DrawPolicy::Alternate] {
            let text = if line.is_empty() { "stop=2\n1=30-30".to_string() } else { format!("stop=2\n0={line}\n1=30-30") };
            let Ok(f) = PaddingFactory::new(text.as_bytes()) else { continue };
            let f = Arc::new(f);
            let sch = parse_scheme(&text).unwrap();
            let l0 = sch.lines.get(&0).cloned().unwrap_or_default();
            let first_range = l0.iter().find_map(|e| if let Entry::Range(a, b) = e { Some((*a, *b)) } else { None });
            let starts_with_check = matches!(l0.first(), Some(Entry::Check));
            rep.case(Some(&format!("preamble {line} {draw:?}")));
            // run with the draw hook on this thread
            let slot: Arc<Mutex<Vec<u8>>> = Arc::new(Mutex::new(vec![]));
            let slot2 = slot.clone();
            let f2 = f.clone();
            let sc = scenario(move || {
                let slot2 = slot2.clone();
                let f2 = f2.clone();
                async move {
                    let mut buf: Vec<u8> = vec![];
                    let hash = [7u8; 32];
                    let r = send_authentication(&mut buf, &hash, &f2).await;
                    let mut o = Outcome::default();
                    if let Err(e) = r {
                        o.viol("C05:preamble-failed", format!("{e}"));
                    }
                    *slot2.lock().unwrap() = buf;
                    o
                }
            });
            let mut cfg = ExecCfg::default();
            cfg.draw = draw;
            let rec = run_exec(&sc, &cfg, &[], 0);
            let _ = &rt;
            for vv in &rec.outcome.violations {
                rep.violation(&vv.key, &format!("line 0 = {line:?}: {}", vv.detail), json!({"engine": "IX", "line0": line}));
            }
            let buf = slot.lock().unwrap().clone();
            if buf.len() < 34 {
                rep.violation("C05:preamble-shape", &format!("line 0 = {line:?}: preamble is only {} bytes", buf.len()), json!({"engine": "IX", "line0": line}));
                continue;
            }
            let s = u16::from_be_bytes([buf[32], buf[33]]) as i64;
            let follows = buf.len() - 34;
            let ok_len = match first_range {
                None => s == 0,
                Some((a, b)) => (s >= a && s <= b) || (starts_with_check && s == 0),
            };
            if buf[..32] != [7u8; 32] || !ok_len || follows as i64 != s {
                rep.violation(
                    "C05:preamble-shape",
                    &format!("line 0 = {line:?} (first range {:?}): declared padding {s}, {follows} bytes follow", first_range),
                    json!({"engine": "IX", "line0": line, "draw": format!("{draw:?}")}),
                );
            }
        }
    }
}

/// DX: concurrent writers on a fresh session; the j-th batch on the wire must be shaped by line j.
pub fn make_c05_dx(n_writers: usize, scheme: &'static str) -> ScenarioFn {
    scenario(move || async move {
        let mut out = Outcome::default();
        let link = peer_link(PipeCfg::new("in"), PipeCfg::new("out"));
        let wire = link.peer.out.clone();
        let sess = Arc::new(Session::new_client(link.sess_r, link.sess_w, padding(scheme), None));
        tokio::spawn(link.peer.sink());
        let mut hs = vec![];
        for t in 0..n_writers {
            let sess = sess.clone();
            hs.push(tokio::spawn(async move {
                hpoint("h.c05.start").await;
                for k in 0..2usize {
                    let _ = within(sess.write_data_frame(t as u32 + 1, Bytes::from(vec![t as u8; 10 + 25 * t + 3 * k]))).await;
                }
            }));
        }
        for h in hs {
            let _ = h.await;
        }
        let case = PadCase { scheme: scheme.to_string(), draw: DrawPolicy::Min, payloads: vec![], real_first_batch: false, server_role: false, dest_first: true, ctl: vec![] };
        let r = PadResult { batches: batches(&wire), submitted: vec![], errors: vec![], panicked: false };
        for (k, d) in c05_oracle(&case, &r) {
            out.viol(k, d);
        }
        out.obs = format!("{:?}", r.batches.iter().map(|b| b.0.clone()).collect::<Vec<_>>());
        out
    })
}

/// every packet line has four entries: payload split, payload + padding, padding-only records
pub const OLD4: &str = "stop=9\n1=7-7,8-8,30-30,9-9\n2=7-7,8-8,30-30,9-9\n3=7-7,8-8,30-30,9-9\n4=7-7,8-8,30-30,9-9\n5=7-7,8-8,30-30,9-9\n6=7-7,8-8,30-30,9-9\n7=7-7,8-8,30-30,9-9\n8=7-7,8-8,30-30,9-9";

/// DX: a scheme pushed by the peer is handled by the receive loop while another task's padded multi-write packet is in
/// progress (writes may be short or pending). The wire must stay well-formed and carry exactly the submitted frames.
pub fn make_c04_push_dx(new_scheme: &'static str) -> ScenarioFn {
    scenario(move || async move {
        let mut out = Outcome::default();
        let link = peer_link(PipeCfg::new("in"), PipeCfg::new("out").menus(false, true));
        let wire = link.peer.out.clone();
        let sess = Arc::new(Session::new_client(link.sess_r, link.sess_w, padding(OLD4), None));
        let s2 = sess.clone();
        tokio::spawn(async move {
            let _ = s2.recv_loop().await;
        });
        let inj = link.peer.inj.clone();
        tokio::spawn(link.peer.sink());
        let s3 = sess.clone();
        let writer = tokio::spawn(async move {
            hpoint("h.c04.writer").await;
            let mut oks = vec![];
            for k in 0..3u8 {
                oks.push(matches!(within(s3.write_data_frame(1, Bytes::from(vec![0x40 + k; 40]))).await, Some(Ok(()))));
            }
            oks
        });
        let pusher = tokio::spawn(async move {
            hpoint("h.c04.push").await;
            inj.push(&enc(UPDATE_PADDING, 0, new_scheme.as_bytes()));
        });
        let oks = writer.await.unwrap_or_default();
        let _ = pusher.await;
        crate::ctl::settle().await;
        tokio::time::sleep(Duration::from_millis(50)).await;
        let bytes = wire.written();
        let (frames, left) = parse_all(&bytes);
        let real: Vec<RFrame> = frames.iter().filter(|f| f.cmd != WASTE).cloned().collect();
        out.obs = format!("oks={:?} wire=[{}] left={left}", oks, fmt_frames(&real));
        if oks != vec![true, true, true] {
            out.viol("C04:sender-failed", format!("writes on a healthy transport returned {:?} while a scheme push was being handled", oks));
        }
        if left != 0 {
            out.viol("C04:wire-not-whole-frames", format!("{left} trailing bytes that are not a complete frame while a scheme push was handled in mid-packet; frames: {}", fmt_frames(&frames)));
        }
        let want: Vec<RFrame> = (0..3u8).map(|k| RFrame::new(PSH, 1, &vec![0x40 + k; 40])).collect();
        if left == 0 && real != want {
            out.viol(if real.len() < want.len() { "C04:payload-dropped-or-truncated" } else { "C04:payload-altered" }, format!("after deleting padding frames the wire has [{}], submitted [{}]", fmt_frames(&real), fmt_frames(&want)));
        }
        if frames.iter().any(|f| f.cmd == WASTE && f.data.iter().any(|b| *b != 0)) {
            out.viol("C04:payload-altered", "a padding frame carries non-zero bytes (payload spliced into padding)".to_string());
        }
        out
    })
}

/// DX: two tasks write padded packets whose payload exceeds the line's record sizes (a plain remainder follows the
/// shaped records) on a narrow transport (writes go Pending while the writer is held).
pub fn make_c04_two_writers(scheme: &'static str) -> ScenarioFn {
    scenario(move || async move {
        let mut out = Outcome::default();
        let link = peer_link(PipeCfg::new("in"), PipeCfg::new("out").capacity(16));
        let wire = link.peer.out.clone();
        let sess = Arc::new(Session::new_client(link.sess_r, link.sess_w, padding(scheme), None));
        tokio::spawn(link.peer.sink());
        let mut hs = vec![];
        for t in 0..2u8 {
            let s = sess.clone();
            hs.push(tokio::spawn(async move {
                hpoint("h.c04.two").await;
                let mut oks = vec![];
                for k in 0..2u8 {
                    oks.push(matches!(within(s.write_data_frame(t as u32 + 1, Bytes::from(vec![0x40 + 16 * t + k; 60 + 25 * t as usize]))).await, Some(Ok(()))));
                }
                oks
            }));
        }
        let mut all_ok = true;
        for h in hs {
            all_ok &= h.await.map(|v| v.iter().all(|x| *x)).unwrap_or(false);
        }
        crate::ctl::settle().await;
        tokio::time::sleep(Duration::from_millis(50)).await;
        let bytes = wire.written();
        let (frames, left) = parse_all(&bytes);
        let real: Vec<RFrame> = frames.iter().filter(|f| f.cmd != WASTE).cloned().collect();
        out.obs = format!("ok={all_ok} wire=[{}] left={left}", fmt_frames(&real));
        if !all_ok {
            out.viol("C04:sender-failed", "a write on a healthy (narrow) transport failed or blocked".to_string());
        }
        if left != 0 || frames.iter().any(|f| f.cmd > SERVER_SETTINGS) {
            out.viol("C04:wire-not-whole-frames", format!("two concurrent writers on a narrow transport: {left} trailing bytes / unknown commands; frames: {}", fmt_frames(&frames)));
            return out;
        }
        for t in 0..2u8 {
            let want: Vec<RFrame> = (0..2u8).map(|k| RFrame::new(PSH, t as u32 + 1, &vec![0x40 + 16 * t + k; 60 + 25 * t as usize])).collect();
            let got: Vec<RFrame> = real.iter().filter(|f| f.id == t as u32 + 1).cloned().collect();
            if got != want {
                out.viol(if got.len() < want.len() { "C04:payload-dropped-or-truncated" } else { "C04:payload-altered" }, format!("writer {t}: after deleting padding frames the wire has [{}] for its stream, submitted [{}]", fmt_frames(&got), fmt_frames(&want)));
            }
        }
        if frames.iter().any(|f| f.cmd == WASTE && f.data.iter().any(|b| *b != 0)) {
            out.viol("C04:payload-altered", "a padding frame carries non-zero bytes (payload spliced into padding)".to_string());
        }
        out
    })
}

pub fn c04_items(tier: Tier) -> Vec<DxItem> {
    let mut v = vec![];
    for (name, new) in [("one entry per line", "stop=9\n1=100-100\n2=100-100\n3=100-100\n4=100-100\n5=100-100\n6=100-100\n7=100-100\n8=100-100"), ("no lines", "stop=9"), ("stop=1", "stop=1\n0=5-5"), ("longer lines", "stop=9\n1=7-7,7-7,7-7,7-7,7-7,c,9-9\n2=7-7,7-7,7-7,7-7,7-7,c,9-9\n3=7-7,7-7,7-7,7-7,7-7,c,9-9")] {
        let mut it = DxItem::new(json!({"part": "push during a padded packet", "pushed": name}), make_c04_push_dx(new), if tier.is_thorough() { 3 } else { 2 });
        it.exec.draw = DrawPolicy::Min;
        it.exec.long_yield = 3;
        it.exec.quiesce = true;
        v.push(it);
    }
    for (name, scheme) in [("records smaller than the payload", "stop=9\n1=7-7,8-8\n2=7-7,8-8\n3=7-7,8-8\n4=7-7,8-8\n5=30-30\n6=30-30"), ("check marks and padding-only records", OLD4)] {
        let mut it = DxItem::new(json!({"part": "two writers on a narrow transport", "scheme": name}), make_c04_two_writers(scheme), if tier.is_thorough() { 2 } else { 1 });
        it.exec.draw = DrawPolicy::Min;
        it.exec.long_yield = 3;
        it.exec.quiesce = true;
        v.push(it);
    }
    v
}

pub const DX_SCHEME: &str = "stop=4\n1=20-20,50-50\n2=70-70\n3=100-100,c,31-31";

pub fn c05_items(tier: Tier) -> Vec<DxItem> {
    let b = if tier.is_thorough() { 3 } else { 2 };
    let mut v = vec![];
    for (n, bound) in [(2usize, b), (3, b - 1)] {
        let mut it = DxItem::new(json!({"part": "concurrent-writers", "writers": n, "scheme": DX_SCHEME}), make_c05_dx(n, DX_SCHEME), bound);
        it.exec.draw = DrawPolicy::Min;
        v.push(it);
    }
    v
}

/// A packet that is ABANDONED after part of it reached the transport (the caller's own time limit drops the write while
/// the transport stalls; the session stays open), then further packets: the packet behind the abandoned one is the next
/// index — it is shaped by the next line, not by the abandoned packet's line again.
fn abandoned_packet_cases(rep: &mut Report) {
    let scheme = "stop=9\n1=100-100\n2=200-200\n3=300-300\n4=400-400\n5=500-500\n6=600-600\n7=700-700";
    for abandon_at in [1usize, 2, 3] {
        let name = format!("packet {} abandoned after 50 bytes (caller's time limit), then two more packets", abandon_at + 1);
        rep.case(Some(&name));
        let slot: Arc<Mutex<Option<Vec<usize>>>> = Arc::new(Mutex::new(None));
        let slot2 = slot.clone();
        let sc = scenario(move || {
            let slot2 = slot2.clone();
            async move {
                let link = peer_link(PipeCfg::new("in"), PipeCfg::new("out"));
                let wire = link.peer.out.clone();
                let sess = Arc::new(Session::new_client(link.sess_r, link.sess_w, padding(scheme), None));
                // nobody reads: what is written stays queued in the pipe, so "capacity = queued + 50" stalls after 50 bytes
                let _peer = link.peer;
                for k in 0..abandon_at {
                    let _ = sess.write_data_frame(1, Bytes::from(vec![k as u8; 20])).await;
                }
                // the transport takes 50 more bytes and then stalls; the caller gives up after 1 s
                let sent_before: usize = wire.written().len();
                wire.set_capacity(sent_before + 50);
                let _ = tokio::time::timeout(Duration::from_secs(1), sess.write_data_frame(1, Bytes::from(vec![0xAB; 20]))).await;
                wire.set_capacity(usize::MAX);
                crate::ctl::settle().await;
                let mark = wire.log().len();
                for k in 0..2u8 {
                    let _ = tokio::time::timeout(Duration::from_secs(5), sess.write_data_frame(1, Bytes::from(vec![0xC0 + k; 20]))).await;
                }
                let later: Vec<usize> = wire.log()[mark..].iter().filter_map(|e| if let Ev::Write { data, .. } = e { Some(data.len()) } else { None }).collect();
                *slot2.lock().unwrap() = Some(later);
                Outcome::default()
            }
        });
        let mut cfg = ExecCfg::default();
        cfg.draw = DrawPolicy::Min;
        let rec = run_exec(&sc, &cfg, &[], 0);
        if let Some(v) = rec.outcome.violations.first() {
            rep.violation("C04:sender-crashed", &format!("{name}: {}", v.detail), json!({"engine": "IX", "case": name}));
            continue;
        }
        let later = slot.lock().unwrap().take().unwrap_or_default();
        // the abandoned packet was number abandon_at+1; the two later ones are abandon_at+2 and abandon_at+3
        let want: Vec<usize> = vec![100 * (abandon_at + 2), 100 * (abandon_at + 3)];
        // (if the session ended because of the abandoned write nothing more is written: nothing to judge)
        if !later.is_empty() && later != want && later.len() >= 2 {
            rep.violation("C05:shape-not-permitted", &format!("{name}: the packets behind the abandoned one went out as writes {:?}; lines {} and {} prescribe {:?}", later, abandon_at + 2, abandon_at + 3, want), json!({"engine": "IX", "case": name}));
        }
    }
}

pub fn run_c05(tier: Tier) -> i32 {
    let mut rep = Report::new("C05", tier, "model_checking");
    let thorough = tier.is_thorough();
    rep.assumptions = vec![
        "session packet k is the k-th flush-delimited batch on the transport (k = 1, 2, ...); packet 0 is the authentication preamble".into(),
        "reference acceptor written from the AnyTLS shaping rule (refmodel::accept_packet); sizes above 65535 are excluded (C04's region)".into(),
        "a line 0 that starts with a check mark may yield padding 0 or a size of its first range (the statement does not fix it)".into(),
    ];
    preamble_check(&mut rep, thorough);
    abandoned_packet_cases(&mut rep);
    let ls = lines5(if thorough { 3 } else { 2 });
    let payloads: Vec<usize> = vec![0, 1, 22, 23, 24, 30, 31, 100, 493, 65528];
    let mut cases: Vec<PadCase> = vec![];
    for line in &ls {
        for stop in [0u32, 1, 2, 3, 5] {
            for draw in [DrawPolicy::Min, DrawPolicy::Max, DrawPolicy::MinPlus1, DrawPolicy::Alternate] {
                if draw != DrawPolicy::Min && !line.contains("100-400") && !line.contains("400-100") && !line.contains("0-5") {
                    continue;
                }
                let n = (stop.min(3) + 2) as usize;
                for p in &payloads {
                    if *p == 65528 && !thorough && line.matches(',').count() >= 1 && stop != 2 {
                        continue;
                    }
                    cases.push(PadCase { scheme: scheme_text(stop, line, None), draw, payloads: vec![*p; n], real_first_batch: false, server_role: false, dest_first: true, ctl: vec![] });
                }
                cases.push(PadCase { scheme: scheme_text(stop, line, None), draw, payloads: vec![5, 300, 0, 40], real_first_batch: true, server_role: false, dest_first: true, ctl: vec![] });
                if stop >= 3 {
                    cases.push(PadCase { scheme: scheme_text(stop, line, Some(2)), draw, payloads: vec![10, 10, 10, 10], real_first_batch: false, server_role: false, dest_first: true, ctl: vec![] });
                }
            }
        }
        cases.push(PadCase { scheme: scheme_text(3, line, None), draw: DrawPolicy::Max, payloads: vec![5, 50, 500], real_first_batch: false, server_role: true, dest_first: true, ctl: vec![] });
    }
    cases.extend(long_line_cases(thorough));
    cases.extend(first_flush_cases());
    cases.extend(mixed_packet_cases(thorough));
    // spellings: the same kind of scheme written in every way the text format allows (spaces, CRLF, leading zeros and
    // signs, key order, duplicate keys, stop not first / duplicated / larger than the number of lines)
    for text in [
        "stop = 3\n1 = 30-30\n2 = 40-40",
        "stop=3\r\n1=30-30\r\n2=40-40\r\n",
        "stop=03\n1=30-30\n2=40-40",
        "stop=+3\n1=30-30\n2=40-40",
        "stop=3\n01=30-30\n2=40-40",
        "stop=3\n 1=30-30\n2 =40-40",
        "stop=3\n1=30-30\n1=50-50\n2=40-40",
        "stop=3\n2=40-40\n1=30-30",
        "stop=9\n1=30-30",
        "1=30-30\nstop=3\n2=40-40",
        "stop=3\nstop=2\n1=30-30\n2=40-40",
        "stop=2\nstop=3\n1=30-30\n2=40-40",
        "stop=3\n1=30-30,\n2=,40-40",
        "stop=3\n1=30 - 30\n2=40-40 , c , 50-50",
        "\n\nstop=3\n\n1=30-30\n\n2=40-40\n\n",
        "stop=3\n+1=30-30\n2=40-40",
        "stop=3\n1=30-30\n2=40-40\n3=60-60\n4=70-70",
        "stop=4294967295\n1=30-30\n2=40-40",
    ] {
        for first in [false, true] {
            cases.push(PadCase { scheme: text.to_string(), draw: DrawPolicy::Min, payloads: vec![10, 10, 10, 10, 10], real_first_batch: first, server_role: false, dest_first: true, ctl: vec![] });
        }
    }
    // the default scheme with the real first batch and every draw policy
    for draw in [DrawPolicy::Min, DrawPolicy::Max, DrawPolicy::MinPlus1, DrawPolicy::Mid] {
        cases.push(PadCase { scheme: DEFAULT.to_string(), draw, payloads: vec![100, 2000, 5, 5, 5, 5, 5, 5, 5, 5], real_first_batch: true, server_role: false, dest_first: true, ctl: vec![] });
    }
    let n_cases = cases.len();
    let cases = Arc::new(cases);
    let c2 = cases.clone();
    let results: Vec<(bool, Vec<(String, String)>, usize)> = par_map(n_cases, 16, move |i| {
        let case = &c2[i];
        match run_pad_case(case) {
            None => (false, vec![], 0),
            Some(r) => {
                let waste = r.batches.iter().map(|b| parse_all(&b.1).0.iter().filter(|f| f.cmd == WASTE).count()).sum::<usize>();
                (true, c05_oracle(case, &r), waste + r.batches.iter().filter(|b| b.0.len() > 1).count())
            }
        }
    });
    for (i, (accepted, viols, shaped)) in results.into_iter().enumerate() {
        let case = &cases[i];
        let key = format!("{}|{:?}|{:?}|{}|{}", case.scheme, case.draw, case.payloads, case.real_first_batch, case.server_role);
        rep.case(if accepted && shaped > 0 { Some(&key) } else { None });
        rep.states += 1;
        rep.transitions += case.payloads.len() as u64;
        rep.traces_validated += 1;
        if i % 7919 == 13 {
            rep.sample(json!({"scheme": case.scheme, "draw": format!("{:?}", case.draw), "payloads": case.payloads, "real_first_batch": case.real_first_batch}));
        }
        for (k, d) in viols {
            rep.violation(&k, &format!("scheme {:?} draw {:?} payloads {:?} first_batch {}: {d}", case.scheme, case.draw, case.payloads, case.real_first_batch), json!({"engine": "IX", "scheme": case.scheme, "draw": format!("{:?}", case.draw), "payloads": case.payloads, "real_first_batch": case.real_first_batch, "server_role": case.server_role}));
        }
    }
    rep.sections.insert("sessions".into(), json!({"total": n_cases, "lines": ls.len()}));
    // the preamble clause at the level of the real Client: sessions dialled after a push (fresh child process per history;
    // R/r/q = request against a scripted TLS server running scheme B / C / B retyped, Z = client built with a custom scheme)
    {
        let hists: Vec<&str> = if thorough { vec!["R", "RR", "Rr", "RrR", "ZR", "ZRR", "ZRr", "Zd", "ZdR", "TRR", "Rq", "RqR"] } else { vec!["RR", "Rr", "ZRR", "ZRr", "ZdR", "TRR"] };
        for r in crate::props::c19::client_preambles(&hists) {
            match r {
                Err(e) => rep.machinery(format!("client-level preamble check: {e}")),
                Ok((h, step, md5, pad, want)) => {
                    rep.case(Some(&format!("client preamble {h} step {step}")));
                    if pad != want {
                        rep.violation("C05:preamble-not-shaped-by-scheme-in-force", &format!("history {h} step {step}: the real Client dialled a session that announces the scheme with md5 {md5} (line 0 prescribes {want} bytes of preamble padding); its preamble carries {pad}"), json!({"engine": "BX-child", "history": h, "step": step}));
                    }
                }
            }
        }
    }
    // SAMPLING SUPPLEMENT (labelled as such; everything else in this check is enumeration): the un-hooked random draw.
    // The draw hook decides every drawn size in the enumerated runs above, so the `rand` call itself is exercised only
    // here: 20 000 real draws per range, every value within the range. (Not part of the deciding technique; it cannot
    // show absence, only catch a draw that leaves its range.)
    {
        let mut sampled = 0u64;
        for (lo, hi) in [(1i64, 2i64), (5, 6), (1, 4), (100, 103), (65534, 65535), (7, 9)] {
            let Ok(f) = PaddingFactory::new(format!("stop=3\n1={lo}-{hi}\n2={hi}-{lo}").as_bytes()) else { continue };
            rep.case(Some(&format!("sampled real draws {lo}-{hi}")));
            let mut seen = std::collections::BTreeSet::new();
            for i in 0..20_000u32 {
                for s in f.generate_record_payload_sizes(1 + (i % 2)) {
                    seen.insert(s as i64);
                    sampled += 1;
                }
            }
            let outside: Vec<i64> = seen.iter().copied().filter(|v| *v < lo || *v > hi).collect();
            if !outside.is_empty() {
                rep.violation("C05:drawn-size-outside-its-range", &format!("range {lo}-{hi}: real (un-hooked) draws produced {:?}", outside), json!({"engine": "sampling-supplement", "range": [lo, hi]}));
            }
        }
        rep.sections.insert("sampling_supplement_real_draws".into(), json!({"draws": sampled, "note": "sampling, not enumeration: the un-hooked rand call"}));
    }
    // packet numbering and the stop rule across a scheme change in mid-session: k packets under a scheme with stop a
    // (one 150-byte write per padded packet), a push of a scheme with stop b (200-byte writes), 4 more packets
    {
        let stops: Vec<usize> = if thorough { vec![1, 2, 3, 4, 5, 8, 12] } else { vec![1, 2, 3, 5, 8] };
        for &a in &stops {
            for &b in &stops {
                for k in 0..=(a.max(b) + 1) {
                    rep.case(Some(&format!("push mid-session {a}->{b} after {k}")));
                    let Ok(writes) = crate::props::c19::session_case(a, b, k, 4) else { continue }; // a disturbed session is C19's / C04's business
                    for (i, w) in writes.iter().enumerate() {
                        let p = i + 1; // packet number
                        let (stop, size) = if p <= k { (a, 150) } else { (b, 200) };
                        let want: Vec<usize> = if p < stop { vec![size] } else { vec![27] };
                        if *w != want {
                            let key = if p >= stop { "C05:padding-where-none-allowed" } else { "C05:shape-not-permitted" };
                            rep.violation(key, &format!("session with stop={a} (150-byte packets), push of a scheme with stop={b} (200-byte packets) after {k} packet(s): packet {p} went out as {:?}; line {p} of the scheme in force ({}) prescribes {:?}", w, if p >= stop { "at or beyond its stop: no padding" } else { "below its stop" }, want), json!({"engine": "IX", "old_stop": a, "new_stop": b, "packets_before_push": k}));
                            break;
                        }
                    }
                }
            }
        }
    }
    let cap = Duration::from_secs(if thorough { 900 } else { 40 });
    run_items(&mut rep, "C05", tier, c05_items(tier), DxOpts { time_cap: cap, det_replays: 8, max_violations: 3, vacuity_check: true });
    rep.finish("IX: every scheme line of <=2 (thorough 3) entries over 12 entry forms x stop x draw policy {min,max,min+1} x 10 payload sizes per packet (+ 18 spellings of one scheme: spaces, CRLF, leading zeros / signs, key order, duplicate keys and stops; + every line of 3..4 (thorough 5) entries over the reduced alphabet {c, 7, 8, 30, 100-400}), write lengths of every flush-delimited batch checked by the reference acceptor for its line; preamble for every line 0, and for sessions the real Client dials after a push (child processes against a scripted TLS server); packet numbering and the stop rule across a push in mid-session (stop x stop x push instant); DX: 2-3 concurrent writers on a fresh session with <= B pre-emptions (wire order vs packet index); non-trivial = distinct case with an actually shaped packet / trace with >= 1 deviation")
}

pub fn replay_c05(file: &str) -> i32 {
    crate::dxrun::replay(file, c05_items)
}
