#!/usr/bin/env python3
"""Generates /verif/MANIFEST.json from the table below (kept next to the checks so they stay in sync)."""
import json, subprocess

HOOK_COMMITS = subprocess.run(
    ["git", "-C", "/repo", "log", "--format=%h %s"], capture_output=True, text=True
).stdout.splitlines()
HOOK_COMMITS = [l.split()[0] for l in HOOK_COMMITS if l.split(" ", 1)[1].startswith("verif hooks")]

CHECKS = {
    "C11": dict(
        category="model_checking",
        technique="stateless deviation-bounded schedule exploration (DX) of the real Session on a deterministic single-threaded runtime",
        text="Every execution of 2 concurrent openers (+ forwarding task, + heartbeat writer) on a fresh or already used client session, for 3 padding schemes, with at most B forced pre-emptions at the named scheduling points / short or pending transport writes (B=2 quick, 3 thorough; 1/2 with transport menus) is run on the real code and its decoded wire compared with each task's submission log. Over-size first chunks (70 000 bytes, merged per-stream comparison). A trickling transport (10 bytes every 16 / 31 / 61 s of virtual time) that cuts every write in mid-frame with long stalls. One write call of a narrow transport returning Interrupted or accepting 0 bytes (Ok(0)), at every call index, while two openers, the forwarding task and a keep-alive writer are active: what reached the transport is whole frames in each task's order with at most one torn frame, at the very end. Server role: the receive loop answering settings / keep-alive while two handler tasks write SYNACK and data (directly or through the forwarding task). Client level: 2 (3) concurrent create_proxy_stream calls on the real Client (dial, TLS handshake, authentication, session set-up, pool) over the in-memory dialer seam (H12) against a scripted TLS server, <= 2 deviations: per connection the settings frame is first and unique, SYN precedes data, the first data frame of every stream is its destination.",
        note="Trusted: the vpipe transport model (DESIGN 4.2), tokio's current-thread scheduler semantics, scheduling points only at the named hooks and transport calls, sequentially consistent atomics.",
        design="DESIGN.md §6 C11",
    ),
}

CHECKS["C09"] = dict(
    category="fault_enumeration",
    technique="exhaustive fault enumeration (every byte offset x cause, every write/flush call, every frame boundary) combined with deviation-bounded schedule exploration (DX) of the real Session under virtual time",
    text="For client and server role: EOF / reset / unexpected-EOF at every byte offset of the peer's stream, failure at every transport write call and flush, an Alert frame at every frame boundary, keep-alive silence, owner close() (once, twice, racing EOF, failing or hanging shutdown) and a stalled peer, each with <= B scheduling deviations (quick 0-1, thorough 1-2), with a blocked reader, a pending open and an in-flight writer present; the oracle demands that everything completes within a 1 h virtual horizon, the session is visibly closed, its transport shut down, later writes/opens fail and no background task survives.",
    note="Trusted: vpipe environment assumptions (DESIGN 4.2), 'forever' = 1 h of virtual time without external events, scheduling points only at named hooks and transport calls. The stalled-peer class is an open known finding (KNOWN_FINDINGS.json).",
    design="DESIGN.md §6 C09",
)

CHECKS["C01"] = dict(
    category="model_checking",
    technique="exhaustive chunk-size-sequence sweep plus deviation-bounded schedule/transport exploration (DX) of two real linked Sessions; IX sweep at the Stream AsyncRead/AsyncWrite seam",
    text="Real client session <-> real server session over virtual pipes. B=0 sweep of every sequence of <=2 chunk sizes (thorough: +3 over a reduced set) from 15 boundary sizes 0..131072 x direction x both submission paths x 3 padding schemes x read-buffer sizes x pipe capacity; DX (B<=2 quick, 3 thorough) of concurrent flows on 1-2 streams with forced yields, short reads straddling frame headers, short/pending writes and back-pressure; slow links (16 bytes in flight, delivered after 16 / 31 / 61 s of virtual time) that cut every write in mid-frame with long stalls. Oracle at every read return: bytes are the exact continuation of the position-coded pattern; at quiescence everything submitted was read, nothing more, and no 0-byte read happened while the stream was open. Read calls of varying sizes incl. zero-length ones, and reads that are cancelled while they wait and started again with another buffer size (also through the AsyncRead impl: 512 chunk / buffer-size combinations). LX supplement through the real SOCKS5 / HTTP CONNECT front-ends, TLS, Server and handler: echo of 1..200 000 (1 000 000) bytes on 3 concurrent connections (one half-closing after writing), and 12 (24) MB uploads to a slow target / downloads by a slow application (tiny receive buffers: partial and pending writes in the forwarding loops).",
    note="Trusted: vpipe environment, fixed position/stream/direction-coded payload pattern (other contents not explored), at most 2 streams, TLS record layer out of scope.",
    design="DESIGN.md §6 C01",
)

CHECKS["C02"] = dict(
    category="model_checking",
    technique="explicit-state search (BX) over all inbound frame histories on real sessions with a non-interference-by-projection oracle, plus deviation-bounded schedule exploration (DX) of concurrent writers",
    text="Receive side: every frame history up to depth 5 (thorough 6) over {SYN,PSH,FIN} x ids {1,2,3} on a real server session and up to depth 4 (5) over {PSH,FIN,SYNACK,SYN} on a real client session; stream s must observe exactly what it observes when only its own frames are delivered (differential oracle, no hand-written expectation), every byte carries its stream's tag, single-stream histories agree with a reference model. Histories may contain one local operation (the user closes stream 1 or 2 with no read in progress): late frames for the closed stream must not disturb the siblings; on the server also 'the task that accepts new streams has ended' (callback channel closed): later SYNs cannot be handed out, existing streams are not concerned. Send side: 2-3 concurrent writers on distinct streams, both submission paths and directions, <= 2 (3) deviations; wire frames and peer readers carry only the owner's tag, concurrent opens get distinct ids. Server side: SYN + data of a new stream in one transport read while the handler of an older (open or already finished) stream is sending.",
    note="Trusted: three ids stand for all (dispatch is a map lookup), frames on the receive side are delivered with the session quiescent in between, vpipe environment.",
    design="DESIGN.md §6 C02",
)
CHECKS["C03"] = dict(
    category="exploration",
    technique="exhaustive input enumeration (IX) of the real FrameCodec against an independent reference codec, and of the real Session reader (recv_loop) under every piece pattern of short frame sequences",
    text="All 65536 payload lengths; all 256 command bytes x 39 ids x 8 boundary lengths incl. encode/decode round trip; over-long payloads; every sequence of <=3 frames over a 9-frame alphabet (+ every proper prefix as incomplete tail) under every cut pattern (streams <=16 bytes quick, <=20 thorough) or every <=2/3-cut pattern and byte-at-a-time; every value of each header byte in 4 contexts; all 65536 length-field values against a short buffer; all 1-2 byte strings. The session's own reader: 4 frame sequences (empty-bodied HeartRequests, Waste frames of 1/3/5/9 bytes between them) fed to a real server Session under every pattern of <=3 (4) cuts, one transport read per piece; the HeartResponses written back must equal those of whole delivery. Encodes appended to a kept buffer with refused (over-long) encodes in between must leave no stray bytes.",
    note="Trusted: the 40-line reference codec in harness/src/refmodel.rs; 2^32 ids are represented by 39 (the id is copied, never computed on).",
    design="DESIGN.md §6 C03",
)
CHECKS["C04"] = dict(
    category="exploration",
    technique="exhaustive enumeration (IX) of a generated padding-scheme grammar on the real Session write path, wire parsed by a reference parser",
    text="Every scheme line of <=2 (thorough 3) entries over 16 entry forms (check mark, ranges, reversed, <=0, non-numeric, sizes around and above 65535) x stop in {0,1,2,3,9} x draw policy x 10 payload sizes per packet, plus the real first batch, an 'only line 2' scheme, over-long chunks and the server role; thorough adds sizes >= 2^31 in child processes under RLIMIT_AS. The recorded transport bytes must parse into whole frames and, minus padding frames, equal the submitted frames byte for byte. Plus every line of 3..4 (5) entries over a reduced alphabet, and 'first flush' cases where the first data frame of a new client session (the one that flushes the buffered Settings + SYN) takes 12 sizes up to 70 000. Packets that are not data frames (keep-alive request and answer, the SYN of a second stream, a frame the encoder refuses) at every position among four data packets, singly and in pairs.",
    note="Trusted: reference parser; the random draw is replaced by the enumerated policies {min, max, min+1} through the H3 hook; healthy transport.",
    design="DESIGN.md §6 C04",
)
CHECKS["C05"] = dict(
    category="model_checking",
    technique="exhaustive scheme/payload enumeration against a reference shape acceptor plus deviation-bounded schedule exploration (DX) of concurrent writers",
    text="Every scheme line of <=2 (thorough 3) entries over 12 entry forms x stop x draw policy x 10 payload sizes: the write lengths of every flush-delimited packet k >= 1 must be accepted by line k (reference acceptor, nondeterministic in the draw), packets >= stop / without a line / on the server side are one unpadded write; the authentication preamble for every line 0; DX with 2-3 concurrent writers and <= 2 (3) pre-emptions checks wire order against packet index. Plus every line of 3..4 (5) entries over a reduced alphabet {c,7,8,30,100-400} and the first-flush size cases; draw policies incl. 'alternate'. Control packets (keep-alive request / answer, second SYN, refused frame) at every position among four data packets, singly and in pairs, under schemes whose lines all differ: each consumes exactly one packet index. A packet abandoned after 50 bytes (the caller's own time limit drops the write while the transport stalls, the session stays open): the packets behind it are shaped by the NEXT lines. 18 scheme spellings (stop beyond / below the number of lines, gaps, duplicate keys, blank lines). Client level: the preamble written by the real Client over the in-memory dialer seam (H12) and a mid-session push grid. The un-hooked random draw is covered by a labelled sampling supplement only (it cannot be enumerated); it does not decide the property.",
    note="Trusted: the acceptor (refmodel::accept_packet) written from the protocol's shaping rule; sizes > 65535 excluded (C04); a line 0 starting with a check mark may give 0 or its first range.",
    design="DESIGN.md §6 C05",
)

CHECKS["C07"] = dict(
    category="exploration",
    technique="exhaustive destination / fragmentation enumeration through the real client encoder and server parser (DET), explicit-state search over resolver histories (BX), loopback dialling through the real TcpProxyHandler (SEMI)",
    text="Destinations {5 IPv4, 5 IPv6} x boundary ports, every domain length 1..=256 (ASCII and multi-byte UTF-8; 256 must be refused), almost-addresses and a port sweep (thorough: all 65536 ports x 3 address types) go through the real Client::create_proxy_stream on a pool-injected session and are decoded by the real server-side parser; the destination header is cut into <=3 data frames at every position; every resolve/age/clear history up to depth 3 (4) over 2 hosts x 2 ports on both resolver branches (trust-dns against a harness DNS stub, system resolver for localhost); every (name | literal, listener) pair incl. names containing the UDP magic string is dialled through the real handler and must arrive at the listener bound to exactly that address and port. UDP associations: the target named in the initial request written by the real Client::create_udp_proxy, decrypted by a scripted TLS server behind the in-memory dialer seam (H12), for 17 (23) IPv4/IPv6 address shapes x boundary ports. Concurrent resolves of one host under DX (H11 points).",
    note="Trusted: harness DNS stub and /etc/hosts; cache ageing through the H9 hook; loopback only; real time with timing-independent oracles for the SEMI part.",
    design="DESIGN.md §6 C07",
)
CHECKS["C10"] = dict(
    category="model_checking",
    technique="deviation-bounded schedule exploration (DX) of the real Client::create_proxy_stream against a scripted server under virtual time, plus loopback cases through the real TcpProxyHandler (SEMI)",
    text="Client half: 10 server behaviours (ok, error text, silence, duplicates, unknown id, session death by EOF/reset/Alert) x answer times {0, 1 s, 29.999 s, 30 s, 30.001 s, never} x {1 opener, 2 racing openers with every pair of behaviours} with <= 1 (2) scheduling deviations; the result must be the reference model's (first of answer / death / 30 s wins), carry the server's reason, and come at the right virtual time. Server half: peer versions {none,1,2,3} x {accepting, refusing, (thorough) black-holed} targets x {literal, name} x early data: exactly one SYNACK per SYN for v>=2, empty only when the target was really connected, none for older peers, no data frame before the SYNACK. The owner closing the session is a death cause like EOF / reset / Alert; every cause also under a black-holed uplink with another task parked inside the transport write. Plus a black-holed uplink once the request is out (the peer stops reading, the transport accepts nothing): verdict or timeout must still be reported. UDP association opens (peer versions x 8 initial requests) and 9 spellings of the announced version (\"10\", \"02\", \"255\", \" 2\", ...) against a real server session.",
    note="Trusted: H4 accessor places an in-memory session in the real pool; scripted server; SEMI part runs one schedule per case in real time.",
    design="DESIGN.md §6 C10",
)

CHECKS["C14"] = dict(
    category="model_checking",
    technique="exhaustive configuration/timing grid of the real heartbeat task under virtual time, with deviation-bounded schedule exploration (DX) on the small configurations",
    text="Real client session (started the way client.rs does) against a scripted peer over pipes with one-way latency: interval x timeout (whole seconds incl. T<I and T=I) x round trip {0, 2 ms, T/2, T-2 ms} x silence instant {never, from the start, before/after response k=1..3} x {idle, stream traffic every I/3}; is_closed sampled every 50 ms of virtual time up to 20*max(I,T). Healthy peers must never be closed; silent peers must be closed, with the blocked reader released, by last answer + T + I. Also peers that keep talking (stream data, their own keep-alive requests, padding frames every I/4) whether or not they answer: only answers count. A narrow uplink (16 bytes in flight) with 200 bytes of padding behind every payload: the request is answered while the monitor's write is still in progress (<= 1 (2) deviations). Plus black-holing peers with an upload in progress, the largest accepted values (u64::MAX s), and a client-level real-time part: sessions created by the real Client with 2 (4) interval/timeout pairs against a scripted TLS server that falls silent (request spacing = interval, close between timeout and timeout + interval after the last answer).",
    note="Trusted: scripted peer answers immediately (delay = pipe latency); virtual clock; sampling step 50 ms. The T<I class was a known finding and is fixed (56bf550); no C14 key is listed as open.",
    design="DESIGN.md §6 C14",
)

CHECKS["C08"] = dict(
    category="model_checking",
    technique="deviation-bounded schedule/transport exploration (DX) of the receive-side end-of-stream mechanism on real sessions, plus loopback propagation cases through the real forwarding loops (SEMI/LX)",
    text="Receive side (both roles): 0..3 data frames then FIN, reader blocked / arriving later / holding a partly consumed chunk, 5 read-buffer sizes, optional sibling stream, short reads straddling the FIN header and <= 2 (3) scheduling deviations; the reader must see end-of-stream after exactly the bytes sent before the FIN, the sibling and the opposite direction keep working, the session tables drop the id. Propagation: a target that sends M bytes and closes / half-closes behind the real TcpProxyHandler, and an application that sends N bytes and closes / half-closes through the real SOCKS5 and HTTP CONNECT front-ends over TLS; the opposite endpoint must see end-of-stream after exactly those bytes. Server relay with the application's FIN frame arriving after the first of three parts of the target's answer (3 / 9 / 30000 (/ 100000) bytes): the remaining parts must still arrive. Receive side also with another task calling close() on the session while the FIN is handled (<= 2 (3) deviations: the reader must terminate having read a prefix), with zero-length read calls and with another task inside open_stream() while the FIN is handled.",
    note="Trusted: scripted peer for the receive side; real time and a 3 s wait to conclude 'never observes end-of-stream' in the propagation part (cannot accuse correct code on loopback). The send side is an open known finding (no FIN is ever emitted), keyed per call site.",
    design="DESIGN.md §6 C08",
)

CHECKS["C12"] = dict(
    category="model_checking",
    technique="explicit-state search (BX) over all operation histories on the real SessionPool with real sessions under virtual time, checked step by step against a reference model and invariants",
    text="Every history of depth 5 (thorough 6) over {new, new+stream, get, open(s), fin(s), die(s), cleanup_expired, advance(I/2 | I | T)} with <= 2 (3) sessions x 4 (6) configurations of (check interval, idle timeout, min_idle incl. 0 and timeout < interval), replayed from scratch on fresh real objects; after every step: Get never returns a closed or already handed-out session and never ignores an available one, housekeeping never closes a session with an open stream or one that was handed out, the minimum number of idle sessions survives each pass, idle_count agrees with the model; after timeout + 2 intervals of inactivity no surplus idle session remains. The alphabet also has put(s) (a handed-out session returned to the pool); a pool-only sub-alphabet {new, get, put, advance} is explored two levels deeper; after every reaper pass no stream-less pooled session idle for longer than the timeout survives beyond the minimum. DX: get / add / count / cleanup / a dying session queued in every order of 2..4 (5) events on the pool lock while the periodic reaper is stalled inside close() of an expired session, with a second expired session behind it; nothing handed out during the pass may be closed by it afterwards.",
    note="Trusted: virtual clock, sessions over vpipes with a scripted peer; 'in use' = stream table non-empty. Two keys caused by 'session in the idle map while in use' are open known findings.",
    design="DESIGN.md §6 C12",
)
CHECKS["C13"] = dict(
    category="model_checking",
    technique="explicit-state search (BX) over request histories driven through the real Client and Server over TLS on loopback (LX)",
    text="Every history of length <= 6 (thorough 8) over {start request, finish request i} x min_idle in {0,1,2}: per request the identity of the session that served it and the number of new TLS connections seen by a counting relay in front of the real server; a request that starts while no other is active and a healthy session exists must be served by an existing session without dialling; open sessions <= peak concurrency + min_idle after every step. Plus a virtual-time family: every history of depth 6 (7) over {start, finish i, the server drops connection j, wait I/2, wait > T+I} on the real Client over the in-memory dialer seam (H12) for 3 (5) interval/timeout/min_idle configurations; The virtual-time alphabet also has requests the client rejects locally, requests the target refuses, and requests during which session creation fails (dial refused / connection dropped before the TLS handshake). LX also has bursts, session deaths and a short-timeout family with a wait. DX (one execution at a time — session sequence numbers come from a process-wide counter): a burst of 2 or 3 concurrent requests, one of whose session creations may fail after the others have started (connection dropped 2 ms after the dial, healthy ones accepted after 5 ms, the third request arriving in between), followed by sequential ones on the real Client (H12), <= 1 (2) deviations.",
    note="Trusted: timers set to 1 h so only the history matters; loopback TLS; one schedule per history. Reuse is broken on the unchanged tree (open known finding keyed by the shortest failing history).",
    design="DESIGN.md §6 C13",
)

CHECKS["C06"] = dict(
    category="exploration",
    technique="exhaustive input enumeration (IX) of authenticate_client over a byte-counting fragmenting reader, plus the same families as real TLS connections to the real Server (LX)",
    text="Right hash; all 256 single-bit flips; single-byte substitutions (thorough: all 32x255); k-byte prefix/suffix matches; hashes of 12 related passwords; every declared padding length 0..=65535 followed by a sentinel frame (exactly 34+L bytes consumed); every truncation for padding {0,1,30,300}; every 1-cut (thorough: every 2-cut) fragmentation and byte-at-a-time. LX: ~260 (thorough ~420) TLS connections carrying the preamble followed by a valid Settings+SYN+destination+data: for a bad preamble zero application bytes come back, the server closes the connection and the target is never contacted; for a good one the data reaches the target. Plus incomplete preambles followed by 11..301 (3601) s of silence on the open connection and then frames (clock of a current-thread runtime jumped). hash_password against an independent SHA-256 for 16 password shapes (empty, spaces, multi-byte, 1 000 bytes).",
    note="Trusted: the deviation families stand for the other 2^256 preambles; timing side channels out of scope; loopback TLS.",
    design="DESIGN.md §6 C06",
)

CHECKS["C16"] = dict(
    category="exploration",
    technique="exhaustive input enumeration (IX) of SOCKS5 greetings/requests and forced TCP fragmentations through the real front-end, Client, TLS, Server and handler on loopback (LX), against a reference SOCKS5 model",
    text="Versions {0,4,5,6,255} x every method list of length <= 3 over {00,01,02,80,ff} (+ 255-long lists with 00 first / last / absent); every command byte 0..=255; reserved byte, request version, address types {0,1,2,3,4,5,255}, domain lengths {0,1,255}, unresolvable / invalid names, ::1, a refusing port; every truncation of the request; the canonical IPv4 and domain exchanges and 8 multi-method greetings under every single forced TCP cut and byte-at-a-time. Reference: 05 00 iff version 5 and 00 offered, otherwise refusal; a tunnel (echo through the requested target, nothing at any other target) iff CONNECT with a valid address to an accepting target, and 'succeeded' only then; failures are a non-zero reply or a close and end only that connection (a canonical request afterwards still succeeds). The canonical IPv4 / domain / IPv6 exchanges also under every single cut with 31 / 301 s of silence between the pieces (clock jump on a current-thread runtime). Replies are parsed by their address type: exactly one reply per request, well-formed for IPv4 / IPv6 / odd domain names; failing CONNECTs with early data; early data cut around the hand-over to the tunnel. Targets that speak first (a banner of 1 / 64 / 5 000 / 70 000 bytes sent the instant they are connected), with and without early client bytes: the reply comes first and whole, then exactly the banner, then the echo. Upstream faults: the client's transport broken from write call #k on, for every k of an exchange with early data (real front-end, real Client over the in-memory dialer seam, echoing scripted target): exactly one reply, and after 'succeeded' only bytes the target sent.",
    note="Trusted: harness echo targets on 127.0.0.1 / 127.0.0.2 / ::1 and a reserved refusing port; fragmentation forced by waiting for the front-end's receive queue to drain (/proc/net/tcp); real time, timing-independent oracle (waits exceed every documented timeout).",
    design="DESIGN.md §6 C16",
)

CHECKS["C17"] = dict(
    category="exploration",
    technique="exhaustive input enumeration (IX) of the real HTTP request parser/rewriter against an independent reference resolver, plus boundary and ordering cases through the real front-end over loopback (LX)",
    text="~10^5 (thorough ~3x10^5) generated proxy requests: {GET,POST,PUT,OPTIONS,CONNECT} x target forms {origin, '*', absolute http/https with and without path/query, authority} x 5 host spellings (names in two cases, IPv4, two bracketed IPv6) x ports {none,80,443,8080,65535} x Host header {absent, 4 letter-case spellings with/without space, differing from the URI} at every position among 0-2 other headers (duplicates, a name that merely starts with 'host') x versions x body prefixes; oracle: tunnel authority, CONNECT flag, forwarded request line, other headers in order, exactly one Host line at the original position (or appended) denoting the same authority, body prefix intact. LX: header blocks of 65000 / 65536 / 65537 bytes with body bytes in the same or a later segment and forced first-segment sizes, CONNECT '200' only with a tunnel, early bytes after a CONNECT header exactly once, refusing target, origin-form forwarding per Host spelling. LX also: body bytes exactly once for headers near 65535 bytes, terminator straddling read boundaries, requests arriving in two pieces with 31 / 301 s of silence. CONNECT to targets that speak first (banner of 1 .. 70 000 bytes on connect), with and without early client bytes: the 200 reply first and whole, then exactly the banner, then the echo. Upstream FAULTS: the real front-end on a loopback listener with the real Client over the in-memory dialer seam and an echoing scripted origin, the client's transport broken from write call #k on for every k of a CONNECT and of a POST exchange: the application receives a failure answer alone, or a success answer followed only by bytes the origin sent.",
    note="Trusted: reference resolver written from RFC 7230 section 5; H8 wrappers expose the private functions unchanged; LX in real time with forced TCP cuts.",
    design="DESIGN.md §6 C17",
)

CHECKS["C15"] = dict(
    category="exploration",
    technique="exhaustive size and fragmentation enumeration (IX) through the real UDP relay loops over real loopback sockets in lock-step (SEMI)",
    text="Datagram sizes (quick: boundary sizes 1..3, 253..258, 1471..1473, 8190..8194, 65505..65507 and a stride; thorough: every size 1..=65507) in both directions through the real server-side handler and the real client-side relay loop, position-coded contents, one received datagram per sent one, nothing extra; every 1-cut and 2-cut split and byte-at-a-time delivery of 2- and 3-datagram length-prefixed streams including cuts inside the initial request; end to end through Client::create_udp_proxy, the real sessions and TcpProxyHandler for an IPv4 and an IPv6 target, with a decoy socket that must stay silent. Two local applications alternating on one association; two-piece deliveries with up to 301 (3601) s of silence between the pieces in both directions (clock jump). A datagram from a new local source address arriving between the two pieces of a fragmented reply (4 cut positions). Server side with the target's port closed for the first datagrams (ICMP port-unreachable, ECONNREFUSED on the relay socket) and listening afterwards: later datagrams arrive exactly once, whole. Bursts in both directions, two concurrent associations (replies must return on the association that sent the request), and server-side target shapes IPv4 / IPv4-mapped / ::1 / domain.",
    note="Trusted: loopback UDP does not lose datagrams in lock-step; hand-built Stream objects carry the tunnel's byte stream in chosen pieces; H7 wrapper exposes the private client loop unchanged.",
    design="DESIGN.md §6 C15",
)

CHECKS["C18"] = dict(
    category="fault_enumeration",
    technique="explicit-state search (BX) over disk-operation/reload histories and exhaustive fault enumeration (every truncation prefix, a disk change at every point inside a reload) on the real CertReloader with real files and real TLS handshakes",
    text="Every history of depth 3 (thorough 4) plus a final reload over {write cert or key of pairs B, C and the long-expired D (each file alone = both orders of a two-file update), truncate cert/key, garbage, delete, path-is-a-directory (an I/O error other than 'not found'), reload}; every byte prefix of the certificate and of the key file; a disk operation landing at each of 5 synchronous points inside a reload for 6 pre-states, and — for reloads that meet an I/O error on a first read (path is a directory, file missing) — at the SECOND arrival at a read point (a reload that reads its files again). After every step a real in-memory TLS handshake against the current acceptor yields the presented leaf; get_cert_info / reload count / last-reload are snapshotted: a failed reload must change nothing, a successful one must serve the pair that was on disk, report that certificate's info, bump the count; the leaf served is always one loaded together with its key; a TLS connection made before the history still carries data. Two overlapping reloads: reload A parked at each of the 5 points, the files change to another valid pair, reload B on a second thread (it may finish or wait), A resumes — served and reported certificate belong together and the pair on disk is served. Materials also share attributes (same key and serial, same serial with a new key) and include CA-issued leaves in chain files (leaf first, CA first, expired leaf behind a valid CA); plus a real Server built on the reloader's shared acceptor (as bin/server.rs does) whose fresh TCP+TLS connections are checked after every step of a 9-step reload history.",
    note="Trusted: rcgen material, real files under /verif/scratch (removed afterwards), H10 sync points between the reload's file reads; which certificates count as expired is not fixed by the property (only the long-expired pair is used).",
    design="DESIGN.md §6 C18",
)

CHECKS["C19"] = dict(
    category="model_checking",
    technique="explicit-state search (BX) over process histories, each replayed in a fresh child process on real client sessions (virtual pipes) and through the real Client against a scripted TLS server",
    text="Every history of length <= 3 (thorough 4) over {touch the built-in default first, session whose server pushes scheme B / C / an unparsable scheme followed by shaped writes, client request on a new session against a scripted TLS server using B / C}: after a parsable push the session's next packets must have exactly the pushed scheme's write sizes (B and C prescribe one 200- / 300-byte write per packet), sessions created afterwards must start with the adopted scheme and announce its md5 so that the server does not push again, an unparsable push changes nothing and the session keeps working; 180 (thorough ~900) child processes. The alphabet also has a client constructed with a custom scheme, the built-in default text as a pushed scheme, and a retyped scheme (same lines, other text, other md5); plus an exhaustive per-session grid (stop of the announced scheme x stop of the pushed scheme x packets sent before the push). Real-server operations (a real server Session deciding whether to push, with its real text) and 24 spellings of the settings frame read by a real server session (it must push iff the announced md5 differs). A new session must announce the scheme it really uses (preamble padding recorded). DX (<= 2 (3) deviations, one execution at a time): two sessions of one process pushed different schemes at about the same time while one has a writer in mid-packet on a narrow transport; each must end up shaping with its own server's scheme; and, on the real Client over the in-memory dialer seam against a pushing scripted TLS server, a session being created while another session's push is handled (<= 1 (2) deviations): every session's preamble padding is line 0 of the scheme whose md5 it announces.",
    note="Trusted: the child mimics bin/client.rs (client constructed once with the process default); the scripted TLS server reads the announced padding-md5 from the Settings frame; write sizes are observed on virtual pipes.",
    design="DESIGN.md §6 C19",
)

CHECKS["C20"] = dict(
    category="exploration",
    technique="exhaustive hostile-input enumeration (IX) on real sessions under virtual time with a process-wide panic hook, spin guard and watchdog; parser sweeps; malformed input on the real front-ends (LX)",
    text="Both roles: single frames over all 256 command bytes x ids {0,1,2,0xffffffff} x 9 payloads (valid / garbage / invalid-UTF-8 settings, 65535 bytes, hostile scheme texts with huge, negative and overflowing numbers), also as the very first frame, and all pairs over a reduced alphabet (quick 88^2, thorough 480^2); every bit flip in the first 160 bytes (thorough: all), every truncation, frame duplication, adjacent swap and length-field corruption {0, len-1, len+1, 65535} of a recorded conversation in each direction; the destination parser and the UDP initial-request / datagram parsers on all 256 type bytes x lengths {0,1,255} x truncations; the client side of a UDP association fed with 10 length prefixes x 5 body lengths written by a hostile server; ~400 HTTP header blocks with multi-byte characters at every offset of a header line and degenerate targets/methods; malformed byte strings on the SOCKS5 and HTTP listeners followed by a well-formed request on a sibling connection. Oracle: no panic on any thread, no spin or real-time wedge, and afterwards a well-formed exchange works or the session is closed with its transport shut down. Two applications sharing a session through the real SOCKS5 / HTTP CONNECT front-end, one of which resets its connection (SO_LINGER 0): the other's tunnel keeps working. LX also: connections stalling with incomplete input (held open) on both front-end listeners and on the server's TLS listener while a well-formed sibling request arrives. Long multi-byte texts, every valid text with one byte corrupted at every offset, headers that never end (must not be buffered beyond the limit), and a global-state poisoning probe (a later well-formed exchange in the same process must still work).",
    note="Trusted: hostile input is zero-padded to the next frame boundary of the reference parser before the follow-up exchange (a corrupted length legitimately swallows what follows); 1 h virtual horizon; panic hook is process-wide.",
    design="DESIGN.md §6 C20",
)

NOT_YET = {
}

ALL = ["C%02d" % i for i in range(1, 21)]

def main():
    checks = []
    for pid in ALL:
        if pid not in CHECKS:
            continue
        c = CHECKS[pid]
        checks.append({
            "property_id": pid,
            "quick_cmd": f"./check {pid} --tier quick",
            "thorough_cmd": f"./check {pid} --tier thorough",
            "evidence_file": f"/verif/evidence/{pid}.json",
            "replay_cmd_template": f"./check {pid} --replay {{path}}",
            "engine": "vcheck",
            "level_claimed": {"category": c["category"], "text": c["text"], "design_ref": c["design"]},
            "level_note": c["note"],
            "technique": c["technique"],
        })
    na = []
    for pid in ALL:
        if pid not in CHECKS:
            na.append({"property_id": pid, "reason": NOT_YET.get(pid, "check not built yet in this session (design in DESIGN.md §6); not claimed until its engine exists")})
    m = {
        "version": 1,
        "setup_cmd": "cd /verif/harness && CARGO_NET_OFFLINE=true CARGO_TARGET_DIR=/verif/target cargo build --release --offline",
        "hooks": {
            "guard": "cargo feature `verif` of anytls-rs (cfg(feature = \"verif\"))",
            "enable": "the harness crate /verif/harness depends on /repo by path with features = [\"verif\"]; ./check rebuilds it from /repo's working tree",
            "baseline_off_cmd": "cd /repo && cargo test --workspace --no-fail-fast --offline",
            "source_commits": HOOK_COMMITS,
            "add_only": True,
        },
        "engines": [
            {"name": "vcheck", "path": "/verif/harness", "serves_properties": sorted(CHECKS.keys()),
             "kind_free_text": "Rust harness linking the real anytls-rs (feature verif): DX deviation-bounded stateless explorer on a paused current-thread tokio runtime over virtual pipes; BX explicit-state search by re-execution; IX exhaustive input enumeration against reference models; LX loopback driver"},
        ],
        "checks": checks,
        "not_applicable": na,
        "notes": "Exit codes of ./check: 0 held (KNOWN-FINDING lines allowed), 1 new violation (VIOLATION line + replay file under /verif/replays), 2 machinery error. Known findings: /verif/KNOWN_FINDINGS.json. Replay: ./check <ID> --replay <file> — DX files (a choice vector) re-execute that one schedule; files of the other engines name the failing case and the check is re-run in a scratch output directory, reporting whether the recorded key shows up again (exit 1) or not (exit 0).",
    }
    json.dump(m, open("/verif/MANIFEST.json", "w"), indent=1)
    print("checks:", len(checks), "not_applicable:", len(na))

main()
