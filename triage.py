#!/usr/bin/env python3
import json,glob,sys
seen={}
for f in sorted(glob.glob('/verif/replays/*.json')):
    d=json.load(open(f))
    if len(sys.argv)>1 and d['property']!=sys.argv[1]: continue
    seen.setdefault(d['key'],[]).append(d)
for k,ds in seen.items():
    print('==',k)
    for d in ds[:3]:
        r=d['replay']
        print('   ',json.dumps(r.get('params'))[:300],'dev=',r.get('deviations'))
        print('      ',d['detail'][:300])
        print('      obs:',str(r.get('observation'))[:900])
