#!/bin/bash
# seedtest2.sh <patch.diff> <tier> <check-id>...  — like seedtest.sh but never touches /repo's working tree:
# the patch is applied to a scratch git worktree (/tmp/seedrepo) and a copy of the harness is built against it.
set -u
PATCH="$(realpath "$1")"; TIER="$2"; shift 2
SLOT="${SEEDSLOT:-}"; W=/tmp/seedrepo$SLOT; H=/tmp/seedharness$SLOT
if [ ! -d "$W" ]; then git -C /repo worktree add -q --detach "$W" HEAD || exit 2; fi
git -C "$W" checkout -q -- . && git -C "$W" checkout -q --detach "$(git -C /repo rev-parse HEAD)" || exit 2
git -C "$W" apply "$PATCH" || { echo "patch does not apply"; exit 2; }
mkdir -p "$H"; rsync -a --delete /verif/harness/src "$H/"; cp /verif/harness/Cargo.lock "$H/"; mkdir -p "$H/.cargo"; cp /verif/harness/.cargo/config.toml "$H/.cargo/"
sed "s|path = \"/repo\"|path = \"$W\"|" /verif/harness/Cargo.toml > "$H/Cargo.toml"
export CARGO_NET_OFFLINE=true CARGO_TARGET_DIR=/verif/target-seed$SLOT VERIF_OUT=/verif/scratch/seedtest$SLOT
mkdir -p "$VERIF_OUT/evidence" "$VERIF_OUT/replays"; cp -f /verif/KNOWN_FINDINGS.json "$VERIF_OUT/"
( cd "$H" && cargo build --release --offline >"$VERIF_OUT/build.log" 2>&1 ) || { echo "MACHINERY: build failed"; grep -E '^error' -A 8 "$VERIF_OUT/build.log" | head -20; exit 2; }
ulimit -n 20000 2>/dev/null
for id in "$@"; do
  out=$(/verif/target-seed$SLOT/release/vcheck "$id" --tier "$TIER" 2>&1); code=$?
  key=$(echo "$out" | grep 'key=' | grep -v KNOWN | head -1 | cut -c1-200)
  echo "$id exit=$code $key"
done
git -C "$W" checkout -q -- .
