#!/bin/bash
# confirm_seed.sh <worktree> <patch.diff> <demo.rs> [extra cargo args for demo]
# Confirms, on /repo's current HEAD in the scratch worktree: patch applies, builds both ways,
# the 73 baseline tests pass with it, the demo fails with it and passes without it.
set -u
WT="$1"; PATCH="$(realpath "$2")"; DEMO="$(realpath "$3")"; shift 3
HEAD=$(git -C /repo rev-parse HEAD)
cd "$WT" || exit 2
git checkout -q -- . 2>/dev/null; git stash -q 2>/dev/null
rm -f tests/seed_demo.rs
git checkout -q --detach "$HEAD" || exit 2
echo "head=$HEAD"
git apply "$PATCH" || { echo "RESULT patch_applies=no"; exit 1; }
cargo build --offline >/dev/null 2>&1 && b1=ok || b1=FAIL
cargo build --offline --features verif >/dev/null 2>&1 && b2=ok || b2=FAIL
base=$(cargo test --workspace --no-fail-fast --offline 2>&1 | grep -E '^test result' | awk '{p+=$4; f+=$6} END {print p"/"f}')
cp "$DEMO" tests/seed_demo.rs
cargo test --offline --features verif --test seed_demo "$@" >/tmp/demo_with.$$ 2>&1; with=$?
git checkout -q -- src
cargo test --offline --features verif --test seed_demo "$@" >/tmp/demo_without.$$ 2>&1; without=$?
echo "RESULT patch_applies=yes build=$b1 build_verif=$b2 baseline_pass/fail=$base demo_with_change_exit=$with demo_without_change_exit=$without"
grep -E '^test result' /tmp/demo_with.$$ | head -2; grep -E '^test result' /tmp/demo_without.$$ | head -2
rm -f /tmp/demo_with.$$ /tmp/demo_without.$$ tests/seed_demo.rs
